#!/bin/bash
# usage: keep_seed.sh <seed e.g. C03-1> <prop> ["note"] — copies a confirmed seed into /verif/seeded/<seed>/ and records how the checks fare on it
S=$1; P=$2; export NOTE=${3:-}
mkdir -p /verif/seeded/$S
cp /tmp/seeds/$S/patch.diff /tmp/seeds/$S/meta.json /tmp/seeds/$S/confirm.log /verif/seeded/$S/ 2>/dev/null
cp /tmp/seeds/$S/*_test.go /tmp/seeds/$S/demo.sh /verif/seeded/$S/ 2>/dev/null
OUT=$(LINES_OUT=400 /verif/try_seed_wt.sh /verif/seeded/$S $P quick 2>&1)
if echo "$OUT" | grep -q "PATCH DOES NOT APPLY"; then
  # a later fix: commit touched the same lines: evaluate on the commit the seed was written against
  OUT=$(BASE=${SEED_BASE:-35f2dd2} LINES_OUT=400 /verif/try_seed_wt.sh /verif/seeded/$S $P quick 2>&1)
  OUT="NOTE: patch no longer applies to HEAD; evaluated on ${SEED_BASE:-35f2dd2}
$OUT"
fi
echo "$OUT" | grep "^  rule=\|^VIOLATION\|^NOTE\|^NEW-VIOL" | cut -c1-300 > /verif/seeded/$S/check_output.txt
echo "$OUT" | tail -2 >> /verif/seeded/$S/check_output.txt
if echo "$OUT" | grep -q "^NEW-VIOLATIONS"; then N=$(echo "$OUT" | grep "^NEW-VIOLATIONS" | awk '{print $2}'); else N=$(echo "$OUT" | grep -c "^VIOLATION"); fi
export S P N
python3 - <<'PY'
import json,os
S,P,N,NOTE=os.environ['S'],os.environ['P'],int(os.environ['N']),os.environ['NOTE']
m=json.load(open(f'/verif/seeded/{S}/meta.json'))
log=open(f'/verif/seeded/{S}/confirm.log').read()
m['confirmed_by_me']={'suite_ok':'SUITE_OK' in log,'demo_fails_with_change':('FAIL' in log.split('== demo with the change')[1].split('== build')[0]) or 'demo exit with change: 1' in log,
  'demo_passes_without_change':'FAIL' not in log.split('== demo without the change')[1].split('== apply')[0], 'how':'confirm_seed.sh in a fresh scratch worktree of the pinned commit (log: confirm.log)'}
m['check']={'property':P,'violations_reported':N,'detected':N>0,'note':NOTE}
json.dump(m,open(f'/verif/seeded/{S}/meta.json','w'),indent=1)
print(S, m['confirmed_by_me'], m['check'])
PY
