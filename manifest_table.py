# Edited by hand; gen_manifest.py turns it into MANIFEST.json.
NOTE = ("Trusted: go/types + go/ssa + VTA of x/tools v0.29.0; dependencies (frozen, afero, wbnf, grpc) as documented; default build "
        "configuration, non-test files of module github.com/arr-ai/arrai. Decides only the structural clauses named in 'text'; "
        "value-level behaviour is out of reach of this family and not claimed.")

claim("C08", "grammar-language enumeration vs operator-table keys (AST + types), control dependence of short-circuit operand evaluation on the first operand's value, operand-preservation data flow of expression constructors",
      "Decides structural necessary conditions of the source-level equivalences: (R08a) every operator token the compiled wbnf grammar "
      "can produce has an entry in the operator table the compiler indexes with it (a lone ~ is a declared over-generation); (R08b) &&, || and if/else "
      "evaluate their later operands only under a branch on the first operand's value; (R08e) no constructor in binops/unops returns an expression "
      "that dropped a non-literal operand (compile-time folding cannot skip an evaluation); (R08d) let and arrow share one constructor chain; (R08c) a folding New…Expr constructor and its expression's Eval hand the value "
      "constructor the same scalar options (folded and unfolded literals mean the same); (R08g) the grammar compiled into the parser is, rule for rule, the documented grammar syntax/arrai.wbnf (operator precedence levels included). A pass does not show the "
      "equivalences themselves (that needs evaluation); a failure shows a source text on which compile/eval crashes instead of behaving "
      "like its documented equivalent.", NOTE, "DESIGN.md §3 C08")

claim("C06", "type-specialised SCCP over go/ssa on all ordered pairs of value types (incl. @neg wrappers); table evaluation of compareOps; comparator provenance over VTA-resolved sort sites",
      "Decides, for all values at once, the type-level part of the order: (R06a) for every ordered pair of distinct value types - 19 Go types plus the "
      "(@neg: x) wrapper refinement of each - T.Less(U) and U.Less(T) fold to constants of which exactly one is true, Equal folds to false, the induced "
      "order on types is transitive and agrees with Kind(); no same-kind Less definitely panics; (R06b) Kind() constants distinct and registered once; "
      "(R06c) < > <= >= (and negations) in compareOps match the truth table of a strict total order; (R06d) every sort/ordered-range comparator "
      "decides through Value.Less in the forward direction; (R06e) max/min reducers pick by Less in the right direction; (R06f) the cached attribute-name order that GenericTuple.Less and Format walk is "
      "only ever stored sorted; (R06g) no Less method returns the bare negation of a Less (>= instead of the reversed <); (R06h) every sort.Interface implementation swaps each slice its Less indexes; (R07d) no Less method reaches a "
      "Hash call. Within-kind comparisons "
      "(value-level, e.g. Relation.Less with differing headings) are not decided.", NOTE, "DESIGN.md §3 C06")

claim("C01", "type-specialised SCCP over every pair of set representations (dispatch totality), symbolic bucket-routing agreement, rows-provenance rule over go/ssa",
      "Decides structural necessary conditions of exact set algebra across representations: (R01a) no cell of Intersect/Union/Difference/"
      "SymmetricDifference (13x13 representation pairs), PowerSet, With/Without/Has (13x19) definitely panics, and the panicking "
      "UnionSet.unionSetSubsetBucket is unreachable; (R01b) element-type bucket == subset bucket of the set type its builder constructs, sets "
      "route to the generic bucket; (R01c) adding a foreign element to String/Bytes/Array/Dict always goes through toUnionSetWithItem (never "
      "dropped); (R01d) stored rows of two relations are only combined under explicit column projectors; (R02f, shared with C02) the derived count of a slot builder counts distinct slots; (R01e) Array.count is never used as a position in "
      "Array.values; (R02g) Where/Without of every set representation return the receiver, a normalising constructor's result, or a built value tested for emptiness (one empty set); (R04d) raw rows stand in for projected rows only under isIdentity(); (R05d) dict maps rebuilt from entries keep every value of a key; (R01f) every Dict method that reads map values or the key count handles keys with several values; (R01g) the Without of String/Array/Bytes drops a suffix of its store only when the last element is removed; (R07e) no union by flattening member sets through one "
      "set builder; (R03a, shared with C03) no operator writes "
      "into storage an operand or an earlier result still reaches (a result that overwrites its sibling makes a later union/difference wrong). Member arithmetic inside one "
      "representation (Count, Where, Has on colliding keys) is value-level and not decided.", NOTE, "DESIGN.md §3 C01")

claim("C03", "interprocedural slice/map ownership analysis over go/ssa (flow-sensitive local cells, per-field result summaries, VTA-resolved calls)",
      "Decides the mechanism the property names (slice/map aliasing): (R03a) no append, element store, copy destination, in-place sort, map update "
      "or delete - directly or by passing to a parameter the callee mutates - acts on a slice or map that may alias storage reachable from an "
      "existing value, anywhere in the module (570 sinks), including a slice captured by a closure that can run more than once and is extended "
      "without being written back (partial applications sharing one argument array); (R03b) a frozen builder stored in a value-model builder is finished in place, never on a local copy (the copy leaves the builder aliasing the finished value); (R03c) function values stored in expression or value objects, and the closures they call, write nothing captured from outside their own invocation (no scratch buffer or builder shared between evaluations). Covers every history at once because it is a property of each write site, not of a run. "
      "frozen's persistent maps/sets are trusted; mutation through Export() by a host program is outside.", NOTE, "DESIGN.md §3 C03")

claim("C19", "flag-fixed CFG reachability (dry-run purity and validation completeness), dominance of the dry pass, type-switch fall-through, guard-dominates-use on joined paths, unused-error-result scan",
      "Decides the structural conditions of the two-pass writer: (R19a) every mutating filesystem call is unreachable when the dry-run flag is true; "
      "(R19b) the real pass is dominated by the dry pass on the same arguments and runs only if it returned nil; (R19c) the kind switch over entry "
      "contents ends in an error for unmatched kinds; (R19d) a rejecting test on the joined path dominates every use of it; (R19e) no error result in "
      "out.go is dropped; (R19f) no description error and no validating callee is reachable only when the flag is false without a dry-side twin; (R19g) where the dry pass "
      "validates against an empty scratch filesystem, the real pass's call is dominated by RemoveAll of that path; (R19h) a deferred closure assigns "
      "the named error result only while it is still nil; (R19i) whether an ifExists entry is validated does not depend on what exists on disk. "
      "Byte contents, ifExists merge semantics and fault injection are not decided.", NOTE, "DESIGN.md §3 C19")

claim("C20", "table extraction over go/ssa (outcome switch, runFailed dependence), TS-SCCP of isLiteralTrue/False over all value types, error-propagation and control-dependence checks from leaf to exit status",
      "Decides the decision tables between a leaf and the exit status: (R20a) every result's own Outcome is counted (not an outcome aggregated through a map), every Outcome constant in its own counter, runFailed depends "
      "on the counter of every non-passing outcome RunExpr assigns, Report errors exactly when runFailed; (R20b) only a TrueSet can classify as "
      "passed (for all values, by type), Passed is stored only under that test, is not the zero Outcome, and each leaf appends one result; (R20c) "
      "errors of getTestFiles/ReadFile/Compile/RunExpr/Report reach RunTests' result, doTest and os.Exit(1); (R20d) ForeachLeaf recurses for exactly "
      "Array, Dict, Tuple and reports everything else as a leaf. Leaf path strings and the recursion over all trees are not decided.", NOTE, "DESIGN.md §3 C20")

claim("C17", "actor-goroutine closure over the VTA call graph (interpreter dispatch cut), channel-operation provenance, path counting of reply sends, SSA value identity for install/notify order",
      "Decides structural necessary conditions of the engine's actor loop: (R17a) nothing that runs on the engine goroutine touches the engine's own "
      "mailbox channels; (R17b) every update request is answered exactly once on every path; (R17c) watchers are sent exactly the scope produced by "
      "installing this request's value, after installation, the loop carries that scope, a failed update leaves it unchanged, a new watcher gets the "
      "current scope; (R17d) no unchecked map-miss dereference; (R17e) every evaluation on the actor - and every client callback that is handed a value - is under a recover; (R17f) no blocking send to a "
      "client-owned channel; (R17g) no goroutine spawned from the loop (serial delivery); (R17h) a recovered panic is stored into the function's named "
      "error result on every recovered path (otherwise a panicking update is acknowledged and installs nil); (R17i) the engine's mailboxes are "
      "unbuffered (a client call returns only when the actor took the message, so calls made in sequence are served in sequence); (R17j) every request received on the gRPC update stream is answered (Send) or ends the stream before the next Recv; (R17k) no mutex an observer callback takes is held across a call that rendezvous with the engine goroutine; (R17l) a watcher closed after being read from the watcher map is deleted from it, or the map variable replaced, on every path before the actor's next select. Ordering/fairness between concurrent clients is not decided.", NOTE, "DESIGN.md §3 C17")

claim("C11", "guarded-by analysis (must-hold lockset dataflow, sync.Once Do-closure / dominance), purity of callbacks passed to concurrent frozen APIs and across goroutines, condition-variable wake-up rule",
      "Decides the synchronisation conventions on every path: (R11a) callbacks handed to frozen APIs that fan out over goroutines write no "
      "captured/package state outside a lock - including function values that reach such a callback through module wrappers (GenericSet.Where, "
      "positionalRelation.Where, Relation.Where: inferred to a fixpoint) and closures the callback calls through captured variables; (R11b) 15 inferred guard pairs - every Once-initialised cell is written only in its Do closure and "
      "read only after Do, every mutex-guarded cell is accessed only with the mutex held and written only with it held exclusively (not under RLock), every declared Mutex/Once is used, unsynchronised "
      "package-variable writes are limited to an audited start-up list; (R11c) state changes that waiters wait for are followed by a Broadcast; "
      "(R11d) observer callbacks (run on the engine goroutine) write no captured variable; (R11e) a guarded resource is not used after its lock "
      "is released; (R03c) function values stored in expression or value objects share no captured buffer or builder. Races inside dependencies and serial equivalence of results are not decided.", NOTE, "DESIGN.md §3 C11")

claim("C18", "capability reachability over the VTA call graph with interpreter dispatch cut, registrar-combinator resolution, who-may-call and data-flow of the sandbox scope",
      "Decides the reachability clauses of the sandbox property: (S18a) from each of the 66 Go natives registered in the safe library no process-"
      "execution, network, file-content, unsafe-library or import-resolution capability is reachable (interpreter dispatch cut: evaluating an existing "
      "value mints no capability); (S18b) only host code calls StdScope; (S18c) the scope contextualEval evaluates with has `//` bound on every "
      "path and defaults to the safe library; (S18d) inside rel's evaluators no nested Eval/Bind is handed the global EmptyScope (which unbinds `//`) "
      "on a path some caller can take; (S18e) the tuple attribute `safe` (//std.safe) is built only while SafeStdScopeTuple assembles the safe library; (S18f) the parsed sandbox configuration never comes from package-level state; (S18g) its keys are looked up independently of one another. Four genuine routes exist today and are listed as known findings. Leaks through a dependency's "
      "internals are not decided; the call graph over-approximates, so the claim is level other.", NOTE, "DESIGN.md §3 C18")

claim("C10", "grammar/table agreement, inhabited-type analysis of unchecked assertions, TS-SCCP definite-panic stubs, recover-boundary reachability from goroutine roots, recover-to-error store rule, dimension analysis of text positions (bytes vs characters), condition-variable wake-up rule",
      "Absence of panics over all programs is not decidable here (about 160 explicit panics, 400 unchecked assertions); the check decides five "
      "structural necessary conditions exactly: (R10a) no grammar token lacks a table entry at an unguarded lookup; (R10b) no unchecked assertion to "
      "a type that no value ever has; (R10c) no interface method of a value type is an unconditional panic (24 known stubs on function values); "
      "(R10e) every goroutine root that gRPC or `go` hands us crosses a recover before compiling/evaluating client text; (R10f) no lost wake-up on "
      "the import cache's condition variable; plus the engine/import-cache liveness rules shared with C16/C17 (R17a self-communication, R17d map-miss "
      "dereference, R17e recover on the actor and around value-taking client callbacks, R17h recovered panic stored into the named error result, R19h deferred stores keep the first error, R16d "
      "re-entrant wait); (R10i) sizes of make / Repeat taken from program-supplied numbers are range-checked; (R10h) an interface field that is called without a nil test is set by every construction of its struct; (R10g) byte positions and character positions of text are never mixed in offset arithmetic, slicing or indexing (dimension analysis). Index-out-of-range in general, nil dereference, recursion depth and termination are not decided.", NOTE, "DESIGN.md §3 C10")

claim("C15", "dominance of recorders over readers, flag-fixed reachability of host effects along all call paths from Compile, sibling agreement of archive-location derivations",
      "Decides structural necessary conditions of bundle = sources: (R15a) every import read is either bundle-run-only or dominated by its recorder "
      "with the error propagated; (R15d) the module component of the entries SetupBundle writes is the very value it stores in config.mainRoot; (R15f) bundleModule returns the module context on every recording path; (R15e) no location handed to a recorder depends on an HTTP response or other environment read; (R15b) no host access (network, process, host files, cwd) is reachable from Compile while isRunningBundle is true, "
      "along every call path; (R15c) every recorder derives archive locations through the same mapping (bundleConfig.mainRoot/absRootPath or "
      "createModulePath) that the runtime re-derives; (R15g) the content of every archive entry except the generated configuration is, unchanged, the bytes read from the source (or a []byte handed in by the importer); (R15h) the archive location of a remote import derives from its URL by scheme removal and joining only, identically in the recorder and the bundle run; (R16h) shared with C16. That the computed archive path equals the runtime path for every layout is string algebra "
      "and not decided.", NOTE, "DESIGN.md §3 C15")

claim("C16", "taint/dominance of the import-path sanitiser with symbolic evaluation of the rejecting predicate on a witness set, root-prefix data flow, wake-up rule, call-graph re-entrancy of the import cache",
      "Decides structural necessary conditions of import confinement and cycle handling: (R16a) the path text reaches importLocalFile only after "
      "path.Clean and a dominating rejecting branch whose condition rejects every shape an escaping cleaned relative path can take (.., ../x, "
      "../../x); (R16b) root imports read rootPath + / + … from findRootFromModule; (R16c) no lost wake-up in the import cache; (R16d) a cyclic import "
      "re-enters getOrAdd with no owner test (genuine hang, known finding); (R16e) the module-root cache is written only on the true branch of the "
      "sentinel test of the stored root; (R16g) an import-cache key depends on every string input its add callback uses; (R16f) after the confinement check the path is only trimmed, prefixed, joined, cleaned or has text "
      "removed - never rewritten by a step that can introduce separators, nor trimmed of separators once it carries the module root; (R16h) every place that appends the script extension does so under a condition on filepath.Ext of the path only (reader, recorder and module bundler resolve one spelling to one file); (R16i) no Dir() under an Ext() test (a directory is not taken for a file because its name has a dot). Which other strings the sanitiser lets through (whitespace, absolute "
      "forms), symlinks and equal values across spellings are not decided.", NOTE, "DESIGN.md §3 C16")

claim("C09", "error-discipline and merge-discipline checks over every Pattern.Bind call site (go/ssa def-use, dominance), data-dependence of the agreement test",
      "Decides the error and merge discipline of pattern matching: (R09a) at each of the 19 Bind call sites the error is passed through or tested "
      "and the bound scope - and the returned context, which carries @{name} bindings - is used only on the nil branch; (R09b) composite patterns combine sub-bindings only through MatchedUpdate/MatchedWith "
      "with the error propagated; (R09c) the agreement test on repeated names must be extensional (it is String()-based today: known finding); (R09d) for every structural pattern and every value type of another kind, Bind with that "
      "dynamic type fixed (TS-SCCP, all values of the type) reaches no nil-error return; (R09e) a ...rest sub-pattern is bound after the walk over the explicit sub-patterns, never inside it with the running remainder. "
      "Which values a pattern matches (index arithmetic over offsets and holes) is value-level and not decided.", NOTE, "DESIGN.md §3 C09")

claim("C04", "symbolic evaluation of the join operators' combine/partitionNames function literals in a 3-region heading algebra over all 8 worlds; constant-folded switch exhaustiveness",
      "Decides that the two implementations of every join operator agree with each other and with the operator's glyph on the output heading "
      "(R04a: 8 operators x 8 worlds, isSubset guards evaluated per world, outputs disjoint) and that the positional join's 3-bit mode switch "
      "handles all 8 modes (R04b). R01d (rows of two relations only meet under projectors) and R03a (no join writes a heading or row store an "
      "operand still reaches) run under this property too; (R04c) no relational helper that takes a per-element function has a return path that builds "
      "its result from the input without involving that function (nestWithFunc shared by Nest and SingleAttrNest); (R04d) a relation's stored rows are handed out in place of their projection only "
      "under projector.isIdentity(); (R04e) isIdentity answers true only for a projector as wide as the row. Row contents, column permutations "
      "inside the positional joins, nest/unnest inversion and rank values are value-level and not decided.", NOTE, "DESIGN.md §3 C04")

claim("C12", "table extraction and agreement (printer escape table vs reader escape switch, printer identifier pattern vs grammar IDENT), transitive field-read sets of Equal vs Format",
      "Decides codec agreement at the table level: (R12a) every backslash-letter the printer emits is mapped back to the same character by the "
      "reader (reader table read from the escape switch, from parallel constant strings or from a map literal), and the reader handles \\\\, both quotes and \\x; (R12b) for all 18 value types, every field Equal reads is read by Format/String "
      "(Bytes.offset is not: known finding); (R12c) names are printed unquoted only when they match the grammar's IDENT (pattern equality; no unicode "
      "classification); (R13c) no unchecked float->integer conversion in the number printer; (R12d) the pattern by which Bytes.Format selects the quoted-text form accepts ASCII only (the text is written by the rune-wise "
      "escaper); (R12f) a field Equal reads is omitted from the print only under an equality test with its default; (R12e) the `|names|` heading of a relation is written only when every name matches the identifier pattern, and never through a quoting function; (R07b, R06f) printers emit members in a sorted order. The escape reader's index arithmetic (\\xNN off-by-one), number formatting and nesting are value-level and not decided.", NOTE, "DESIGN.md §3 C12")

claim("C13", "TS-SCCP of the encoder under each (strict flag, value type) context with data-dependence of the result on the value; shape descriptors of the wire-format switch",
      "Decides two information-loss conditions of the codecs: (R13a) for no data value type with more than one inhabitant does FromArrai (strict or "
      "not) return, on every executable path, a content-independent result with a nil error, and no two singleton types share an image (strict mode "
      "maps five kinds of set to {}: known findings pinned by the existing tests); (R13b) the server wire format gives disjoint kinds distinct JSON "
      "shapes (arrays and sets collide: known finding); (R13c) float->integer conversions in the codecs are the round-trip idiom or range-guarded; "
      "(R13d) a comma-ok option value stored without its flag never overrides a non-zero default; (R13e) the CSV and YAML decoders hand their payload to the codec library without trimming or rewriting it (surrounding whitespace is content in both formats); (R13f) no constant (null, true, \"\") is the image of values of two different types. Round-trip equality itself (number ranges, CSV quoting, YAML scalars, bits) is value-level "
      "and not decided.", NOTE, "DESIGN.md §3 C13")

claim("C05", "TS-SCCP dispatch totality of CallAll/Concatenate over all representation pairs, hole-guard sibling check in the >> evaluator, store-read-implies-offset-read rule over go/ssa",
      "Decides structural necessary conditions of keyed-collection semantics: (R05a) no CallAll(representation x argument type) or Concatenate(pair) "
      "cell definitely panics; (R05b) each branch of the >> / >>> evaluator that maps over a holey store tests the hole marker before handing the "
      "element to the function; (R05c) a function that builds a sequence from another operand's backing store also reads that operand's offset; "
      "(R05d) a dict map is rebuilt from entries only with a look-up of the key in the builder (several values per key are kept); (R01f) Dict methods that read map values handle keys with several values; (R05e) every literal that fills a value type's store also sets the integer fields its Count reads; (R03a) no keyed-collection operator writes through a shared store. "
      "Which value is returned for a key, the ?: fallback classification and shift arithmetic are value-level and not decided.", NOTE, "DESIGN.md §3 C05")

claim("C02", "construction-discipline checks over go/ssa (raw re-slices of holey stores, uncanonicalised tuple allocation), table agreement of the sugar-shape switches, TS-SCCP Equal symmetry, provenance of the positional row digest",
      "Extensional equality rests on 'one denotation, one representation'; the check decides the construction discipline that maintains it: (R02a) no "
      "String/Array is built around a raw re-slice of another value's store outside a trimming constructor; (R02b) a tuple whose name set changed is "
      "returned through a canonicaliser (GenericTuple.With/Without are not: known findings); (R02c) Equal is symmetric for all 153 type pairs; (R02d) "
      "the three shape-specialising switches name all four sugar shapes; (R02e) the layout-sensitive row digest is only taken of canonicalRelation(); "
      "(R02f) a slot builder's derived field (Array.count, String.holes) comes from a counter guarded by the slot's previous content; (R02g) an emptied representation is returned as the one empty set; (R02h) every field an observer method reads is read by Equal too (Closure.scope is not: known finding); (R02i) no Hash takes a float's bit pattern; (R02j) an index computed on a slice is not used as a bound on its front-cut re-slice; "
      "(R01d, R03a) shared with C01/C03. "
      "Extensionality itself and Equal within one type are not decided.", NOTE, "DESIGN.md §3 C02")

claim("C07", "effect analysis of printing paths (unordered sources must be ordered before they reach a writer), provenance of relation headings, collision-test rule for the slot builders",
      "Decides structural necessary conditions of seed-independence: (R07b) in the call closure of every Format/String method and the bundle config "
      "printer, a hash-ordered enumeration (Enumerator/Range/DictEnumerator, Go map range, Names.Names()) occurs only in functions that sort what they "
      "collect or feed order-insensitive aggregates; (R07c) relation headings built from name sets are sorted; (R07a) the index-slot builders "
      "asArray/asString/asBytes overwrite colliding slots in enumeration order (genuine, known findings); (R06d) every sort comparator decides "
      "through Value.Less; (R06f) the tuple name-order cache is only ever stored sorted; (R02e) equal relations hash equally whatever their column "
      "layout (otherwise set de-duplication depends on the per-process seed); (R07d) no Less method of a value type reaches a Hash call (hashes are "
      "seeded per process); (R03c) closures stored in expressions keep no state between evaluations (a result must not depend on which group was evaluated before); (R07f) no loop over a hash-ordered enumeration keeps only what its last element says; (R07e) member sets are not merged by feeding their elements into one set builder (index collisions, last writer wins). A full order-sensitivity classification of all "
      "120 unordered loops, determinism of dependencies and of float reductions are not decided.", NOTE, "DESIGN.md §3 C07")

for pid in []:
    na(pid, "check under construction in this session (see DESIGN.md §3); not claimed until its rules are registered")
na("C14", "agreement of a hand-written array matcher with strings/bytes over all sequences is a relation between runtime values computed by "
          "loops with data-dependent indices; no sound structural clause with teeth exists (DESIGN.md §3 C14)")
