#!/bin/bash
# usage: run_all.sh [tier]  — runs every claimed check (4 at a time) and prints one summary line each plus any VIOLATION details
cd /verif || exit 2
T=${1:-quick}
./check C08 quick >/dev/null 2>&1   # make sure the binary is built before fanning out
PROPS=$(python3 -c "import json;print(' '.join(c['property_id'] for c in json.load(open('MANIFEST.json'))['checks']))")
mkdir -p /tmp/runall
printf '%s\n' $PROPS | xargs -P 4 -I{} sh -c "./check {} $T > /tmp/runall/{}.out 2>&1; echo \$? > /tmp/runall/{}.rc"
bad=0
for p in $PROPS; do
  rc=$(cat /tmp/runall/$p.rc)
  tail -1 /tmp/runall/$p.out | cut -c1-160
  if [ "$rc" != "0" ]; then bad=1; grep "^  rule=" /tmp/runall/$p.out | cut -c1-330; fi
done
exit $bad
