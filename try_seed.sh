#!/bin/bash
# usage: try_seed.sh <seed dir> <prop> [tier]  — applies the seeded patch to /repo, runs the check, and undoes it
D=$1; P=$2; T=${3:-quick}
[ -f $D/patch.diff ] || { echo no patch; exit 2; }
git -C /repo apply $D/patch.diff || { echo "patch does not apply"; exit 2; }
cd /verif && ./check $P $T | grep -v "^    via" | cut -c1-400 | tail -${LINES_OUT:-12}
git -C /repo checkout -- .
git -C /repo status --short | head -3
