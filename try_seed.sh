#!/bin/bash
# usage: try_seed.sh <seed dir> <prop> [tier]
# Applies the seeded patch to /repo, runs the check and undoes it.  If the patch no longer applies to /repo's HEAD
# (a later fix: commit touched the same lines) it is tried on a scratch worktree of the pinned commit instead, and
# the violations are compared with those of the pinned commit itself.
D=$(readlink -f $1); P=$2; T=${3:-quick}
[ -f $D/patch.diff ] || { echo no patch; exit 2; }
cd /verif
if git -C /repo apply --check $D/patch.diff 2>/dev/null; then
  git -C /repo apply $D/patch.diff
  ./check $P $T | grep -v "^    via" | cut -c1-400 | tail -${LINES_OUT:-12}
  git -C /repo checkout -- .
  git -C /repo status --short | head -3
else
  WT=/tmp/wt/try-$$
  git -C /repo worktree add --detach $WT 35f2dd2 >/dev/null 2>&1
  echo "NOTE: patch does not apply to HEAD; evaluated on the pinned commit 35f2dd2"
  VERIF_REPO=$WT ./check $P $T | grep "^VIOLATION\|^KNOWN" | sort > /tmp/try-base-$$.txt
  git -C $WT apply $D/patch.diff || echo "PATCH DOES NOT APPLY TO PINNED EITHER"
  VERIF_REPO=$WT ./check $P $T | grep "^VIOLATION\|^KNOWN" | sort > /tmp/try-seed-$$.txt
  echo "violations only with the seed:"; comm -13 /tmp/try-base-$$.txt /tmp/try-seed-$$.txt | cut -c1-300
  echo "NEW-VIOLATIONS $(comm -13 /tmp/try-base-$$.txt /tmp/try-seed-$$.txt | grep -c VIOLATION)"
  rm -f /tmp/try-base-$$.txt /tmp/try-seed-$$.txt
  git -C /repo worktree remove --force $WT
fi
