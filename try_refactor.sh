#!/bin/bash
# usage: try_refactor.sh <n> [props...] — applies a benign-refactor patch to /repo, runs the checks (all if none named), undoes it
N=$1; shift
git -C /repo apply ${REFDIR:-/verif/refactors}/$N/patch.diff || { echo "patch does not apply"; exit 2; }
cd /verif
if [ $# -eq 0 ]; then ./run_all.sh quick; else for p in "$@"; do ./check $p quick | grep "^  rule=\|^$p" | cut -c1-330; done; fi
git -C /repo checkout -- . ; git -C /repo clean -fdq; git -C /repo status --short | head -3
