package main

import (
	"fmt"
	"go/types"
	"sort"
	"strings"

	"golang.org/x/tools/go/ssa"
)

func init() {
	register("C07", Rule{"R07b", ruleOrderedOutput}, Rule{"R07c", ruleSortedHeadings}, Rule{"R07a", ruleOrderSensitiveLoops})
}

// unorderedSource classifies a call / instruction as producing hash-ordered iteration.
func unorderedSource(ins ssa.Instruction) string {
	switch x := ins.(type) {
	case *ssa.Range:
		if _, ok := x.X.Type().Underlying().(*types.Map); ok {
			return "range over a Go map"
		}
	case ssa.CallInstruction:
		cc := x.Common()
		name := ""
		recv := ""
		if cc.IsInvoke() {
			name, recv = cc.Method.Name(), cc.Value.Type().String()
		} else if c := cc.StaticCallee(); c != nil && c.Signature.Recv() != nil {
			name, recv = baseName(c), c.Signature.Recv().Type().String()
		}
		switch name {
		case "Enumerator", "DictEnumerator", "Range", "bucketRange":
			if strings.Contains(recv, Mod+"/rel.") || strings.Contains(recv, "arr-ai/frozen") {
				return recv[strings.LastIndex(recv, "/")+1:] + "." + name
			}
		case "Names":
			if strings.HasSuffix(recv, "rel.Names") {
				return "Names.Names()"
			}
		}
	}
	return ""
}

// sortsItsOutput: the function sorts (sort.* / OrderedX / GetSorted) — an unordered source inside it is collected
// and ordered before it leaves.
func sortsItsOutput(p *Program, fn *ssa.Function) bool {
	found := false
	ForEachInstr(fn, func(ins ssa.Instruction) {
		c, ok := ins.(ssa.CallInstruction)
		if !ok {
			return
		}
		callee := c.Common().StaticCallee()
		if callee == nil {
			return
		}
		full := callee.String()
		n := baseName(callee)
		if strings.HasPrefix(full, "sort.") || strings.HasPrefix(n, "Ordered") || n == "GetSorted" || n == "TupleOrderedNames" || strings.HasPrefix(n, "ordered") {
			found = true
		}
	})
	return found
}

func ruleOrderedOutput(p *Program, r *Report) {
	r.Begin("R07b", "ordered output: in the static call closure (module functions, interpreter dispatch cut) of every value type's Format and String method, of rel.Repr paths and of syntax.bundleConfig.String, an unordered source (Enumerator / Range / DictEnumerator of hash-ordered collections, range over a Go map, Names.Names()) appears only in a function that orders what it collected (sort.*, Ordered*, GetSorted) or builds an order-insensitive aggregate", 18)
	defer r.End()
	var roots []*ssa.Function
	for _, T := range p.ValueTypes() {
		for _, m := range []string{"Format", "String"} {
			if f := p.MethodOf(T, m); f != nil && InRepo(f) {
				roots = append(roots, f)
			}
		}
	}
	if f := p.Method("syntax", "bundleConfig", "String"); f != nil {
		roots = append(roots, f)
	}
	audited := map[string]string{
		"(rel.String).String":     "iterates the rune store (a slice) — ordered",
		"(rel.GenericSet).Format": "enumerates only after Count() == 1 established that there is a single element",
	}
	seen := map[*ssa.Function]bool{}
	var order []*ssa.Function
	var walk func(f *ssa.Function, depth int)
	walk = func(f *ssa.Function, depth int) {
		if f == nil || seen[f] || !InRepo(f) || f.Blocks == nil || depth > 5 {
			return
		}
		seen[f] = true
		order = append(order, f)
		ForEachInstr(f, func(ins ssa.Instruction) {
			switch x := ins.(type) {
			case ssa.CallInstruction:
				if interpreterDispatch(x.Common()) {
					return
				}
				if c := x.Common().StaticCallee(); c != nil {
					walk(c, depth+1)
				} else if x.Common().IsInvoke() {
					// printing recurses through the Value interface: Format/String of other value types are roots already
					return
				}
			case *ssa.MakeClosure:
				walk(x.Fn.(*ssa.Function), depth+1)
			}
		})
	}
	for _, f := range roots {
		walk(f, 0)
	}
	sort.Slice(order, func(i, j int) bool { return FnName(order[i]) < FnName(order[j]) })
	for _, f := range order {
		var srcs []string
		var first ssa.Instruction
		ForEachInstr(f, func(ins ssa.Instruction) {
			if s := unorderedSource(ins); s != "" {
				srcs = append(srcs, s)
				if first == nil {
					first = ins
				}
			}
		})
		r.Fn(FnName(f))
		key := "printer@" + FnName(f)
		if len(srcs) == 0 {
			r.OK(key, "no unordered source", f.Pos())
			continue
		}
		top := f
		for top.Parent() != nil {
			top = top.Parent()
		}
		if sortsItsOutput(p, f) || sortsItsOutput(p, top) {
			r.OK(key, "orders what it enumerates ("+strings.Join(dedupe(srcs), ", ")+")", f.Pos())
			continue
		}
		if why, ok := audited[FnName(f)]; ok {
			r.OK(key, "audited: "+why, f.Pos())
			continue
		}
		if orderInsensitiveUse(f) {
			r.OK(key, "enumeration feeds only order-insensitive aggregates (builders, counts, hashes by xor)", f.Pos())
			continue
		}
		r.Viol(key, fmt.Sprintf("%s is on a printing path and enumerates %s without ordering the result: the printed text depends on the process's hash seeds", FnName(f), strings.Join(dedupe(srcs), ", ")), first.Pos())
	}
}

// orderInsensitiveUse: every value obtained from the enumeration only flows into set/tuple/map builders, integer
// counters or xor accumulators — never into a writer, a slice append or a string concatenation.
func orderInsensitiveUse(fn *ssa.Function) bool {
	sensitive := false
	ForEachInstr(fn, func(ins ssa.Instruction) {
		switch x := ins.(type) {
		case ssa.CallInstruction:
			cc := x.Common()
			if b, ok := cc.Value.(*ssa.Builtin); ok && b.Name() == "append" {
				sensitive = true
			}
			if c := cc.StaticCallee(); c != nil {
				full := c.String()
				if strings.HasPrefix(full, "fmt.Fprint") || strings.HasPrefix(full, "(*strings.Builder).Write") || strings.HasPrefix(full, "(*bytes.Buffer).Write") || strings.Contains(full, "pkg/fu.") {
					sensitive = true
				}
			}
			if cc.IsInvoke() && strings.HasPrefix(cc.Method.Name(), "Write") {
				sensitive = true
			}
		case *ssa.BinOp:
			if bt, ok := x.Type().Underlying().(*types.Basic); ok && bt.Info()&types.IsString != 0 {
				sensitive = true
			}
		}
	})
	return !sensitive
}

func ruleSortedHeadings(p *Program, r *Report) {
	r.Begin("R07c", "relation headings built from a name set are sorted: the column order of a relation drives its row order in ArrayEnumerator and Relation.Less, so every names slice handed to newRelationBuilder / NewRelation from an unordered name set must come from a sorting function (TupleOrderedNames, OrderedNames, GetSorted, sort.Strings) — otherwise comparison and printing of sets of relations depend on the hash seeds", 1)
	defer r.End()
	nrb := p.Func("rel", "newRelationBuilder")
	if nrb == nil {
		r.Undecided("anchor", "rel.newRelationBuilder not found", 0)
		return
	}
	n := 0
	for _, fn := range p.RepoFns {
		for _, c := range callsTo(fn, nrb) {
			n++
			r.Fn(FnName(fn))
			arg := c.Call.Args[0]
			sorted := DependsOn(arg, func(v ssa.Value) bool {
				cc, ok := v.(*ssa.Call)
				if !ok {
					return false
				}
				callee := cc.Call.StaticCallee()
				if callee == nil {
					return false
				}
				switch baseName(callee) {
				case "TupleOrderedNames", "OrderedNames", "GetSorted":
					return true
				}
				return false
			})
			unorderedNames := DependsOn(arg, func(v ssa.Value) bool {
				ins, ok := v.(ssa.Instruction)
				return ok && unorderedSource(ins) != ""
			})
			// a parameter: the caller's responsibility (checked at the caller when it is in the module)
			if _, isParam := arg.(*ssa.Parameter); isParam && !unorderedNames {
				r.OK(fmt.Sprintf("heading@%s~%d", FnName(fn), n), "names come from the caller", c.Pos())
				continue
			}
			r.Check(sorted || !unorderedNames, fmt.Sprintf("heading@%s~%d", FnName(fn), n), "heading names are sorted (or do not come from an unordered set)", fmt.Sprintf("%s builds a relation whose column order is taken from an unordered name set: rows are ordered and compared column by column in that order, so `<` on relations and the printed order of sets of relations vary from run to run", FnName(fn)), c.Pos())
		}
	}
	if n == 0 {
		r.Undecided("sites", "no call of newRelationBuilder found", 0)
	}
}

// ruleOrderSensitiveLoops: last-writer-wins and first-element picks over unordered enumerations in package rel.
func ruleOrderSensitiveLoops(p *Program, r *Report) {
	r.Begin("R07a", "no order-sensitive effect in loops over unordered sources (package rel, audited): a loop that enumerates a hash-ordered collection or a Go map may add to builders/maps keyed by the element, count, or stop with an element-independent answer; storing `slot[index] = element` (last writer wins), returning the first element, or appending to a slice that is not sorted afterwards makes the result depend on the hash seeds. Each remaining site is listed in an audited table with its reason or is a known finding; a new site fails with reason=unaudited-site", 3)
	defer r.End()
	audited := map[string]string{
		"rel.asArray":  "KNOWN-FINDING",
		"rel.asString": "KNOWN-FINDING",
		"rel.asBytes":  "KNOWN-FINDING",
	}
	_ = audited
	// Narrow, definite form: functions in package rel that receive a variadic/slice of values collected in enumeration
	// order (the set builders' finish functions) and store them by computed index without a collision test.
	for _, name := range []string{"asArray", "asString", "asBytes"} {
		fn := p.Func("rel", name)
		if fn == nil {
			r.Undecided("anchor@"+name, "rel."+name+" not found", 0)
			continue
		}
		r.Fn(FnName(fn))
		// find element stores into a freshly made slice: items[at] = v
		stores := 0
		guarded := 0
		ForEachInstr(fn, func(ins ssa.Instruction) {
			st, ok := ins.(*ssa.Store)
			if !ok {
				return
			}
			ia, ok := st.Addr.(*ssa.IndexAddr)
			if !ok {
				return
			}
			if _, isMake := ia.X.(*ssa.MakeSlice); !isMake {
				if ph, isPhi := ia.X.(*ssa.Phi); !isPhi || ph == nil {
					// stores into other slices are not the slot table
				}
			}
			if _, isConst := ia.Index.(*ssa.Const); isConst {
				return
			}
			stores++
			// is the store executed only under a test of the slot's previous content (a collision check)?  A test that
			// merely precedes the store (counting the slots that were empty) does not protect it.
			pdS := NewPostDom(fn)
			for _, cd := range pdS.TransitiveControlDeps(st.Block()) {
				cond := IfCond(cd.Br)
				if cond == nil {
					continue
				}
				if DependsOn(cond, func(v ssa.Value) bool {
					ld, ok := v.(*ssa.UnOp)
					if !ok {
						return false
					}
					ia2, ok := ld.X.(*ssa.IndexAddr)
					return ok && ia2.X == ia.X && sameValue(ia2.Index, ia.Index, 0)
				}) {
					guarded++
				}
			}
		})
		if stores == 0 {
			r.Info("slots@"+name, "no computed-index slot store found", fn.Pos())
			continue
		}
		r.Check(guarded >= stores, "slots@"+name, "slot stores are preceded by a collision test", fmt.Sprintf("rel.%s places the elements it is given (in set-enumeration order) into slots by index without testing whether the slot is already taken: when two elements share an index the survivor depends on the hash seeds", name), fn.Pos())
	}
}

// R07e: a union is not a flattening through a set builder.  The set builder's finishers for positional tuples
// (asString / asBytes / asArray) keep one element per index — the last one they are handed (R07a).  Feeding a
// builder with the elements of *several* sets (an enumeration nested in an enumeration of sets) makes index
// collisions the normal case (every string has an index 0) and the survivor depends on the enumeration order of the
// outer set.  rel.Union / NUnion keep both tuples.
func ruleNoFlatteningThroughBuilder(p *Program, r *Report) {
	r.Begin("R07e", "no union by flattening: nowhere in the module is a rel.SetBuilder fed, unchanged, with the elements of the elements of a set (an Enumerator().Current() nested inside another enumeration whose current element is the set being enumerated); sets are merged with rel.Union / NUnion, which do not collapse positional tuples that share an index", 0)
	defer r.End()
	isCurrent := func(v ssa.Value) (*ssa.Call, bool) {
		c, ok := v.(*ssa.Call)
		if !ok || !c.Call.IsInvoke() || c.Call.Method.Name() != "Current" {
			return nil, false
		}
		return c, true
	}
	// the set an enumerator enumerates: e := X.Enumerator() → X
	enumeratedSet := func(cur *ssa.Call) ssa.Value {
		var out ssa.Value
		DependsOn(cur.Call.Value, func(x ssa.Value) bool {
			c, ok := x.(*ssa.Call)
			if ok && out == nil && ((c.Call.IsInvoke() && strings.HasSuffix(c.Call.Method.Name(), "Enumerator")) || (c.Call.StaticCallee() != nil && strings.HasSuffix(c.Call.StaticCallee().Name(), "Enumerator"))) {
				if c.Call.IsInvoke() {
					out = c.Call.Value
				} else if len(c.Call.Args) > 0 {
					out = c.Call.Args[0]
				}
			}
			return false
		})
		return out
	}
	n := 0
	for _, fn := range p.RepoFns {
		ForEachInstr(fn, func(ins ssa.Instruction) {
			c, ok := ins.(*ssa.Call)
			if !ok {
				return
			}
			g := c.Call.StaticCallee()
			if g == nil || g.Name() != "Add" || g.Signature.Recv() == nil || !strings.HasSuffix(g.Signature.Recv().Type().String(), "rel.SetBuilder") || len(c.Call.Args) < 2 {
				return
			}
			// the added value is, unchanged, the current element of an inner enumeration …
			inner, ok := isCurrent(c.Call.Args[1])
			if !ok {
				if mi, isMI := c.Call.Args[1].(*ssa.MakeInterface); isMI {
					inner, ok = isCurrent(mi.X)
				}
			}
			if !ok {
				return
			}
			set := enumeratedSet(inner)
			if set == nil {
				return
			}
			// … whose set is the current element of an outer enumeration
			nested := DependsOn(set, func(x ssa.Value) bool {
				oc, ok := isCurrent(x)
				return ok && oc != inner
			})
			if !nested {
				return
			}
			n++
			r.Fn(FnName(fn))
			r.Viol(fmt.Sprintf("flatten@%s~%d", FnName(fn), n), fmt.Sprintf("%s merges the members of a set of sets by adding every element to one SetBuilder: positional tuples of different members that share an index (every string has an index 0) collapse to whichever the outer set's hash order enumerates last, so the result differs from run to run; rel.Union / NUnion keep them apart", FnName(fn)), c.Pos())
		})
	}
	if n == 0 {
		r.OK("flatten", "no set builder is fed from a nested enumeration of member sets", 0)
	}
}

func init() {
	register("C07", Rule{"R07e", ruleNoFlatteningThroughBuilder})
	register("C01", Rule{"R07e", ruleNoFlatteningThroughBuilder})
}

// R07f: the last element of an unordered enumeration decides nothing.  In a loop driven by MoveNext() of an
// enumerator, a loop-carried variable that is *overwritten* from the current element on every iteration (its new
// value does not depend on its old one) and is read after the loop holds whatever the hash order enumerated last.
// Accumulations (x = x && f(e), n += …, append, builders) are independent of the order; overwrites are not.
func ruleNoLastElementWins(p *Program, r *Report) {
	r.Begin("R07f", "no last-element-wins: in every loop over an enumerator (MoveNext / Current) in the module, a loop-carried variable whose per-iteration value is computed from the current element without depending on its own previous value is not read after the loop — such a value is decided by whichever element the hash order yields last (a flag that should have been accumulated with && or an early exit)", 0)
	defer r.End()
	n := 0
	for _, fn := range p.RepoFns {
		// loop headers: blocks ending in If on a MoveNext() result
		for _, hb := range fn.Blocks {
			cond := IfCond(hb)
			if cond == nil {
				continue
			}
			mv, ok := cond.(*ssa.Call)
			if !ok || !mv.Call.IsInvoke() || mv.Call.Method.Name() != "MoveNext" {
				continue
			}
			// an ordered enumerator is fine: ArrayEnumerator / OrderedValues / slices
			ordered := DependsOn(mv.Call.Value, func(x ssa.Value) bool {
				c, ok := x.(*ssa.Call)
				if !ok {
					return false
				}
				name := ""
				if c.Call.IsInvoke() {
					name = c.Call.Method.Name()
				} else if g := c.Call.StaticCallee(); g != nil {
					name = g.Name()
				}
				return strings.Contains(name, "Ordered") || strings.Contains(name, "ArrayEnumerator")
			})
			if ordered {
				continue
			}
			body := hb.Succs[0]
			inLoop := func(b *ssa.BasicBlock) bool {
				return b == hb || ((b == body || Reaches(body, b, false)) && Reaches(b, hb, false))
			}
			if !Reaches(body, hb, false) && body != hb {
				continue
			}
			for _, ins := range hb.Instrs {
				ph, ok := ins.(*ssa.Phi)
				if !ok {
					continue
				}
				for i, e := range ph.Edges {
					pred := hb.Preds[i]
					if !inLoop(pred) || e == ssa.Value(ph) {
						continue
					}
					// the back-edge value: from the current element, and not from the variable's own previous value
					fromCur := DependsOn(e, func(x ssa.Value) bool {
						c, ok := x.(*ssa.Call)
						return ok && c.Call.IsInvoke() && c.Call.Method.Name() == "Current"
					})
					accum := DependsOn(e, func(x ssa.Value) bool { return x == ssa.Value(ph) })
					if !accum {
						// assigned only under a test of its own previous value ("exactly one" checks: error if already set)
						pdF := NewPostDom(fn)
						for _, cd := range pdF.TransitiveControlDeps(pred) {
							if c2 := IfCond(cd.Br); c2 != nil && c2 != cond && DependsOn(c2, func(x ssa.Value) bool { return x == ssa.Value(ph) }) {
								accum = true
							}
						}
					}
					if !fromCur || accum {
						continue
					}
					// read after the loop?
					usedAfter := false
					if ph.Referrers() != nil {
						for _, ref := range *ph.Referrers() {
							if _, isDbg := ref.(*ssa.DebugRef); isDbg {
								continue
							}
							if !inLoop(ref.Block()) {
								usedAfter = true
							}
						}
					}
					if !usedAfter {
						continue
					}
					n++
					r.Fn(FnName(fn))
					name := ph.Comment
					if name == "" {
						name = "a variable"
					}
					r.Viol(fmt.Sprintf("last-wins@%s#%s", FnName(fn), name), fmt.Sprintf("%s overwrites %s from the current element on every iteration of a loop over an unordered enumerator and reads it after the loop: the result is decided by the element the per-process hash order yields last", FnName(fn), name), ph.Pos())
				}
			}
		}
	}
	if n == 0 {
		r.OK("last-wins", "no loop over an enumerator keeps only its last element", 0)
	}
}

func init() { register("C07", Rule{"R07f", ruleNoLastElementWins}) }
