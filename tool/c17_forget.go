package main

import (
	"fmt"
	"go/types"

	"golang.org/x/tools/go/ssa"
)

// R17l: a closed observer is forgotten.  (*watcher).close tells the observer that its observation is over; the actor
// must drop that watcher from the map it iterates when it delivers updates before it takes the next message,
// otherwise a hung-up or cancelled observer keeps receiving later states and is closed again.
// Typestate over the map the watcher came from: after every call of a close method (a result-less method of a
// module type of package engine that invokes the receiver's `onclose` callback) on a value read from a map
// (lookup or range), every path to the function's exits or back to the actor's select passes a `delete` on that
// map or a store of another map into the variable the map was loaded from.  If the map is a parameter of a
// package-local function, the obligation moves to each call site (with the argument as the map).
func ruleClosedWatcherForgotten(p *Program, r *Report) {
	r.Begin("R17l", "a closed observer is forgotten: in package engine, after every call of a close method (result-less method that invokes the receiver's onclose callback) on a watcher read from a map, every path to the function's exits or back to the actor's select deletes that key from the map or stores another map into the variable the map was loaded from (through call sites when the map is a parameter of a package-local helper); otherwise a hung-up or cancelled observer still receives later states and is closed twice", 2)
	defer r.End()
	closers := map[*ssa.Function]bool{}
	var engineFns []*ssa.Function
	for _, fn := range p.RepoFns {
		if PkgPathOf(fn) != Mod+"/engine" {
			continue
		}
		engineFns = append(engineFns, fn)
		if fn.Signature.Recv() == nil || fn.Signature.Results().Len() != 0 {
			continue
		}
		ForEachInstr(fn, func(ins ssa.Instruction) {
			c, ok := ins.(ssa.CallInstruction)
			if !ok || c.Common().IsInvoke() {
				return
			}
			// call of a func-typed field named onclose loaded from the receiver
			if u, ok := c.Common().Value.(*ssa.UnOp); ok {
				if fa, ok := u.X.(*ssa.FieldAddr); ok {
					if st, ok := deref(fa.X.Type()).Underlying().(*types.Struct); ok && st.Field(fa.Field).Name() == "onclose" {
						if len(fn.Params) > 0 && fa.X == ssa.Value(fn.Params[0]) {
							closers[fn] = true
						}
					}
				}
			}
		})
	}
	if len(closers) == 0 {
		r.Undecided("anchor", "no close method (result-less method invoking the receiver's onclose callback) found in package engine", 0)
		return
	}
	for _, fn := range engineFns {
		ForEachInstr(fn, func(ins ssa.Instruction) {
			c, ok := ins.(ssa.CallInstruction)
			if !ok || c.Common().IsInvoke() {
				return
			}
			callee := c.Common().StaticCallee()
			if callee == nil || !closers[callee] || len(c.Common().Args) == 0 {
				return
			}
			m := mapOrigin(c.Common().Args[0])
			if m == nil {
				return // the watcher did not come from a map (e.g. a fresh one rejected before registration)
			}
			r.Fn(FnName(fn))
			ok2, why := forgottenAfter(engineFns, fn, ins, m, 0)
			key := fmt.Sprintf("forget@%s->%s", FnName(fn), FnName(callee))
			r.Check(ok2, key, "the closed watcher's map entry is dropped on every path", fmt.Sprintf("%s closes a watcher taken from a map but %s: the observer stays registered, receives later states after it was told the observation is over and is closed again", FnName(fn), why), ins.Pos())
		})
	}
}

func deref(t types.Type) types.Type {
	if p, ok := t.Underlying().(*types.Pointer); ok {
		return p.Elem()
	}
	return t
}

// mapOrigin returns the map value a value was read from by lookup or range, or nil.
func mapOrigin(v ssa.Value) ssa.Value {
	for i := 0; i < 8; i++ {
		switch x := v.(type) {
		case *ssa.Extract:
			v = x.Tuple
		case *ssa.Lookup:
			if _, ok := x.X.Type().Underlying().(*types.Map); ok {
				return x.X
			}
			return nil
		case *ssa.Next:
			if rg, ok := x.Iter.(*ssa.Range); ok {
				if _, ok := rg.X.Type().Underlying().(*types.Map); ok {
					return rg.X
				}
			}
			return nil
		case *ssa.Phi:
			if len(x.Edges) == 0 {
				return nil
			}
			v = x.Edges[0]
		default:
			return nil
		}
	}
	return nil
}

// sameMap: v is the map m or another load of the variable m was loaded from.
func sameMap(v, m ssa.Value) bool {
	if v == m {
		return true
	}
	a, ok1 := v.(*ssa.UnOp)
	b, ok2 := m.(*ssa.UnOp)
	return ok1 && ok2 && a.X == b.X
}

func forgets(ins ssa.Instruction, m ssa.Value) bool {
	switch x := ins.(type) {
	case *ssa.Call:
		if b, ok := x.Call.Value.(*ssa.Builtin); ok && (b.Name() == "delete" || b.Name() == "clear") && len(x.Call.Args) > 0 && sameMap(x.Call.Args[0], m) {
			return true
		}
	case *ssa.Store:
		if u, ok := m.(*ssa.UnOp); ok && x.Addr == u.X {
			return true
		}
	}
	return false
}

// forgottenAfter: every path from `from` (exclusive) to an exit of fn, or back to a select, passes a forgetting instruction.
func forgottenAfter(pkgFns []*ssa.Function, fn *ssa.Function, from ssa.Instruction, m ssa.Value, depth int) (bool, string) {
	blk := from.Block()
	start := -1
	for i, ins := range blk.Instrs {
		if ins == from {
			start = i
		}
	}
	seen := map[*ssa.BasicBlock]bool{}
	type item struct {
		b *ssa.BasicBlock
		i int
	}
	work := []item{{blk, start + 1}}
	escapes := false
	for len(work) > 0 {
		it := work[len(work)-1]
		work = work[:len(work)-1]
		stopped := false
		for _, ins := range it.b.Instrs[it.i:] {
			if forgets(ins, m) {
				stopped = true
				break
			}
			switch ins.(type) {
			case *ssa.Return, *ssa.Select:
				escapes, stopped = true, true
			}
			if stopped {
				break
			}
		}
		if stopped {
			continue
		}
		if len(it.b.Succs) == 0 {
			continue // panic
		}
		for _, s := range it.b.Succs {
			if !seen[s] {
				seen[s] = true
				work = append(work, item{s, 0})
			}
		}
	}
	if !escapes {
		return true, ""
	}
	// the map is a parameter of a package-local function: the callers must forget
	if prm, ok := m.(*ssa.Parameter); ok && depth < 3 {
		idx := -1
		for i, q := range fn.Params {
			if q == prm {
				idx = i
			}
		}
		sites := 0
		for _, g := range pkgFns {
			bad := ""
			ForEachInstr(g, func(ins ssa.Instruction) {
				c, ok := ins.(ssa.CallInstruction)
				if !ok || c.Common().IsInvoke() || c.Common().StaticCallee() != fn || idx >= len(c.Common().Args) {
					return
				}
				sites++
				if _, isDefer := ins.(*ssa.Defer); isDefer {
					return // runs as the function returns: nothing can read the map afterwards
				}
				if onlyDeferred(g) {
					return
				}
				if ok3, _ := forgottenAfter(pkgFns, g, ins, c.Common().Args[idx], depth+1); !ok3 {
					bad = FnName(g)
				}
			})
			if bad != "" {
				return false, fmt.Sprintf("neither it nor its caller %s removes the entry or replaces the map (the map is a parameter: assigning to it changes only the callee's copy)", bad)
			}
		}
		if sites > 0 {
			return true, ""
		}
	}
	return false, "a path reaches the function's exit or the actor's next select without a delete on that map or a store of another map into its variable"
}

// onlyDeferred: g is a function literal whose every use is as the function of a defer statement.
func onlyDeferred(g *ssa.Function) bool {
	par := g.Parent()
	if par == nil {
		return false
	}
	uses, deferred := 0, 0
	ForEachInstr(par, func(ins ssa.Instruction) {
		mc, ok := ins.(*ssa.MakeClosure)
		if !ok || mc.Fn != ssa.Value(g) {
			if d, ok := ins.(*ssa.Defer); ok && d.Call.Value == ssa.Value(g) {
				uses++
				deferred++
			}
			return
		}
		for _, ref := range *mc.Referrers() {
			uses++
			if d, ok := ref.(*ssa.Defer); ok && d.Call.Value == ssa.Value(mc) {
				deferred++
			}
		}
	})
	return uses > 0 && uses == deferred
}

func init() { register("C17", Rule{"R17l", ruleClosedWatcherForgotten}) }
