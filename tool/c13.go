package main

import (
	"fmt"
	"go/ast"
	"go/constant"
	"go/types"
	"sort"
	"strings"

	"golang.org/x/tools/go/ssa"
)

func init() {
	register("C13", Rule{"R13a", ruleLossyCatchAll}, Rule{"R13b", ruleWireShapeCollision})
}

func ruleLossyCatchAll(p *Program, r *Report) {
	r.Begin("R13a", "no lossy catch-all in the encoders: TS-SCCP of Translator.FromArrai under strict ∈ {true,false} × every value type — if, for a type with more than one inhabitant, every executable return yields a nil error and a result that has no data dependence on the value (a content-independent image), all values of that type are silently encoded alike; two singleton types must not share one constant image either", 30)
	defer r.End()
	fa := p.Method("translate", "Translator", "FromArrai")
	if fa == nil {
		r.Undecided("anchor", "translate.Translator.FromArrai not found", 0)
		return
	}
	r.Fn(FnName(fa))
	s := relSCCP(p, r)
	vparam := fa.Params[len(fa.Params)-1]
	for _, strict := range []bool{true, false} {
		recv := AVal{K: ATop, F: map[string]constant.Value{"strict": constant.MakeBool(strict)}}
		singletonImages := map[string]string{}
		for _, T := range p.ValueTypes() {
			name := shortT(T)
			if isFunctionRepr(p, s, T) {
				continue // function values are not data values (the property quantifies over data)
			}
			res := s.Analyze(fa, []AVal{recv, DynCtx(T)})
			key := fmt.Sprintf("image@strict=%v/%s", strict, name)
			if res == nil {
				r.Undecided(key, "not analysable", fa.Pos())
				continue
			}
			if res.Panics {
				r.Info(key, "definitely panics (reported under C10 when reachable)", fa.Pos())
				continue
			}
			// executable returns
			type retInfo struct {
				ret   *ssa.Return
				indep bool
				nilEr bool
				desc  string
			}
			var rets []retInfo
			for _, b := range fa.Blocks {
				if !res.Exec[b] {
					continue
				}
				ret, ok := b.Instrs[len(b.Instrs)-1].(*ssa.Return)
				if !ok || len(ret.Results) != 2 {
					continue
				}
				// skip returns cut off by a definite panic earlier in the block
				cut := false
				for _, pi := range res.PanicAt {
					if pi.Block() == b {
						cut = true
					}
				}
				if cut {
					continue
				}
				rv, ev := RetVal(ret, 0), RetVal(ret, 1)
				dep := DependsOn(rv, func(x ssa.Value) bool { return x == ssa.Value(vparam) })
				desc := "value"
				switch y := rv.(type) {
				case *ssa.Const:
					desc = "const " + y.String()
				case *ssa.MakeInterface:
					desc = "fresh " + TypeName(y.X.Type())
					if k, ok := y.X.(*ssa.Const); ok {
						desc = "const " + k.String()
					}
				}
				rets = append(rets, retInfo{ret, !dep, IsNilConst(ev), desc})
			}
			if len(rets) == 0 {
				r.Info(key, "no executable return", fa.Pos())
				continue
			}
			allIndep, allNil := true, true
			descs := map[string]bool{}
			for _, ri := range rets {
				allIndep = allIndep && ri.indep
				allNil = allNil && ri.nilEr
				descs[ri.desc] = true
			}
			lossy := allIndep && allNil && len(descs) == 1
			if isSingleton(T) {
				if lossy {
					img := SortedKeys(descs)[0]
					if other, dup := singletonImages[img]; dup {
						r.Viol(key, fmt.Sprintf("with strict=%v the singleton values of %s and %s are both encoded as %s: they cannot be told apart after decoding", strict, name, other, img), rets[0].ret.Pos())
						continue
					}
					singletonImages[img] = name
				}
				r.OK(key, "singleton type", fa.Pos())
				continue
			}
			r.Check(!lossy, key, "the encoding depends on the value (or is an error)", fmt.Sprintf("with strict=%v every value of type %s is encoded as the same %s with a nil error: the content is silently discarded instead of being encoded or rejected", strict, name, SortedKeys(descs)[0]), rets[0].ret.Pos())
		}
	}
}

// shape of a returned expression in jsonEscape's cases
func wireShape(info *types.Info, e ast.Expr) string {
	switch x := e.(type) {
	case *ast.ParenExpr:
		return wireShape(info, x.X)
	case *ast.CompositeLit:
		if _, ok := info.Types[x].Type.Underlying().(*types.Map); ok {
			var parts []string
			for _, el := range x.Elts {
				kv, ok := el.(*ast.KeyValueExpr)
				if !ok {
					continue
				}
				k, _ := ConstString(info, kv.Key)
				parts = append(parts, fmt.Sprintf("%q:%s", k, wireShape(info, kv.Value)))
			}
			sort.Strings(parts)
			return "object{" + strings.Join(parts, ",") + "}"
		}
		return "array"
	case *ast.Ident:
		if x.Name == "true" || x.Name == "false" {
			return "bool"
		}
		if tv, ok := info.Types[x]; ok {
			switch u := tv.Type.Underlying().(type) {
			case *types.Map:
				return "object{dynamic keys}"
			case *types.Slice:
				return "array"
			case *types.Basic:
				return u.Name()
			}
		}
	case *ast.CallExpr:
		if tv, ok := info.Types[x]; ok {
			switch u := tv.Type.Underlying().(type) {
			case *types.Basic:
				return u.Name()
			case *types.Map:
				return "object{dynamic keys}"
			case *types.Slice:
				return "array"
			case *types.Interface:
				return "any"
			}
		}
	}
	return "?"
}

func ruleWireShapeCollision(p *Program, r *Report) {
	r.Begin("R13b", "no wire-shape collision in the server wire format: in rel.jsonEscape's type switch, cases for disjoint kinds of value must produce JSON shapes that differ (Go type of the result and constant object keys), otherwise jsonUnescape cannot tell them apart and one kind arrives as the other", 5)
	defer r.End()
	pk := p.PkgSyntax("rel")
	if pk == nil {
		r.Undecided("anchor", "package rel not loaded", 0)
		return
	}
	info := pk.TypesInfo
	found := false
	FuncDecls(pk, func(fd *ast.FuncDecl) {
		if fd.Name.Name != "jsonEscape" || fd.Recv != nil {
			return
		}
		ast.Inspect(fd.Body, func(n ast.Node) bool {
			ts, ok := n.(*ast.TypeSwitchStmt)
			if !ok {
				return true
			}
			found = true
			type caseShape struct {
				types  string
				shapes []string
				pos    ast.Node
			}
			var cases []caseShape
			for _, st := range ts.Body.List {
				cc := st.(*ast.CaseClause)
				var tn []string
				for _, e := range cc.List {
					tn = append(tn, types.ExprString(e))
				}
				if len(tn) == 0 {
					continue
				}
				shapes := map[string]bool{}
				for _, b := range cc.Body {
					ast.Inspect(b, func(m ast.Node) bool {
						if ret, ok := m.(*ast.ReturnStmt); ok && len(ret.Results) == 1 {
							shapes[wireShape(info, ret.Results[0])] = true
						}
						return true
					})
				}
				if len(shapes) == 0 {
					continue // panics
				}
				cases = append(cases, caseShape{strings.Join(tn, "|"), SortedKeys(shapes), cc})
			}
			for i := range cases {
				r.OK("case@"+cases[i].types, "shapes: "+strings.Join(cases[i].shapes, " / "), cases[i].pos.Pos())
				for j := 0; j < i; j++ {
					for _, a := range cases[i].shapes {
						for _, b := range cases[j].shapes {
							if a == b && a != "?" && a != "bool" {
								r.Viol(fmt.Sprintf("collision@%s~%s", cases[j].types, cases[i].types), fmt.Sprintf("jsonEscape encodes both %s and %s as %s: jsonUnescape decodes that shape to one kind only, so a value of the other kind sent to an observer arrives changed", cases[j].types, cases[i].types, a), cases[i].pos.Pos())
							}
						}
					}
				}
			}
			return false
		})
	})
	if !found {
		r.Undecided("switch", "type switch of rel.jsonEscape not found", 0)
	}
}
