package main

import (
	"fmt"
	"go/ast"
	"go/constant"
	"go/token"
	"go/types"
	"sort"
	"strings"

	"golang.org/x/tools/go/ssa"
)

func init() {
	register("C13", Rule{"R13a", ruleLossyCatchAll}, Rule{"R13b", ruleWireShapeCollision})
}

func ruleLossyCatchAll(p *Program, r *Report) {
	r.Begin("R13a", "no lossy catch-all in the encoders: TS-SCCP of Translator.FromArrai under strict ∈ {true,false} × every value type — if, for a type with more than one inhabitant, every executable return yields a nil error and a result that has no data dependence on the value (a content-independent image), all values of that type are silently encoded alike; two singleton types must not share one constant image either", 30)
	defer r.End()
	fa := p.Method("translate", "Translator", "FromArrai")
	if fa == nil {
		r.Undecided("anchor", "translate.Translator.FromArrai not found", 0)
		return
	}
	r.Fn(FnName(fa))
	s := relSCCP(p, r)
	vparam := fa.Params[len(fa.Params)-1]
	for _, strict := range []bool{true, false} {
		recv := AVal{K: ATop, F: map[string]constant.Value{"strict": constant.MakeBool(strict)}}
		singletonImages := map[string]string{}
		for _, T := range p.ValueTypes() {
			name := shortT(T)
			if isFunctionRepr(p, s, T) {
				continue // function values are not data values (the property quantifies over data)
			}
			res := s.Analyze(fa, []AVal{recv, DynCtx(T)})
			key := fmt.Sprintf("image@strict=%v/%s", strict, name)
			if res == nil {
				r.Undecided(key, "not analysable", fa.Pos())
				continue
			}
			if res.Panics {
				r.Info(key, "definitely panics (reported under C10 when reachable)", fa.Pos())
				continue
			}
			// executable returns
			type retInfo struct {
				ret   *ssa.Return
				indep bool
				nilEr bool
				desc  string
			}
			var rets []retInfo
			for _, b := range fa.Blocks {
				if !res.Exec[b] {
					continue
				}
				ret, ok := b.Instrs[len(b.Instrs)-1].(*ssa.Return)
				if !ok || len(ret.Results) != 2 {
					continue
				}
				// skip returns cut off by a definite panic earlier in the block
				cut := false
				for _, pi := range res.PanicAt {
					if pi.Block() == b {
						cut = true
					}
				}
				if cut {
					continue
				}
				rv, ev := RetVal(ret, 0), RetVal(ret, 1)
				dep := DependsOn(rv, func(x ssa.Value) bool { return x == ssa.Value(vparam) })
				desc := "value"
				switch y := rv.(type) {
				case *ssa.Const:
					desc = "const " + y.String()
				case *ssa.MakeInterface:
					desc = "fresh " + TypeName(y.X.Type())
					if k, ok := y.X.(*ssa.Const); ok {
						desc = "const " + k.String()
					}
				}
				rets = append(rets, retInfo{ret, !dep, IsNilConst(ev), desc})
			}
			if len(rets) == 0 {
				r.Info(key, "no executable return", fa.Pos())
				continue
			}
			allIndep, allNil := true, true
			descs := map[string]bool{}
			for _, ri := range rets {
				allIndep = allIndep && ri.indep
				allNil = allNil && ri.nilEr
				descs[ri.desc] = true
			}
			lossy := allIndep && allNil && len(descs) == 1
			if isSingleton(T) {
				if lossy {
					img := SortedKeys(descs)[0]
					if other, dup := singletonImages[img]; dup {
						r.Viol(key, fmt.Sprintf("with strict=%v the singleton values of %s and %s are both encoded as %s: they cannot be told apart after decoding", strict, name, other, img), rets[0].ret.Pos())
						continue
					}
					singletonImages[img] = name
				}
				r.OK(key, "singleton type", fa.Pos())
				continue
			}
			r.Check(!lossy, key, "the encoding depends on the value (or is an error)", fmt.Sprintf("with strict=%v every value of type %s is encoded as the same %s with a nil error: the content is silently discarded instead of being encoded or rejected", strict, name, SortedKeys(descs)[0]), rets[0].ret.Pos())
		}
	}
}

// shape of a returned expression in jsonEscape's cases
func wireShape(info *types.Info, e ast.Expr) string {
	switch x := e.(type) {
	case *ast.ParenExpr:
		return wireShape(info, x.X)
	case *ast.CompositeLit:
		if _, ok := info.Types[x].Type.Underlying().(*types.Map); ok {
			var parts []string
			for _, el := range x.Elts {
				kv, ok := el.(*ast.KeyValueExpr)
				if !ok {
					continue
				}
				k, _ := ConstString(info, kv.Key)
				parts = append(parts, fmt.Sprintf("%q:%s", k, wireShape(info, kv.Value)))
			}
			sort.Strings(parts)
			return "object{" + strings.Join(parts, ",") + "}"
		}
		return "array"
	case *ast.Ident:
		if x.Name == "true" || x.Name == "false" {
			return "bool"
		}
		if tv, ok := info.Types[x]; ok {
			switch u := tv.Type.Underlying().(type) {
			case *types.Map:
				return "object{dynamic keys}"
			case *types.Slice:
				return "array"
			case *types.Basic:
				return u.Name()
			}
		}
	case *ast.CallExpr:
		if tv, ok := info.Types[x]; ok {
			switch u := tv.Type.Underlying().(type) {
			case *types.Basic:
				return u.Name()
			case *types.Map:
				return "object{dynamic keys}"
			case *types.Slice:
				return "array"
			case *types.Interface:
				return "any"
			}
		}
	}
	return "?"
}

func ruleWireShapeCollision(p *Program, r *Report) {
	r.Begin("R13b", "no wire-shape collision in the server wire format: in rel.jsonEscape's type switch, cases for disjoint kinds of value must produce JSON shapes that differ (Go type of the result and constant object keys), otherwise jsonUnescape cannot tell them apart and one kind arrives as the other", 5)
	defer r.End()
	pk := p.PkgSyntax("rel")
	if pk == nil {
		r.Undecided("anchor", "package rel not loaded", 0)
		return
	}
	info := pk.TypesInfo
	found := false
	FuncDecls(pk, func(fd *ast.FuncDecl) {
		if fd.Name.Name != "jsonEscape" || fd.Recv != nil {
			return
		}
		ast.Inspect(fd.Body, func(n ast.Node) bool {
			ts, ok := n.(*ast.TypeSwitchStmt)
			if !ok {
				return true
			}
			found = true
			type caseShape struct {
				types  string
				shapes []string
				pos    ast.Node
			}
			var cases []caseShape
			for _, st := range ts.Body.List {
				cc := st.(*ast.CaseClause)
				var tn []string
				for _, e := range cc.List {
					tn = append(tn, types.ExprString(e))
				}
				if len(tn) == 0 {
					continue
				}
				shapes := map[string]bool{}
				for _, b := range cc.Body {
					ast.Inspect(b, func(m ast.Node) bool {
						if ret, ok := m.(*ast.ReturnStmt); ok && len(ret.Results) == 1 {
							shapes[wireShape(info, ret.Results[0])] = true
						}
						return true
					})
				}
				if len(shapes) == 0 {
					continue // panics
				}
				cases = append(cases, caseShape{strings.Join(tn, "|"), SortedKeys(shapes), cc})
			}
			for i := range cases {
				r.OK("case@"+cases[i].types, "shapes: "+strings.Join(cases[i].shapes, " / "), cases[i].pos.Pos())
				for j := 0; j < i; j++ {
					for _, a := range cases[i].shapes {
						for _, b := range cases[j].shapes {
							if a == b && a != "?" && a != "bool" {
								r.Viol(fmt.Sprintf("collision@%s~%s", cases[j].types, cases[i].types), fmt.Sprintf("jsonEscape encodes both %s and %s as %s: jsonUnescape decodes that shape to one kind only, so a value of the other kind sent to an observer arrives changed", cases[j].types, cases[i].types, a), cases[i].pos.Pos())
							}
						}
					}
				}
			}
			return false
		})
	})
	if !found {
		r.Undecided("switch", "type switch of rel.jsonEscape not found", 0)
	}
}

// R13c: numeric narrowing in the codecs is checked.  A float64→integer conversion of payload data is lossy outside
// the integer range (and implementation-defined in Go).  In the codec code (package translate, the //encoding
// natives, rel's JSON/number helpers) every such conversion must be (a) the module's round-trip idiom — the
// converted value is compared, converted back, with the original (`float64(i) == f`) and every other use of it is
// dominated by the equal branch — or (b) dominated by comparisons of the operand against constants on both sides.
func ruleCheckedNarrowing(p *Program, r *Report) {
	r.Begin("R13c", "checked numeric narrowing: in the codec code (package translate, syntax/std_encoding*.go, rel/json.go, rel/value_number.go) every float→integer conversion is the round-trip idiom (`i := int(f); if float64(i) == f` with every other use of i on the equal branch) or is dominated by range comparisons of the operand; an unguarded one encodes 1e19 as an arbitrary integer", 1)
	defer r.End()
	inScope := func(fn *ssa.Function) bool {
		f := p.File(fn.Pos())
		return strings.Contains(f, "translate/") || strings.Contains(f, "syntax/std_encoding") || strings.HasSuffix(f, "rel/json.go") || strings.HasSuffix(f, "rel/value_number.go")
	}
	isFloat := func(t types.Type) bool {
		b, ok := t.Underlying().(*types.Basic)
		return ok && b.Info()&types.IsFloat != 0
	}
	isInt := func(t types.Type) bool {
		b, ok := t.Underlying().(*types.Basic)
		return ok && b.Info()&types.IsInteger != 0
	}
	n := 0
	for _, fn := range p.RepoFns {
		if !inScope(fn) {
			continue
		}
		ord := 0
		ForEachInstr(fn, func(ins ssa.Instruction) {
			cv, ok := ins.(*ssa.Convert)
			if !ok || !isFloat(cv.X.Type()) || !isInt(cv.Type()) {
				return
			}
			if _, isConst := cv.X.(*ssa.Const); isConst {
				return
			}
			n++
			ord++
			r.Fn(FnName(fn))
			key := fmt.Sprintf("narrowing@%s~%d", FnName(fn), ord)
			// (a) round-trip idiom
			var eqTrue *ssa.BasicBlock
			if refs := cv.Referrers(); refs != nil {
				for _, ref := range *refs {
					back, ok := ref.(*ssa.Convert)
					if !ok || !isFloat(back.Type()) || back.Referrers() == nil {
						continue
					}
					for _, r2 := range *back.Referrers() {
						bo, ok := r2.(*ssa.BinOp)
						if !ok || (bo.Op != token.EQL && bo.Op != token.NEQ) || bo.Referrers() == nil {
							continue
						}
						other := bo.X
						if other == ssa.Value(back) {
							other = bo.Y
						}
						if !sameValue(other, cv.X, 0) {
							continue
						}
						for _, r3 := range *bo.Referrers() {
							if iff, ok := r3.(*ssa.If); ok {
								if bo.Op == token.EQL {
									eqTrue = iff.Block().Succs[0]
								} else {
									eqTrue = iff.Block().Succs[1]
								}
							}
						}
					}
				}
			}
			if eqTrue != nil && len(eqTrue.Preds) == 1 {
				okUses := true
				for _, ref := range *cv.Referrers() {
					if back, isBack := ref.(*ssa.Convert); isBack && isFloat(back.Type()) {
						continue
					}
					if _, isDbg := ref.(*ssa.DebugRef); isDbg {
						continue
					}
					if !eqTrue.Dominates(ref.Block()) {
						okUses = false
					}
				}
				if okUses {
					r.OK(key, "round-trip idiom: used only where float64(i) == f", cv.Pos())
					return
				}
			}
			// (b) range comparisons on both sides dominate
			lower, upper := false, false
			for d := cv.Block(); d != nil; d = d.Idom() {
				id := d.Idom()
				if id == nil {
					break
				}
				iff, ok := id.Instrs[len(id.Instrs)-1].(*ssa.If)
				if !ok {
					continue
				}
				DependsOn(iff.Cond, func(x ssa.Value) bool {
					bo, ok := x.(*ssa.BinOp)
					if !ok {
						return false
					}
					// |f| < c with c within the integer range bounds both sides at once
					if ac, isCall := bo.X.(*ssa.Call); isCall && (bo.Op == token.LSS || bo.Op == token.LEQ) {
						if g := ac.Call.StaticCallee(); g != nil && g.String() == "math.Abs" && len(ac.Call.Args) == 1 && (ac.Call.Args[0] == cv.X || sameValue(ac.Call.Args[0], cv.X, 0)) {
							if k, isK := bo.Y.(*ssa.Const); isK && k.Value != nil {
								if f, _ := constant.Float64Val(constant.ToFloat(k.Value)); f <= 9.223372036854775807e18 {
									lower, upper = true, true
								}
							}
						}
					}
					_, cy := bo.Y.(*ssa.Const)
					_, cx := bo.X.(*ssa.Const)
					var v ssa.Value
					switch {
					case cy:
						v = bo.X
					case cx:
						v = bo.Y
					default:
						return false
					}
					if !(v == cv.X || sameValue(v, cv.X, 0)) {
						return false
					}
					switch bo.Op {
					case token.LSS, token.LEQ:
						if cy {
							upper = true
						} else {
							lower = true
						}
					case token.GTR, token.GEQ:
						if cy {
							lower = true
						} else {
							upper = true
						}
					}
					return false
				})
			}
			r.Check(lower && upper, key, "dominated by range comparisons on both sides", fmt.Sprintf("%s converts a float to %s with neither the round-trip test nor a range check: values outside the integer range (1e19, ±Inf, NaN) are encoded as arbitrary integers, so decoding does not give the value back", FnName(fn), cv.Type()), cv.Pos())
		})
	}
	if n == 0 {
		r.Undecided("sites", "no float→integer conversion found in the codec code (Number.Int is expected)", 0)
	}
}

func init() { register("C13", Rule{"R13c", ruleCheckedNarrowing}) }

// R13d: an absent option keeps its default.  The codec constructors start from a default configuration
// (newJSONEncodeConfig(): strict = true) and override fields from the caller's config tuple through comma-ok
// getters.  Storing the getter's value while discarding its ok flag replaces a non-zero default by the zero value
// whenever the option is absent — `//encoding.json.encoder(())` silently becomes a non-strict encoder and its output
// no longer decodes to the value.  For every field store of the value result of a (T, bool) call whose bool is
// unused: the field's default (a constant stored by the constructor the struct came from, or earlier in the same
// function) must be the zero value.
func ruleDefaultsSurviveAbsence(p *Program, r *Report) {
	r.Begin("R13d", "option defaults survive absence: in package syntax, when the value result of a comma-ok getter (T, bool) is stored into a configuration field without consulting the bool, the field's default — set by the constructor the configuration came from or earlier in the function — is the zero value; otherwise an absent option silently flips a non-zero default (strict JSON encoding) off", 1)
	defer r.End()
	synPkg := p.Pkg("syntax")
	// constant field defaults set by a constructor: callee -> field index -> constant
	ctorDefaults := func(g *ssa.Function) map[int]*ssa.Const {
		out := map[int]*ssa.Const{}
		if g == nil || g.Blocks == nil {
			return out
		}
		ForEachInstr(g, func(ins ssa.Instruction) {
			st, ok := ins.(*ssa.Store)
			if !ok {
				return
			}
			fa, ok := st.Addr.(*ssa.FieldAddr)
			if !ok {
				return
			}
			if k, ok := st.Val.(*ssa.Const); ok {
				out[fa.Field] = k
			}
		})
		return out
	}
	isZero := func(k *ssa.Const) bool {
		if k == nil || k.Value == nil {
			return true
		}
		switch k.Value.Kind() {
		case constant.Bool:
			return !constant.BoolVal(k.Value)
		case constant.String:
			return constant.StringVal(k.Value) == ""
		case constant.Int, constant.Float:
			return constant.Sign(k.Value) == 0
		}
		return false
	}
	n := 0
	for _, fn := range p.RepoFns {
		if fn.Pkg != synPkg {
			continue
		}
		ord := 0
		ForEachInstr(fn, func(ins ssa.Instruction) {
			st, ok := ins.(*ssa.Store)
			if !ok {
				return
			}
			fa, ok := st.Addr.(*ssa.FieldAddr)
			if !ok {
				return
			}
			ex, ok := st.Val.(*ssa.Extract)
			if !ok || ex.Index != 0 {
				return
			}
			call, ok := ex.Tuple.(*ssa.Call)
			if !ok {
				return
			}
			res := call.Call.Signature().Results()
			if res.Len() != 2 {
				return
			}
			if b, isB := res.At(1).Type().Underlying().(*types.Basic); !isB || b.Kind() != types.Bool {
				return
			}
			// is the ok flag consulted anywhere?
			okUsed := false
			if okEx := extractOf(call, 1); okEx != nil && okEx.Referrers() != nil {
				for _, ref := range *okEx.Referrers() {
					if _, isDbg := ref.(*ssa.DebugRef); !isDbg {
						okUsed = true
					}
				}
			}
			if okUsed {
				return
			}
			n++
			ord++
			r.Fn(FnName(fn))
			sto := structOf(fa.X.Type())
			fname := "?"
			if sto != nil {
				fname = sto.Field(fa.Field).Name()
			}
			key := fmt.Sprintf("default@%s#%s", FnName(fn), fname)
			// the default of that field: stored earlier here, or by the constructor whose result initialised the struct
			var def *ssa.Const
			base := fa.X
			if al, isAl := base.(*ssa.Alloc); isAl && al.Referrers() != nil {
				for _, ref := range *al.Referrers() {
					switch u := ref.(type) {
					case *ssa.Store:
						if u.Addr == ssa.Value(al) {
							if c, isCall := u.Val.(*ssa.Call); isCall {
								if k, has := ctorDefaults(c.Call.StaticCallee())[fa.Field]; has {
									def = k
								}
							}
						}
					case *ssa.FieldAddr:
						if u.Field == fa.Field && u != fa && u.Referrers() != nil {
							for _, r2 := range *u.Referrers() {
								if s2, isSt := r2.(*ssa.Store); isSt && s2.Addr == ssa.Value(u) {
									if k, isK := s2.Val.(*ssa.Const); isK && InstrDominates(s2, st) {
										def = k
									}
								}
							}
						}
					}
				}
			}
			if fv, isFV := base.(*ssa.FreeVar); isFV {
				// captured configuration: look at the enclosing function's initialisation of the captured cell
				if b := bindingOf(fv); b != nil {
					if al, isAl := b.(*ssa.Alloc); isAl && al.Referrers() != nil {
						for _, ref := range *al.Referrers() {
							if u, isSt := ref.(*ssa.Store); isSt && u.Addr == ssa.Value(al) {
								if c, isCall := u.Val.(*ssa.Call); isCall {
									if k, has := ctorDefaults(c.Call.StaticCallee())[fa.Field]; has {
										def = k
									}
								}
							}
						}
					}
				}
			}
			r.Check(isZero(def), key, "the field's default is the zero value (an absent option changes nothing)", fmt.Sprintf("%s stores the value of a comma-ok lookup into %s without looking at ok, but the default of that field is %s: when the option is absent the default is silently replaced by the zero value", FnName(fn), fname, def), st.Pos())
		})
	}
	if n == 0 {
		r.Info("sites", "no comma-ok value stored with its flag discarded", 0)
	}
}

func init() { register("C13", Rule{"R13d", ruleDefaultsSurviveAbsence}) }

// R13e: whitespace-significant payloads reach their parser unaltered.  In CSV and YAML surrounding whitespace is
// content (a trailing space in the last cell, the final newline of a block scalar, the indentation of the first
// line).  The decoders for those formats must hand the payload they were given to the codec library as it is; a
// Trim/Replace/Fields/ToLower-style call on it in between changes what some encoder output decodes to.
func ruleSignificantPayloadUnaltered(p *Program, r *Report) {
	r.Begin("R13e", "significant whitespace survives: in the CSV and YAML decoder functions (syntax/std_encoding_csv.go, syntax/std_encoding_yaml.go) no bytes.* / strings.* call that removes or rewrites characters (Trim*, Replace*, Fields, Map, ToLower/ToUpper, Split-and-rejoin) is applied to the payload before it reaches the codec library", 0)
	defer r.End()
	n := 0
	for _, fn := range p.RepoFns {
		f := p.File(fn.Pos())
		if !(strings.HasSuffix(f, "syntax/std_encoding_csv.go") || strings.HasSuffix(f, "syntax/std_encoding_yaml.go")) {
			continue
		}
		if !strings.Contains(strings.ToLower(fn.Name()), "decode") && !(fn.Parent() != nil && strings.Contains(strings.ToLower(fn.Parent().Name()), "decode")) {
			continue
		}
		ord := 0
		ForEachInstr(fn, func(ins ssa.Instruction) {
			c, ok := ins.(*ssa.Call)
			if !ok {
				return
			}
			g := c.Call.StaticCallee()
			if g == nil || g.Pkg == nil {
				return
			}
			pp := g.Pkg.Pkg.Path()
			if pp != "bytes" && pp != "strings" {
				return
			}
			nm := g.Name()
			if !(strings.HasPrefix(nm, "Trim") || strings.HasPrefix(nm, "Replace") || nm == "Fields" || nm == "Map" || strings.HasPrefix(nm, "To")) {
				return
			}
			// applied to a []byte / string that derives from a parameter (the payload)
			onPayload := false
			for _, a := range c.Call.Args {
				if DependsOn(a, func(x ssa.Value) bool { _, isP := x.(*ssa.Parameter); return isP }) {
					onPayload = true
				}
			}
			if !onPayload {
				return
			}
			n++
			ord++
			r.Fn(FnName(fn))
			r.Viol(fmt.Sprintf("altered@%s~%d", FnName(fn), ord), fmt.Sprintf("%s applies %s.%s to the payload before decoding it: in this format leading/trailing whitespace is content (a final cell ending in a space, the last newline of a block scalar, an indented first line), so some encoder outputs no longer decode to the value that was encoded", FnName(fn), pp, nm), c.Pos())
		})
	}
	if n == 0 {
		r.OK("altered", "the CSV and YAML decoders pass their payload on unaltered", 0)
	}
}

func init() { register("C13", Rule{"R13e", ruleSignificantPayloadUnaltered}) }

// R13f: one constant image, one kind.  A return of FromArrai that yields a constant (nil, "", an empty map built from
// nothing) with a nil error encodes *some* values of that type as that constant.  If values of two different types
// can be encoded as the same constant, decoding cannot give both back: e.g. a number class mapped to null next to the
// empty set, which is null already.
func ruleConstantImagesDistinct(p *Program, r *Report) {
	r.Begin("R13f", "constant images are not shared between kinds: under each strict setting, TS-SCCP of Translator.FromArrai per value type collects the constant results returned with a nil error on any executable return; no constant is the image of values of two different types", 1)
	defer r.End()
	fa := p.Method("translate", "Translator", "FromArrai")
	if fa == nil {
		r.Undecided("anchor", "translate.Translator.FromArrai not found", 0)
		return
	}
	r.Fn(FnName(fa))
	// a private engine with two declared refinements that the canonical forms guarantee (R02g: one empty set):
	// a value whose representation is not EmptySet answers IsTrue() with true, and only TrueSet equals True
	base := relSCCP(p, r)
	s := NewSCCP(p)
	s.GlobalConst = base.GlobalConst
	trueT := p.NamedType("rel", "TrueSet")
	s.CallHook = func(callee *ssa.Function, args []AVal) ([]AVal, bool) {
		if len(args) == 0 || callee.Signature.Recv() == nil {
			return nil, false
		}
		tn := shortT(callee.Signature.Recv().Type()) // the method found for the receiver's dynamic type
		switch callee.Name() {
		case "IsTrue":
			if tn != "EmptySet" && callee.Signature.Results().Len() == 1 {
				return []AVal{VBool(true)}, true
			}
		case "Equal":
			if len(args) == 2 && args[1].K == ADyn && trueT != nil && types.Identical(Deref(args[1].T), trueT) && tn != "TrueSet" {
				return []AVal{VBool(false)}, true
			}
		}
		return nil, false
	}
	pdFA := NewPostDom(fa)
	for _, strict := range []bool{true, false} {
		recv := AVal{K: ATop, F: map[string]constant.Value{"strict": constant.MakeBool(strict)}}
		images := map[string][]string{}
		where := map[string]token.Pos{}
		for _, T := range p.ValueTypes() {
			name := shortT(T)
			if isFunctionRepr(p, s, T) {
				continue
			}
			res := s.Analyze(fa, []AVal{recv, DynCtx(T)})
			if res == nil || res.Panics {
				continue
			}
			seen := map[string]bool{}
			for _, b := range fa.Blocks {
				if !res.Exec[b] {
					continue
				}
				ret, ok := b.Instrs[len(b.Instrs)-1].(*ssa.Return)
				if !ok || len(ret.Results) != 2 || !IsNilConst(RetVal(ret, 1)) {
					continue
				}
				// a return selected by `v.Equal(<one value>)` encodes a single value, not a class of values
				single := false
				for _, d := range pdFA.TransitiveControlDeps(b) {
					if cond := IfCond(d.Br); cond != nil && res.Exec[d.Br] && DependsOn(cond, func(x ssa.Value) bool {
						c, ok := x.(*ssa.Call)
						return ok && c.Call.IsInvoke() && c.Call.Method.Name() == "Equal"
					}) {
						single = true
					}
				}
				if single {
					continue
				}
				img := ""
				switch y := RetVal(ret, 0).(type) {
				case *ssa.Const:
					img = y.String()
				case *ssa.MakeInterface:
					if k, ok := y.X.(*ssa.Const); ok {
						img = k.String()
					}
				}
				if img == "" || seen[img] {
					continue
				}
				seen[img] = true
				images[img] = append(images[img], name)
				where[img+"/"+name] = ret.Pos()
			}
		}
		for _, img := range SortedKeys(images) {
			ts := images[img]
			sort.Strings(ts)
			key := fmt.Sprintf("image@strict=%v/%s", strict, img)
			if len(ts) == 1 {
				r.OK(key, "image of "+ts[0]+" only", fa.Pos())
				continue
			}
			r.Viol(key, fmt.Sprintf("with strict=%v values of %s can all be encoded as the constant %s: after decoding they are one value, so the codec does not round-trip for at least one of these types", strict, strings.Join(ts, " and "), img), where[img+"/"+ts[len(ts)-1]])
		}
	}
}

func init() { register("C13", Rule{"R13f", ruleConstantImagesDistinct}) }
