package main

import (
	"fmt"
	"strings"

	"golang.org/x/tools/go/ssa"
)

func init() {
	register("DBG", Rule{"dbg", func(p *Program, r *Report) {
		r.Begin("dbg", "", 0)
		defer r.End()
		for _, fn := range p.RepoFns {
			ForEachInstr(fn, func(ins ssa.Instruction) {
				c, ok := ins.(ssa.CallInstruction)
				if !ok {
					return
				}
				cc := c.Common()
				name := ""
				if cc.IsInvoke() {
					name = cc.Method.Name()
				} else if sc := cc.StaticCallee(); sc != nil {
					name = sc.Name()
				}
				if strings.HasPrefix(name, "Ordered") {
					fmt.Println(p.Pos(ins.Pos()), FnName(fn), cc.IsInvoke(), CalleeName(cc), PkgPathOf(cc.StaticCallee()))
				}
			})
		}
	}})
}
