package main

// R03c: functions stored in expressions and values keep no state between invocations (DESIGN.md §3 C03).
// A function value stored in a field of an expression or value object (NativeFunction.fn, the init / reduce /
// output functions of a ReduceExpr, …) is called once per evaluation, any number of times, possibly from several
// goroutines.  If it — or a closure it calls through a captured variable — writes a variable it captured from
// where it was made (a scratch slice, a bytes.Buffer, a builder), then what one evaluation returned can be changed,
// or decided, by another: results alias the shared buffer (immutability), depend on evaluation order (which, over a
// set, is hash order: determinism) and race (concurrency).

import (
	"fmt"
	"go/token"
	"go/types"
	"sort"

	"golang.org/x/tools/go/ssa"
)

func ruleStatelessEvaluationClosures(p *Program, r *Report) {
	r.Begin("R03c", "stateless evaluation closures: every function value that reaches a function-typed field of an expression or value object (resolved with VTA from the dynamic calls through such fields), and every closure it calls through a captured variable (including closures returned by a module function), writes no variable captured from outside its own invocation — no store to it, no mutating method of a buffer/builder type on it, no map update — unless a lock is held or the write is a sync.Once body", 20)
	defer r.End()
	model := map[*types.TypeName]bool{}
	for _, iface := range []string{"Expr", "Value"} {
		for _, t := range p.Implementers("rel", iface) {
			if n, ok := Deref(t).(*types.Named); ok {
				if _, isStruct := n.Underlying().(*types.Struct); isStruct {
					model[n.Obj()] = true
				}
			}
		}
	}
	isModel := func(t types.Type) bool {
		n, ok := Deref(t).(*types.Named)
		return ok && model[n.Obj()]
	}
	p.CG()
	cc := &concClosure{p: p, concParams: map[*ssa.Function]map[int]bool{}, concFuncs: map[*ssa.Function]string{}}
	why := map[*ssa.Function]string{}
	var work []*ssa.Function
	push := func(f *ssa.Function, w string) {
		if f == nil || f.Blocks == nil || !InRepo(f) {
			return
		}
		if _, ok := why[f]; ok {
			return
		}
		why[f] = w
		work = append(work, f)
	}
	sites := 0
	for _, fn := range p.RepoFns {
		ForEachInstr(fn, func(ins ssa.Instruction) {
			c, ok := ins.(ssa.CallInstruction)
			if !ok || c.Common().IsInvoke() || c.Common().StaticCallee() != nil {
				return
			}
			var holder types.Type
			var fieldName string
			switch v := c.Common().Value.(type) {
			case *ssa.UnOp:
				if fa, ok := v.X.(*ssa.FieldAddr); ok && v.Op == token.MUL {
					holder = fa.X.Type()
					if st := structOf(holder); st != nil {
						fieldName = st.Field(fa.Field).Name()
					}
				}
			case *ssa.Field:
				holder = v.X.Type()
				if st := structOf(holder); st != nil {
					fieldName = st.Field(v.Field).Name()
				}
			}
			if holder == nil || !isModel(holder) {
				return
			}
			sites++
			for _, callee := range p.Callees(c) {
				push(callee, fmt.Sprintf("stored in %s.%s (called in %s)", TypeName(Deref(holder)), fieldName, FnName(fn)))
			}
		})
	}
	// closures called through captured variables / returned by module functions
	for i := 0; i < len(work); i++ {
		f := work[i]
		var body []*ssa.Function
		allFuncs(f, &body)
		for _, g := range body {
			ForEachInstr(g, func(ins ssa.Instruction) {
				c, ok := ins.(ssa.CallInstruction)
				if !ok || c.Common().StaticCallee() != nil || c.Common().IsInvoke() {
					return
				}
				fs, _ := cc.resolveFuncValue(c.Common().Value, 0, map[ssa.Value]bool{})
				for _, h := range fs {
					if !nestedIn(h, f) {
						push(h, why[f]+", which calls "+FnName(h)+" through a captured variable")
					}
				}
			})
		}
	}
	// sync.Once bodies
	onceBody := map[*ssa.Function]bool{}
	for _, fn := range p.RepoFns {
		ForEachInstr(fn, func(ins ssa.Instruction) {
			if c, ok := ins.(*ssa.Call); ok {
				if op, _, is := lockOp(&c.Call); is && op == "do" && len(c.Call.Args) == 2 {
					for _, f := range FuncValueTargets(c.Call.Args[1]) {
						onceBody[f] = true
					}
				}
			}
		})
	}
	var fns []*ssa.Function
	for f := range why {
		fns = append(fns, f)
	}
	sort.Slice(fns, func(i, j int) bool { return FnName(fns[i]) < FnName(fns[j]) })
	ord := map[string]int{}
	checked := 0
	for _, f := range fns {
		if len(f.FreeVars) == 0 {
			continue // not a closure: nothing captured
		}
		checked++
		top := f
		for top.Parent() != nil {
			top = top.Parent()
		}
		r.Fn(FnName(top))
		var bad []capWrite
		for _, w := range capturedWrites(p, f, 0) {
			inOnce := false
			for g := w.fn; g != nil; g = g.Parent() {
				if onceBody[g] {
					inOnce = true
				}
			}
			if !inOnce {
				bad = append(bad, w)
			}
		}
		key := "stateless@" + FnName(top)
		ord[key]++
		if ord[key] > 1 {
			key = fmt.Sprintf("%s~%d", key, ord[key])
		}
		if len(bad) == 0 {
			r.OK(key, "writes nothing it captured ("+why[f]+")", f.Pos())
			continue
		}
		w := bad[0]
		r.Viol(key, fmt.Sprintf("%s is %s and writes %s: the function runs once per evaluation, any number of times and from any goroutine, so one evaluation's result can be changed or decided by another (a result that aliases the shared buffer is overwritten; over a set the outcome depends on hash order; two goroutines race)", FnName(f), why[f], w.what), p.InstrPos(w.ins))
	}
	if sites < 5 {
		r.Undecided("sites", fmt.Sprintf("only %d dynamic calls through function-typed fields of expression / value objects found", sites), 0)
	}
	r.Notes = append(r.Notes, fmt.Sprintf("%d dynamic call sites through model fields, %d functions reach them, %d of them closures", sites, len(fns), checked))
}

func init() {
	register("C03", Rule{"R03c", ruleStatelessEvaluationClosures})
	register("C07", Rule{"R03c", ruleStatelessEvaluationClosures})
	register("C11", Rule{"R03c", ruleStatelessEvaluationClosures})
}
