package main

import (
	"fmt"
	"go/constant"
	"go/token"
	"go/types"
	"sort"
	"strings"

	"golang.org/x/tools/go/ssa"
)

func init() {
	register("C15",
		Rule{"R15a", ruleRecordBeforeRead},
		Rule{"R15b", ruleBundleRunIsolation},
		Rule{"R15c", ruleArchiveLocationSiblings},
	)
}

// flagCallsIn returns the call instructions in fn whose static callee is the given function (results used as flags).
func callsTo(fn *ssa.Function, callee *ssa.Function) []*ssa.Call {
	var out []*ssa.Call
	ForEachInstr(fn, func(ins ssa.Instruction) {
		if c, ok := ins.(*ssa.Call); ok && c.Call.StaticCallee() == callee {
			out = append(out, c)
		}
	})
	return out
}

// onlyWhen reports whether block b of fn is unreachable when some call to flagFn in fn returns !val
// (i.e. b executes only when flagFn(...) == val).
func onlyWhen(fn *ssa.Function, flagFn *ssa.Function, b *ssa.BasicBlock, val bool) bool {
	for _, c := range callsTo(fn, flagFn) {
		if !reachableWhen(fn, c, !val)[b] {
			return true
		}
	}
	return false
}

func ruleRecordBeforeRead(p *Program, r *Report) {
	r.Begin("R15a", "record-before-read: in the import machinery (importLocalFile, importModuleFile, importURL) every call that reads an imported source (fileValue / bytesValue) either executes only when isRunningBundle(ctx) is true (it then reads from the archive), or is dominated by the matching recorder (bundleLocalFile, bundleModule, bundleRemoteFile) whose error is propagated — so a bundle contains every file evaluation needed", 3)
	defer r.End()
	isRun := p.Func("syntax", "isRunningBundle")
	fileValue := p.Func("syntax", "fileValue")
	bytesValue := p.Func("syntax", "bytesValue")
	recs := map[*ssa.Function]bool{}
	for _, n := range []string{"bundleLocalFile", "bundleModule", "bundleRemoteFile"} {
		if f := p.Func("syntax", n); f != nil {
			recs[f] = true
		}
	}
	if isRun == nil || fileValue == nil || bytesValue == nil || len(recs) < 3 {
		r.Undecided("anchor", "isRunningBundle / fileValue / bytesValue / recorders not found in package syntax", 0)
		return
	}
	for _, name := range []string{"importLocalFile", "importModuleFile", "importURL"} {
		fn := p.Func("syntax", name)
		if fn == nil {
			r.Undecided("anchor@"+name, "import function not found", 0)
			continue
		}
		fns := append([]*ssa.Function{fn}, Closures(fn)...)
		n := 0
		for _, f := range fns {
			ForEachInstr(f, func(ins ssa.Instruction) {
				c, ok := ins.(*ssa.Call)
				if !ok {
					return
				}
				callee := c.Call.StaticCallee()
				if callee != fileValue && callee != bytesValue {
					return
				}
				n++
				r.Fn(FnName(f))
				key := fmt.Sprintf("read@%s#%s~%d", name, callee.Name(), n)
				// closures of fn: judge at the creation site in fn
				site := ssa.Instruction(c)
				host := f
				for host != fn && host.Parent() != nil {
					// find the MakeClosure in the parent
					var mk ssa.Instruction
					ForEachInstr(host.Parent(), func(i2 ssa.Instruction) {
						if m, ok := i2.(*ssa.MakeClosure); ok && m.Fn == host {
							mk = i2
						}
					})
					if mk == nil {
						break
					}
					site = mk
					host = host.Parent()
				}
				if onlyWhen(host, isRun, site.Block(), true) {
					r.OK(key, "executes only when running a bundle (reads the archive)", c.Pos())
					return
				}
				var rec *ssa.Call
				ForEachInstr(host, func(i2 ssa.Instruction) {
					if rc, ok := i2.(*ssa.Call); ok && recs[rc.Call.StaticCallee()] && InstrDominates(rc, site) {
						rec = rc
					}
				})
				if rec == nil {
					r.Viol(key, fmt.Sprintf("%s reads an imported source with %s on a path where no recorder (bundleLocalFile / bundleModule / bundleRemoteFile) has run first: `arrai bundle` produces an archive that lacks a file the evaluation needs", name, callee.Name()), c.Pos())
					return
				}
				ok2, why := errPropagated(rec)
				r.Check(ok2, key, "dominated by "+rec.Call.StaticCallee().Name()+" with its error propagated", fmt.Sprintf("the recorder %s runs before the read but its error is dropped (%s): a file that could not be added to the archive goes unnoticed", rec.Call.StaticCallee().Name(), why), c.Pos())
			})
		}
		if n == 0 {
			r.Undecided("reads@"+name, "no source read found in "+name, fn.Pos())
		}
	}
}

var hostEffects = map[string]string{
	"net/http.Get": "network", "net/http.Post": "network", "net/http.Head": "network", "(*net/http.Client).Do": "network", "(*net/http.Client).Get": "network",
	"os/exec.Command": "process", "os/exec.CommandContext": "process",
	"os.Open": "host file", "os.OpenFile": "host file", "os.ReadFile": "host file", "os.Stat": "host file", "os.Lstat": "host file", "os.ReadDir": "host file",
	"io/ioutil.ReadFile": "host file", "io/ioutil.ReadDir": "host file", "os.Getwd": "working directory", "os.Chdir": "working directory",
	"golang.org/x/mod/modfile.Parse": "",
}

func ruleBundleRunIsolation(p *Program, r *Report) {
	r.Begin("R15b", "bundle-run isolation: starting from syntax.Compile (VTA call graph, module functions, interpreter dispatch cut — natives are the program's own effects), every call that touches the host other than through the context's source filesystem (net/http, os/exec, os.Open/ReadFile/Stat, os.Getwd) is, along every call path, unreachable when isRunningBundle(ctx) is true", 2)
	defer r.End()
	compile := p.Func("syntax", "Compile")
	isRun := p.Func("syntax", "isRunningBundle")
	if compile == nil || isRun == nil {
		r.Undecided("anchor", "syntax.Compile / isRunningBundle not found", 0)
		return
	}
	// reach set and reverse call sites
	type site struct {
		caller *ssa.Function
		ins    ssa.Instruction
	}
	callers := map[*ssa.Function][]site{}
	reach := map[*ssa.Function]bool{compile: true}
	work := []*ssa.Function{compile}
	for len(work) > 0 {
		fn := work[len(work)-1]
		work = work[:len(work)-1]
		ForEachInstr(fn, func(ins ssa.Instruction) {
			var targets []*ssa.Function
			switch x := ins.(type) {
			case ssa.CallInstruction:
				if interpreterDispatch(x.Common()) || nativeDispatch(x.Common()) {
					return
				}
				targets = p.Callees(x)
			case *ssa.MakeClosure:
				targets = []*ssa.Function{x.Fn.(*ssa.Function)}
			}
			for _, t := range targets {
				if t == nil || !InRepo(t) || t.Blocks == nil {
					continue
				}
				callers[t] = append(callers[t], site{fn, ins})
				if !reach[t] {
					reach[t] = true
					work = append(work, t)
				}
			}
		})
	}
	// the registration of natives builds closures that are not run by Compile: cut at rel.NewNativeFunction* args is
	// implied by nativeDispatch; closures created in reachable functions are conservatively included.
	guardedMemo := map[*ssa.Function]int{} // 1 = every path to fn is bundle-guarded, 2 = some unguarded path
	var unguardedPath func(fn *ssa.Function, depth int) []string
	unguardedPath = func(fn *ssa.Function, depth int) []string {
		if fn == compile {
			return []string{FnName(fn)}
		}
		if depth > 12 {
			return nil
		}
		if guardedMemo[fn] == 1 {
			return nil
		}
		guardedMemo[fn] = 1 // assume guarded while exploring (cycles)
		for _, s := range callers[fn] {
			if !reach[s.caller] {
				continue
			}
			if onlyWhen(s.caller, isRun, s.ins.Block(), false) {
				continue
			}
			if pth := unguardedPath(s.caller, depth+1); pth != nil {
				guardedMemo[fn] = 2
				return append(pth, FnName(fn))
			}
		}
		return nil
	}
	n := 0
	var fns []*ssa.Function
	for f := range reach {
		fns = append(fns, f)
	}
	sort.Slice(fns, func(i, j int) bool { return FnName(fns[i]) < FnName(fns[j]) })
	for _, fn := range fns {
		ord := map[string]int{}
		ForEachInstr(fn, func(ins ssa.Instruction) {
			c, ok := ins.(ssa.CallInstruction)
			if !ok {
				return
			}
			callee := c.Common().StaticCallee()
			if callee == nil {
				return
			}
			kind, ok := hostEffects[callee.String()]
			if !ok || kind == "" {
				return
			}
			n++
			r.Fn(FnName(fn))
			key := fmt.Sprintf("host@%s#%s", FnName(fn), callee.String())
			ord[key]++
			if ord[key] > 1 {
				key = fmt.Sprintf("%s~%d", key, ord[key])
			}
			if onlyWhen(fn, isRun, ins.Block(), false) {
				r.OK(key, "unreachable when running a bundle (guarded in this function)", ins.Pos())
				return
			}
			for k := range guardedMemo {
				delete(guardedMemo, k)
			}
			if pth := unguardedPath(fn, 0); pth != nil {
				r.ViolPath(key, fmt.Sprintf("%s performs a %s access (%s) that is reachable from Compile while running a bundle: evaluating the .arraiz touches the host outside the archive", FnName(fn), kind, callee.String()), ins.Pos(), pth)
			} else {
				r.OK(key, "every call path from Compile to this function is guarded by !isRunningBundle", ins.Pos())
			}
		})
	}
	if n == 0 {
		r.Undecided("sites", "no host access found under Compile (http.Get in importURL confirmed by hand)", 0)
	}
}

func ruleArchiveLocationSiblings(p *Program, r *Report) {
	r.Begin("R15c", "sibling agreement of archive locations: every recorder that writes into the archive (ZipCreate with the bundle key) derives the location, on its main-module branch, from the bundle configuration's mainRoot/absRootPath (the same mapping bundleLocalFile uses for files and the runtime re-derives), and on its import-module branch from createModulePath — a recorder that computes the location from anything else puts its entry where the runtime will not look", 3)
	defer r.End()
	zc := p.Func("pkg/ctxfs", "ZipCreate")
	cmp := p.Func("syntax", "createModulePath")
	if zc == nil || cmp == nil {
		r.Undecided("anchor", "ctxfs.ZipCreate / syntax.createModulePath not found", 0)
		return
	}
	dependsOnCfg := func(v ssa.Value) (mainRoot, absRoot, modPath, constOnly bool) {
		constOnly = true
		DependsOn(v, func(x ssa.Value) bool {
			switch y := x.(type) {
			case *ssa.Field:
				if st := structOf(y.X.Type()); st != nil && strings.HasSuffix(TypeName(y.X.Type()), "bundleConfig") {
					switch st.Field(y.Field).Name() {
					case "mainRoot":
						mainRoot = true
					case "absRootPath":
						absRoot = true
					}
				}
			case *ssa.UnOp:
				if fa, ok := y.X.(*ssa.FieldAddr); ok {
					if st := structOf(fa.X.Type()); st != nil && strings.HasSuffix(TypeName(Deref(fa.X.Type())), "bundleConfig") {
						switch st.Field(fa.Field).Name() {
						case "mainRoot":
							mainRoot = true
						case "absRootPath":
							absRoot = true
						}
					}
				}
			case *ssa.Call:
				if y.Call.StaticCallee() == cmp {
					modPath = true
				}
				constOnly = false
			case *ssa.FieldAddr:
				if st := structOf(y.X.Type()); st != nil && strings.HasSuffix(TypeName(Deref(y.X.Type())), "goModule") {
					modPath = true // module files live under the module's own name
				}
			case *ssa.Parameter:
				constOnly = false
			}
			return false
		})
		return
	}
	n := 0
	for _, fn := range p.RepoFns {
		if PkgPathOf(fn) != Mod+"/syntax" {
			continue
		}
		for _, c := range callsTo(fn, zc) {
			if len(c.Call.Args) < 4 {
				continue
			}
			n++
			r.Fn(FnName(fn))
			loc := c.Call.Args[2]
			mr, ar, mp, _ := dependsOnCfg(loc)
			key := "location@" + FnName(fn)
			// a location that involves a file/dir of the source tree (depends on a parameter that is a path) must use the mapping
			usesParamPath := DependsOn(loc, func(x ssa.Value) bool {
				prm, ok := x.(*ssa.Parameter)
				return ok && (strings.Contains(strings.ToLower(prm.Name()), "path") || strings.Contains(strings.ToLower(prm.Name()), "url"))
			})
			definesConfig := false
			ForEachInstr(fn, func(i2 ssa.Instruction) {
				if cc, ok := i2.(*ssa.Call); ok {
					if callee := cc.Call.StaticCallee(); callee != nil && callee.Name() == "withBundleConfig" {
						definesConfig = true
					}
				}
			})
			if definesConfig {
				r.OK(key, "defines the bundle configuration (the mapping itself)", c.Pos())
				continue
			}
			if !usesParamPath {
				r.OK(key, "fixed location (not derived from a source path)", c.Pos())
				continue
			}
			isURL := DependsOn(loc, func(x ssa.Value) bool {
				prm, ok := x.(*ssa.Parameter)
				return ok && strings.Contains(strings.ToLower(prm.Name()), "url")
			})
			if isURL {
				r.OK(key, "remote content stored under its URL", c.Pos())
				continue
			}
			_ = mr
			okAll := ar || mp
			// structure of the location: path.Join(...) nodes, phis (alternatives) and leaves.  An alternative is fine when
			// some component of it carries the mapping; every alternative must be fine.
			joinArgs := func(x *ssa.Call) []ssa.Value {
				var out []ssa.Value
				for _, a := range x.Call.Args {
					if sl, ok := a.(*ssa.Slice); ok {
						if al, ok := sl.X.(*ssa.Alloc); ok {
							for _, ref := range *al.Referrers() {
								if ia, ok := ref.(*ssa.IndexAddr); ok {
									for _, r2 := range *ia.Referrers() {
										if st, ok := r2.(*ssa.Store); ok {
											out = append(out, st.Val)
										}
									}
								}
							}
							continue
						}
					}
					out = append(out, a)
				}
				return out
			}
			// a location computed by a helper of the package: its non-error returns are alternatives
			var viaHelper func(g *ssa.Function, idx, depth int) int
			var mapped func(v ssa.Value, depth int) int // 1 = carries the mapping, 0 = neutral (constant), -1 = derived from a path without it
			mapped = func(v ssa.Value, depth int) int {
				if depth > 8 {
					return 0
				}
				switch x := v.(type) {
				case *ssa.Const:
					return 0
				case *ssa.Phi:
					res := 0
					for _, e := range x.Edges {
						switch mapped(e, depth+1) {
						case -1:
							return -1
						case 1:
							res = 1
						}
					}
					return res
				case *ssa.Extract:
					if c, ok := x.Tuple.(*ssa.Call); ok {
						if g := c.Call.StaticCallee(); g != nil && g != cmp && g.Pkg == fn.Pkg && g.Blocks != nil {
							return viaHelper(g, x.Index, depth)
						}
					}
				case *ssa.Call:
					if g := x.Call.StaticCallee(); g != nil && g != cmp && g.Pkg == fn.Pkg && g.Blocks != nil && g.Signature.Results().Len() == 1 && !isPathJoin(x) {
						return viaHelper(g, 0, depth)
					}
					if isPathJoin(x) {
						res := 0
						bad := false
						for _, a := range joinArgs(x) {
							switch mapped(a, depth+1) {
							case 1:
								res = 1
							case -1:
								bad = true
							}
						}
						if res == 1 {
							return 1
						}
						if bad {
							return -1
						}
						return 0
					}
				}
				m1, a1, p1, _ := dependsOnCfg(v)
				if m1 || a1 || p1 {
					return 1
				}
				derived := DependsOn(v, func(x ssa.Value) bool {
					switch x.(type) {
					case *ssa.Call, *ssa.Parameter:
						return true
					}
					return false
				})
				if derived {
					return -1
				}
				return 0
			}
			viaHelper = func(g *ssa.Function, idx, depth int) int {
				r.Fn(FnName(g))
				res := 0
				bad := false
				ForEachInstr(g, func(ins ssa.Instruction) {
					ret, ok := ins.(*ssa.Return)
					if !ok || idx >= len(ret.Results) {
						return
					}
					last := len(ret.Results) - 1
					if last != idx && types.Identical(ret.Results[last].Type(), types.Universe.Lookup("error").Type()) && !IsNilConst(RetVal(ret, last)) {
						return
					}
					switch mapped(RetVal(ret, idx), depth+1) {
					case -1:
						bad = true
					case 1:
						res = 1
					}
				})
				if bad {
					return -1
				}
				return res
			}
			okAll = mapped(loc, 0) == 1
			r.Check(okAll, key, fmt.Sprintf("derived from the bundle configuration (mainRoot=%v absRootPath=%v) / createModulePath=%v", mr, ar, mp),
				fmt.Sprintf("%s writes an archive entry whose location depends on a source path but is not derived through bundleConfig.mainRoot + absRootPath (files of the main module) or createModulePath (imported modules): the runtime, which re-derives the location from those, will not find it", FnName(fn)), c.Pos())
		}
	}
	if n < 3 {
		r.Undecided("sites", fmt.Sprintf("only %d ZipCreate sites found in package syntax", n), 0)
	}
}

// R15d: the bundle configuration's module root is the directory the main module was written under.  The function
// that defines the configuration (stores bundleConfig.mainRoot) also writes the main script and the module sentinel
// under path.Join(ModuleDir, <module>, …); every later recorder and the runtime re-derive locations from
// config.mainRoot.  The <module> component of each such entry and the value stored in mainRoot must be the same
// value (same SSA value, or loads of the same element of an unmodified slice) — a normalised copy (trimmed, cleaned,
// lower-cased) agrees on ordinary inputs and diverges on the rest.
func ruleConfigRootAgreesWithLayout(p *Program, r *Report) {
	r.Begin("R15d", "config root = layout root: in the function that defines the bundle configuration, the module component of every archive entry written under ModuleDir is the same value as the one stored in bundleConfig.mainRoot (which every later recorder and the runtime use to re-derive locations)", 2)
	defer r.End()
	zc := p.Func("pkg/ctxfs", "ZipCreate")
	if zc == nil {
		r.Undecided("anchor", "ctxfs.ZipCreate not found", 0)
		return
	}
	sameElem := func(fn *ssa.Function, a, b ssa.Value) bool {
		if a == b || sameValue(a, b, 0) {
			return true
		}
		la, ok1 := a.(*ssa.UnOp)
		lb, ok2 := b.(*ssa.UnOp)
		if !ok1 || !ok2 {
			return false
		}
		ia, ok1 := la.X.(*ssa.IndexAddr)
		ib, ok2 := lb.X.(*ssa.IndexAddr)
		if !ok1 || !ok2 || ia.X != ib.X || !sameValue(ia.Index, ib.Index, 0) {
			return false
		}
		// no store through any element address of that slice in the function
		clean := true
		ForEachInstr(fn, func(ins ssa.Instruction) {
			if st, ok := ins.(*ssa.Store); ok {
				if x, ok := st.Addr.(*ssa.IndexAddr); ok && x.X == ia.X {
					clean = false
				}
			}
		})
		return clean
	}
	moduleDir := "/module"
	if pk := p.PkgSyntax("syntax"); pk != nil {
		if c, ok := pk.Types.Scope().Lookup("ModuleDir").(*types.Const); ok && c.Val().Kind() == constant.String {
			moduleDir = constant.StringVal(c.Val())
		}
	}
	found := 0
	for _, fn := range p.RepoFns {
		if PkgPathOf(fn) != Mod+"/syntax" {
			continue
		}
		// values stored into bundleConfig.mainRoot in this function
		var roots []ssa.Value
		ForEachInstr(fn, func(ins ssa.Instruction) {
			st, ok := ins.(*ssa.Store)
			if !ok {
				return
			}
			fa, ok := st.Addr.(*ssa.FieldAddr)
			if !ok {
				return
			}
			if sto := structOf(fa.X.Type()); sto != nil && strings.HasSuffix(TypeName(Deref(fa.X.Type())), "bundleConfig") && sto.Field(fa.Field).Name() == "mainRoot" {
				roots = append(roots, st.Val)
			}
		})
		if len(roots) == 0 {
			continue
		}
		for _, c := range callsTo(fn, zc) {
			if len(c.Call.Args) < 4 {
				continue
			}
			jc, ok := c.Call.Args[2].(*ssa.Call)
			if !ok || !isPathJoin(jc) {
				continue
			}
			// components of the join
			var comps []ssa.Value
			for _, a := range jc.Call.Args {
				if sl, ok := a.(*ssa.Slice); ok {
					if al, ok := sl.X.(*ssa.Alloc); ok {
						type ent struct {
							i int64
							v ssa.Value
						}
						var es []ent
						for _, ref := range *al.Referrers() {
							if ia, ok := ref.(*ssa.IndexAddr); ok {
								k, isK := ia.Index.(*ssa.Const)
								for _, r2 := range *ia.Referrers() {
									if st, ok := r2.(*ssa.Store); ok && isK {
										es = append(es, ent{k.Int64(), st.Val})
									}
								}
							}
						}
						sort.Slice(es, func(i, j int) bool { return es[i].i < es[j].i })
						for _, e := range es {
							comps = append(comps, e.v)
						}
					}
				}
			}
			if len(comps) < 2 {
				continue
			}
			k, isK := comps[0].(*ssa.Const)
			if !isK || k.Value == nil || k.Value.Kind() != constant.String || constant.StringVal(k.Value) != moduleDir {
				continue
			}
			found++
			r.Fn(FnName(fn))
			key := fmt.Sprintf("module-dir@%s~%d", FnName(fn), found)
			okAll := false
			for _, rt := range roots {
				if sameElem(fn, comps[1], rt) {
					okAll = true
				}
			}
			r.Check(okAll, key, "entry written under the module root stored in the configuration", fmt.Sprintf("%s writes an archive entry under /module/<m>/… where <m> is not the value it stores in bundleConfig.mainRoot: imports recorded later (and the runtime) look under config.mainRoot and do not find the main module's files when the two differ", FnName(fn)), c.Pos())
		}
	}
	if found < 2 {
		r.Undecided("sites", fmt.Sprintf("only %d module-directory entries found in the function defining the configuration (2 confirmed: sentinel and main script)", found), 0)
	}
}

func init() { register("C15", Rule{"R15d", ruleConfigRootAgreesWithLayout}) }

// R15e: archive locations are functions of the import text alone.  The runtime finds a bundled file by re-deriving
// its location from what the script says (the import path, the URL as written, the module name), so a recorder must
// be handed a location computed from those — parameters of the importer combined by string/path functions and the
// bundle configuration — and never from what the environment answered (the URL a redirect ended at, a directory
// listing, file contents).
func ruleRecordedLocationFromImportText(p *Program, r *Report) {
	r.Begin("R15e", "recorded location = function of the import text: the location/URL argument every importer hands to a recorder (bundleLocalFile, bundleModule, bundleRemoteFile, addModuleSentinel) is built only from the importer's parameters, constants, the module resolution results and string/path functions — not from an HTTP response or other environment reads, which the bundle run cannot repeat", 3)
	defer r.End()
	recorders := map[*ssa.Function]bool{}
	for _, n := range []string{"bundleLocalFile", "bundleModule", "bundleRemoteFile", "addModuleSentinel"} {
		if f := p.Func("syntax", n); f != nil {
			recorders[f] = true
		}
	}
	if len(recorders) < 3 {
		r.Undecided("anchor", "recorder functions of package syntax not found", 0)
		return
	}
	envCall := func(c *ssa.Call) (string, bool) {
		cc := &c.Call
		if cc.IsInvoke() {
			return "", false
		}
		g := cc.StaticCallee()
		if g == nil || g.Pkg == nil {
			return "", false
		}
		pp := g.Pkg.Pkg.Path()
		switch {
		case strings.HasPrefix(pp, "net/"), pp == "net", pp == "io", pp == "io/ioutil", pp == "bufio":
			return g.String(), true
		case pp == "os" && g.Name() != "Getenv":
			return g.String(), true
		case strings.HasSuffix(pp, "afero") && (strings.HasPrefix(g.Name(), "Read") || g.Name() == "Walk"):
			return g.String(), true
		}
		return "", false
	}
	n := 0
	for _, fn := range p.RepoFns {
		if PkgPathOf(fn) != Mod+"/syntax" || recorders[fn] {
			continue
		}
		ForEachInstr(fn, func(ins ssa.Instruction) {
			c, ok := ins.(*ssa.Call)
			if !ok || !recorders[c.Call.StaticCallee()] {
				return
			}
			for i, a := range c.Call.Args {
				if b, isB := a.Type().Underlying().(*types.Basic); !isB || b.Kind() != types.String {
					continue
				}
				n++
				r.Fn(FnName(fn))
				key := fmt.Sprintf("location@%s→%s#%d", FnName(fn), c.Call.StaticCallee().Name(), i)
				src := ""
				DependsOn(a, func(x ssa.Value) bool {
					switch y := x.(type) {
					case *ssa.Call:
						if what, is := envCall(y); is && src == "" {
							src = what
						}
					case *ssa.UnOp:
						// a load through a pointer obtained from the environment (resp.Request.URL)
						if fa, ok := y.X.(*ssa.FieldAddr); ok {
							tn := TypeName(Deref(fa.X.Type()))
							if strings.HasPrefix(tn, "net/") && src == "" {
								src = "field of " + tn
							}
						}
					}
					return false
				})
				r.Check(src == "", key, "computed from the import text and module resolution only", fmt.Sprintf("%s records an archive entry under a location that depends on %s: the bundle run re-derives the location from the import as written in the script and cannot repeat that answer, so it will not find the file", FnName(fn), src), c.Pos())
			}
		})
	}
	if n < 3 {
		r.Undecided("sites", fmt.Sprintf("only %d recorder calls with a location argument found", n), 0)
	}
}

func init() { register("C15", Rule{"R15e", ruleRecordedLocationFromImportText}) }

// R15f: importing a module always switches the bundling context to that module.  Files of an imported module live in
// the module cache; the recorders map their paths through createModulePath only while the context says which module
// is being imported (isImportModule).  bundleModule must therefore hand back, on every path on which it recorded
// the imported file, a context that carries the current-module value — also when the module happens to be the
// script's own.
func ruleModuleContextAlwaysSet(p *Program, r *Report) {
	r.Begin("R15f", "module context on every recording path: every successful return of bundleModule that follows its archive write returns a context derived, on all incoming edges, from context.WithValue(…, currentModule, …) — a path that keeps the old context leaves the imported file's own imports to be mapped as if they belonged to the main module", 1)
	defer r.End()
	bm := p.Func("syntax", "bundleModule")
	zc := p.Func("pkg/ctxfs", "ZipCreate")
	if bm == nil || zc == nil {
		r.Undecided("anchor", "syntax.bundleModule / ctxfs.ZipCreate not found", 0)
		return
	}
	r.Fn(FnName(bm))
	writes := callsTo(bm, zc)
	if len(writes) == 0 {
		r.Undecided("write", "bundleModule no longer writes to the archive", bm.Pos())
		return
	}
	isModuleCtx := func(v ssa.Value) bool {
		c, ok := v.(*ssa.Call)
		if !ok {
			return false
		}
		g := c.Call.StaticCallee()
		if g == nil || g.String() != "context.WithValue" || len(c.Call.Args) < 3 {
			return false
		}
		// the key: the currentModule constant of type bundleKey
		return DependsOn(c.Call.Args[1], func(x ssa.Value) bool {
			k, ok := x.(*ssa.Const)
			return ok && strings.HasSuffix(k.Type().String(), "bundleKey")
		})
	}
	var all func(v ssa.Value, depth int) bool
	all = func(v ssa.Value, depth int) bool {
		if depth > 6 {
			return false
		}
		if ph, ok := v.(*ssa.Phi); ok {
			for _, e := range ph.Edges {
				if !all(e, depth+1) {
					return false
				}
			}
			return true
		}
		return isModuleCtx(v)
	}
	n := 0
	ForEachInstr(bm, func(ins ssa.Instruction) {
		ret, ok := ins.(*ssa.Return)
		if !ok || len(ret.Results) < 2 || ret.Block() == bm.Recover {
			return
		}
		after := false
		for _, w := range writes {
			if w.Block() == ret.Block() || Reaches(w.Block(), ret.Block(), false) {
				after = true
			}
		}
		if !after {
			return
		}
		n++
		r.Check(all(RetVal(ret, 0), 0), fmt.Sprintf("module-context~%d", n), "returns the context that names the imported module", "bundleModule returns, after recording the imported file, a context that does not (on every path) carry the current-module value: local imports of that file are then archived as files of the main module, at locations the bundle run does not look up", ret.Pos())
	})
	if n == 0 {
		r.Undecided("returns", "no return of bundleModule follows its archive write", bm.Pos())
	}
}

func init() { register("C15", Rule{"R15f", ruleModuleContextAlwaysSet}) }

// R15g: what is archived is what was read.  A recorder stores the bytes of a source file so that the bundle run reads
// the same content the source run read.  The data argument of every archive write in the recorders must be bytes
// that came straight from the source file system (afero.ReadFile's result) or a []byte parameter handed in by the
// importer that read them — never bytes constructed in the recorder (a summary, a re-serialisation).
func ruleArchivedBytesAreSourceBytes(p *Program, r *Report) {
	r.Begin("R15g", "archived bytes = source bytes: the content argument of every ctxfs.ZipCreate call in package syntax (except the bundle's own configuration file) is, unchanged, the result of reading the source file system or a []byte parameter of the recorder — not bytes built in place, so that a file imported as data reads the same from the bundle as from the source tree", 4)
	defer r.End()
	zc := p.Func("pkg/ctxfs", "ZipCreate")
	if zc == nil {
		r.Undecided("anchor", "ctxfs.ZipCreate not found", 0)
		return
	}
	n := 0
	for _, fn := range p.RepoFns {
		if PkgPathOf(fn) != Mod+"/syntax" {
			continue
		}
		for i, c := range callsTo(fn, zc) {
			if len(c.Call.Args) < 4 {
				continue
			}
			data := c.Call.Args[3]
			n++
			r.Fn(FnName(fn))
			key := fmt.Sprintf("content@%s~%d", FnName(fn), i+1)
			// the configuration file is generated by design: its content derives from bundleConfig.String()
			if DependsOn(data, func(x ssa.Value) bool {
				cc, ok := x.(*ssa.Call)
				return ok && cc.Call.StaticCallee() != nil && strings.Contains(FnName(cc.Call.StaticCallee()), "bundleConfig") && cc.Call.StaticCallee().Name() == "String"
			}) {
				r.OK(key, "the bundle's generated configuration file", c.Pos())
				continue
			}
			ok := false
			switch x := data.(type) {
			case *ssa.Parameter:
				ok = true
			case *ssa.Extract:
				if rc, isCall := x.Tuple.(*ssa.Call); isCall && x.Index == 0 {
					if g := rc.Call.StaticCallee(); g != nil && (strings.HasSuffix(g.String(), "afero.ReadFile") || strings.HasSuffix(g.String(), "io.ReadAll") || strings.HasSuffix(g.String(), "ioutil.ReadAll")) {
						ok = true
					}
				}
			case *ssa.UnOp:
				if al, isAl := x.X.(*ssa.Alloc); isAl {
					if _, isP := paramCell(al); isP {
						ok = true
					}
				}
			}
			r.Check(ok, key, "bytes read from the source, unchanged", fmt.Sprintf("%s archives content that is not the bytes read from the source file system (nor a []byte handed in by the importer): a script that imports that file as data gets different bytes from the bundle than from the source tree", FnName(fn)), c.Pos())
		}
	}
	if n < 4 {
		r.Undecided("sites", fmt.Sprintf("only %d archive writes found in package syntax", n), 0)
	}
}

func init() { register("C15", Rule{"R15g", ruleArchivedBytesAreSourceBytes}) }

// R15h: the archive location of a remote import is a one-to-one function of its URL, and the recorder and the
// bundle run compute it the same way.  Both strip the scheme and join the rest under the module directory.  Any
// other step (parsing the URL and dropping the port, the query or the case of the host) maps two URLs to one
// entry: the archive keeps the first file written and a bundle run reads it for both imports.
func ruleRemoteLocationInjective(p *Program, r *Report) {
	r.Begin("R15h", "remote archive locations: in bundleRemoteFile (recorder) and importURL (bundle run) the archive location derives from the URL parameter only through scheme removal (strings.TrimPrefix), path.Join / Clean and string concatenation — followed into package-local helpers — and both sites apply the same steps; any other transformation (net/url parsing, Replace, Split, ToLower …) can map two URLs to one entry", 2)
	defer r.End()
	type site struct {
		fn    *ssa.Function
		steps []string
	}
	var sites []site
	for _, name := range []string{"bundleRemoteFile", "importURL"} {
		fn := p.Func("syntax", name)
		if fn == nil {
			r.Undecided("anchor@"+name, "syntax."+name+" not found", 0)
			continue
		}
		var url *ssa.Parameter
		for _, q := range fn.Params {
			if b, ok := q.Type().Underlying().(*types.Basic); ok && b.Kind() == types.String {
				url = q
				break
			}
		}
		if url == nil {
			r.Undecided("param@"+name, "no string parameter", fn.Pos())
			continue
		}
		r.Fn(FnName(fn))
		st := site{fn: fn}
		bad := ""
		var badPos token.Pos
		seen := map[*ssa.Function]bool{}
		var scan func(f *ssa.Function, prm ssa.Value, depth int)
		scan = func(f *ssa.Function, prm ssa.Value, depth int) {
			if seen[f] || depth > 3 {
				return
			}
			seen[f] = true
			ForEachInstr(f, func(ins ssa.Instruction) {
				c, ok := ins.(*ssa.Call)
				if !ok {
					return
				}
				argIdx := -1
				for i, a := range c.Call.Args {
					if DependsOn(a, func(y ssa.Value) bool { return y == prm }) {
						argIdx = i
						break
					}
				}
				if argIdx < 0 {
					return
				}
				g := c.Call.StaticCallee()
				nm := CalleeName(&c.Call)
				// only steps whose result is text can end up in the location
				if b, isB := c.Type().Underlying().(*types.Basic); !isB || b.Info()&types.IsString == 0 {
					// a non-string result derived from the URL (a parsed URL, a split) matters only if text comes back out of it
					if g != nil && !InRepo(g) && g.Pkg != nil && (g.Pkg.Pkg.Path() == "net/url" || g.Pkg.Pkg.Path() == "strings" && (g.Name() == "Split" || g.Name() == "Fields" || strings.HasPrefix(g.Name(), "Cut"))) {
						if bad == "" {
							bad, badPos = nm, c.Pos()
						}
					}
					if g != nil && InRepo(g) && g.Pkg == fn.Pkg && g.Blocks != nil && argIdx < len(g.Params) && isRecorderOrReader(g) == false {
						scan(g, g.Params[argIdx], depth+1)
					}
					return
				}
				switch {
				case nm == "strings.TrimPrefix":
					k := ""
					if len(c.Call.Args) > 1 {
						if kc, ok := c.Call.Args[1].(*ssa.Const); ok && kc.Value != nil && kc.Value.Kind() == constant.String {
							k = constant.StringVal(kc.Value)
						}
					}
					st.steps = append(st.steps, "TrimPrefix("+k+")")
				case nm == "path.Join" || nm == "path/filepath.Join" || nm == "path.Clean" || nm == "path/filepath.Clean" || nm == "path/filepath.FromSlash" || nm == "path/filepath.ToSlash":
					st.steps = append(st.steps, nm)
				case g != nil && InRepo(g) && g.Pkg == fn.Pkg && g.Blocks != nil && argIdx < len(g.Params):
					scan(g, g.Params[argIdx], depth+1)
				default:
					if bad == "" {
						bad, badPos = nm, c.Pos()
					}
				}
			})
		}
		scan(fn, url, 0)
		sort.Strings(st.steps)
		sites = append(sites, st)
		r.Check(bad == "", "one-to-one@"+name, "scheme removal and joining only: "+strings.Join(st.steps, ", "), fmt.Sprintf("%s derives the archive location of a remote file through %s: two different URLs (other port, query, host spelling) can then share one archive entry, which keeps the first file written — the bundle run reads that file for both imports", FnName(fn), bad), func() token.Pos {
			if bad != "" {
				return badPos
			}
			return fn.Pos()
		}())
	}
	if len(sites) == 2 {
		a, b := strings.Join(sites[0].steps, ", "), strings.Join(sites[1].steps, ", ")
		// the reader also appends the default extension etc. through fileValue, which is not a step on the location here
		r.Check(a == b, "siblings", "recorder and bundle run apply the same steps: "+a, fmt.Sprintf("the recorder derives the location by {%s}, the bundle run by {%s}: a remote file is archived under one name and looked up under another", a, b), sites[0].fn.Pos())
	}
}

// isRecorderOrReader: callees that consume a location rather than compute one.
func isRecorderOrReader(g *ssa.Function) bool {
	switch g.Name() {
	case "fileValue", "bytesValue", "bundleRemoteFile", "bundleLocalFile", "bundleModule":
		return true
	}
	return false
}

func init() { register("C15", Rule{"R15h", ruleRemoteLocationInjective}) }
