package main

// TS-SCCP: type-specialised sparse conditional constant propagation over go/ssa (DESIGN.md §2.2).
// Lattice per SSA value: Bot < {Cst(c), Dyn(T)} < Top.  Dyn(T) = interface value whose dynamic type is
// known to be T (value unknown).  Functions are analysed under a context = abstract values of their
// parameters; static calls and invokes on Dyn receivers are analysed in the callee's context (memoised).

import (
	"fmt"
	"go/constant"
	"go/token"
	"go/types"
	"sort"
	"strings"

	"golang.org/x/tools/go/ssa"
)

type AKind int

const (
	ABot AKind = iota
	ACst
	ADyn
	ATop
)

// AVal is an abstract value.
type AVal struct {
	K     AKind
	C     constant.Value       // ACst: the constant (nil => the nil constant)
	T     types.Type           // ADyn: dynamic type
	Plain bool                 // refinement: *GenericTuple without an "@neg" attribute
	Neg   types.Type           // refinement: *GenericTuple that is exactly (@neg: x) with x of dynamic type Neg
	F     map[string]constant.Value // ATop with field assumptions (struct or pointer-to-struct parameters)
}

var (
	VTop = AVal{K: ATop}
	VBot = AVal{K: ABot}
)

func VBool(b bool) AVal            { return AVal{K: ACst, C: constant.MakeBool(b)} }
func VConst(c constant.Value) AVal { return AVal{K: ACst, C: c} }
func VNil() AVal                   { return AVal{K: ACst, C: nil} }
func VDyn(t types.Type) AVal       { return AVal{K: ADyn, T: t} }

func (a AVal) IsBool() (bool, bool) {
	if a.K == ACst && a.C != nil && a.C.Kind() == constant.Bool {
		return constant.BoolVal(a.C), true
	}
	return false, false
}

func (a AVal) String() string {
	switch a.K {
	case ABot:
		return "⊥"
	case ATop:
		if len(a.F) > 0 {
			var ks []string
			for k, v := range a.F {
				ks = append(ks, k+"="+v.ExactString())
			}
			sort.Strings(ks)
			return "⊤{" + strings.Join(ks, ",") + "}"
		}
		return "⊤"
	case ACst:
		if a.C == nil {
			return "nil"
		}
		return a.C.ExactString()
	case ADyn:
		s := "dyn(" + TypeName(a.T) + ")"
		if a.Plain {
			s += "/plain"
		}
		if a.Neg != nil {
			s += "/neg(" + TypeName(a.Neg) + ")"
		}
		return s
	}
	return "?"
}

func avalEq(a, b AVal) bool {
	if a.K != b.K {
		return false
	}
	switch a.K {
	case ACst:
		if a.C == nil || b.C == nil {
			return a.C == nil && b.C == nil
		}
		return a.C.Kind() == b.C.Kind() && constant.Compare(a.C, token.EQL, b.C)
	case ADyn:
		return types.Identical(a.T, b.T) && a.Plain == b.Plain && sameNeg(a.Neg, b.Neg)
	case ATop:
		return a.String() == b.String()
	}
	return true
}

func sameNeg(a, b types.Type) bool {
	if a == nil || b == nil {
		return a == nil && b == nil
	}
	return types.Identical(a, b)
}

func avalJoin(a, b AVal) AVal {
	if a.K == ABot {
		return b
	}
	if b.K == ABot {
		return a
	}
	if avalEq(a, b) {
		return a
	}
	if a.K == ADyn && b.K == ADyn && types.Identical(a.T, b.T) {
		return AVal{K: ADyn, T: a.T}
	}
	return VTop
}

// SResult is the outcome of analysing one function in one context.
type SResult struct {
	Fn       *ssa.Function
	Rets     []AVal
	Panics   bool // no executable path reaches a Return: the function definitely panics (or never returns)
	PanicAt  []ssa.Instruction // instructions that definitely panic when reached (executable)
	Exec     map[*ssa.BasicBlock]bool
	Reached  map[*ssa.Function]bool // callees analysed (transitively) on executable paths
	Vals     map[ssa.Value]AVal
	Unknown  bool // analysis gave up (recursion/depth/no body); everything is Top
}

// SCCP is the engine.
type SCCP struct {
	P           *Program
	GlobalConst map[*ssa.Global]AVal
	memo        map[string]*SResult
	stack       map[string]bool
	MaxDepth    int
	// CallHook lets a client refine a call: return (results, true) to override.
	CallHook func(callee *ssa.Function, args []AVal) ([]AVal, bool)
	Contexts int
}

func NewSCCP(p *Program) *SCCP {
	return &SCCP{P: p, GlobalConst: map[*ssa.Global]AVal{}, memo: map[string]*SResult{}, stack: map[string]bool{}, MaxDepth: 6}
}

// InitConsts analyses the package initialiser of the named module packages and records every global that
// is stored exactly once in the whole program, by that initialiser, with a value that folds to a constant.
func (s *SCCP) InitConsts(pkgs ...string) {
	stores := map[*ssa.Global]int{}
	for _, fn := range s.P.RepoFns {
		ForEachInstr(fn, func(ins ssa.Instruction) {
			if st, ok := ins.(*ssa.Store); ok {
				if g, ok := st.Addr.(*ssa.Global); ok {
					stores[g]++
				}
			}
		})
	}
	for _, name := range pkgs {
		sp := s.P.Pkg(name)
		if sp == nil {
			continue
		}
		init := sp.Func("init")
		if init == nil {
			continue
		}
		res := s.Analyze(init, nil)
		if res == nil || res.Unknown {
			continue
		}
		ForEachInstr(init, func(ins ssa.Instruction) {
			st, ok := ins.(*ssa.Store)
			if !ok || !res.Exec[ins.Block()] {
				return
			}
			g, ok := st.Addr.(*ssa.Global)
			if !ok || stores[g] != 1 {
				return
			}
			v := res.val(st.Val)
			if v.K == ACst && v.C != nil {
				s.GlobalConst[g] = v
			}
		})
	}
	// the memo was computed before the constants were known: drop it
	s.memo = map[string]*SResult{}
}

func (r *SResult) val(v ssa.Value) AVal {
	switch x := v.(type) {
	case *ssa.Const:
		if x.Value == nil {
			return VNil()
		}
		return VConst(x.Value)
	case *ssa.Global, *ssa.Function, *ssa.Builtin:
		return VTop
	}
	if a, ok := r.Vals[v]; ok {
		return a
	}
	return VBot
}

func ctxKey(fn *ssa.Function, args []AVal) string {
	var sb strings.Builder
	fmt.Fprintf(&sb, "%p", fn)
	for _, a := range args {
		sb.WriteString("|" + a.String())
	}
	return sb.String()
}

func isSingleton(t types.Type) bool {
	st, ok := t.Underlying().(*types.Struct)
	return ok && st.NumFields() == 0
}

func hasRecover(fn *ssa.Function) bool {
	if fn.Recover != nil {
		return true
	}
	return false
}

// Analyze runs SCCP on fn under the context args (one per fn.Params; missing => Top).
func (s *SCCP) Analyze(fn *ssa.Function, args []AVal) *SResult {
	return s.analyze(fn, args, 0)
}

func (s *SCCP) analyze(fn *ssa.Function, args []AVal, depth int) *SResult {
	if fn == nil || fn.Blocks == nil || depth > s.MaxDepth || hasRecover(fn) {
		return nil
	}
	k := ctxKey(fn, args)
	if r, ok := s.memo[k]; ok {
		return r
	}
	if s.stack[k] {
		return nil
	}
	s.stack[k] = true
	defer delete(s.stack, k)
	s.Contexts++

	res := &SResult{Fn: fn, Exec: map[*ssa.BasicBlock]bool{}, Reached: map[*ssa.Function]bool{}, Vals: map[ssa.Value]AVal{}}
	for i, p := range fn.Params {
		if i < len(args) {
			res.Vals[p] = args[i]
		} else {
			res.Vals[p] = VTop
		}
	}
	for _, fv := range fn.FreeVars {
		res.Vals[fv] = VTop
	}
	fr := &frame{s: s, res: res, depth: depth,
		commaOk:  map[ssa.Value]AVal{},
		multi:    map[*ssa.Call][]AVal{},
		cell:     map[*ssa.Alloc]AVal{},
		panicIns: map[ssa.Instruction]bool{},
		execEdge: map[[2]int]bool{},
		escaped:  map[*ssa.Alloc]bool{},
	}
	fr.findEscapes(fn)
	res.Exec[fn.Blocks[0]] = true
	for iter := 0; iter < 500; iter++ {
		changed := false
		for _, b := range fn.Blocks {
			if !res.Exec[b] {
				continue
			}
			stop := false
			for _, ins := range b.Instrs {
				if fr.eval(ins) {
					changed = true
				}
				if fr.panicIns[ins] {
					stop = true
					break
				}
			}
			if stop {
				continue
			}
			mark := func(t *ssa.BasicBlock) {
				e := [2]int{b.Index, t.Index}
				if !fr.execEdge[e] {
					fr.execEdge[e] = true
					changed = true
				}
				if !res.Exec[t] {
					res.Exec[t] = true
					changed = true
				}
			}
			switch t := b.Instrs[len(b.Instrs)-1].(type) {
			case *ssa.If:
				c := res.val(t.Cond)
				if bv, ok := c.IsBool(); ok {
					if bv {
						mark(b.Succs[0])
					} else {
						mark(b.Succs[1])
					}
				} else if c.K != ABot {
					mark(b.Succs[0])
					mark(b.Succs[1])
				}
			case *ssa.Jump:
				mark(b.Succs[0])
			}
		}
		if !changed {
			break
		}
	}
	hasReturn := false
	for _, b := range fn.Blocks {
		if !res.Exec[b] {
			continue
		}
		for _, ins := range b.Instrs {
			if fr.panicIns[ins] {
				res.PanicAt = append(res.PanicAt, ins)
				break
			}
			if r, ok := ins.(*ssa.Return); ok {
				// a Return whose operands are still Bot is not reachable with values
				bot := false
				for _, rv := range r.Results {
					if res.val(rv).K == ABot {
						bot = true
					}
				}
				if bot {
					continue
				}
				hasReturn = true
				if res.Rets == nil {
					res.Rets = make([]AVal, len(r.Results))
				}
				for i, rv := range r.Results {
					res.Rets[i] = avalJoin(res.Rets[i], res.val(rv))
				}
			}
		}
	}
	res.Panics = !hasReturn
	s.memo[k] = res
	return res
}

type frame struct {
	s        *SCCP
	res      *SResult
	depth    int
	commaOk  map[ssa.Value]AVal
	multi    map[*ssa.Call][]AVal
	cell     map[*ssa.Alloc]AVal
	panicIns map[ssa.Instruction]bool
	execEdge map[[2]int]bool
	escaped  map[*ssa.Alloc]bool
}

// findEscapes marks Allocs whose address is used other than by direct load/store (then their content is Top).
func (fr *frame) findEscapes(fn *ssa.Function) {
	ForEachInstr(fn, func(ins ssa.Instruction) {
		a, ok := ins.(*ssa.Alloc)
		if !ok {
			return
		}
		for _, ref := range *a.Referrers() {
			switch r := ref.(type) {
			case *ssa.Store:
				if r.Addr == a && r.Val != a {
					continue
				}
			case *ssa.UnOp:
				if r.Op == token.MUL {
					continue
				}
			case *ssa.DebugRef:
				continue
			case *ssa.FieldAddr:
				// reading a field of the local struct does not let it escape
				onlyLoads := true
				for _, r2 := range *r.Referrers() {
					if u, ok := r2.(*ssa.UnOp); !ok || u.Op != token.MUL {
						onlyLoads = false
					}
				}
				if onlyLoads {
					continue
				}
			}
			fr.escaped[a] = true
		}
	})
}

func (fr *frame) setPanic(ins ssa.Instruction, p bool) bool {
	if fr.panicIns[ins] == p {
		return false
	}
	if p {
		fr.panicIns[ins] = true
	} else {
		delete(fr.panicIns, ins)
	}
	return true
}

func (fr *frame) set(v ssa.Value, a AVal) bool {
	if ins, ok := v.(ssa.Instruction); ok && fr.panicIns[ins] {
		delete(fr.panicIns, ins)
		old := fr.res.val(v)
		fr.res.Vals[v] = avalJoin(old, a)
		return true
	}
	old := fr.res.val(v)
	n := avalJoin(old, a)
	if !avalEq(old, n) {
		fr.res.Vals[v] = n
		return true
	}
	return false
}

func (fr *frame) eval(ins ssa.Instruction) bool {
	res := fr.res
	get := res.val
	switch x := ins.(type) {
	case *ssa.Phi:
		a := VBot
		for i, e := range x.Edges {
			pred := x.Block().Preds[i]
			if fr.execEdge[[2]int{pred.Index, x.Block().Index}] {
				a = avalJoin(a, get(e))
			}
		}
		return fr.set(x, a)
	case *ssa.MakeInterface:
		xv := get(x.X)
		if xv.K == ABot {
			return false
		}
		return fr.set(x, AVal{K: ADyn, T: x.X.Type(), Plain: xv.Plain, Neg: xv.Neg})
	case *ssa.ChangeInterface:
		return fr.set(x, get(x.X))
	case *ssa.ChangeType:
		return fr.set(x, get(x.X))
	case *ssa.Convert:
		a := get(x.X)
		if a.K == ABot {
			return false
		}
		if a.K == ACst && a.C != nil {
			if bt, ok := x.Type().Underlying().(*types.Basic); ok {
				if bt.Info()&types.IsInteger != 0 && a.C.Kind() == constant.Int {
					return fr.set(x, a)
				}
				if bt.Info()&types.IsString != 0 && a.C.Kind() == constant.String {
					return fr.set(x, a)
				}
			}
		}
		return fr.set(x, VTop)
	case *ssa.Alloc:
		return fr.set(x, VTop)
	case *ssa.Store:
		if a, ok := x.Addr.(*ssa.Alloc); ok && !fr.escaped[a] {
			v := get(x.Val)
			if v.K == ABot {
				return false
			}
			old := fr.cell[a]
			n := avalJoin(old, v)
			if !avalEq(old, n) {
				fr.cell[a] = n
				return true
			}
		}
		return false
	case *ssa.UnOp:
		switch x.Op {
		case token.MUL:
			switch a := x.X.(type) {
			case *ssa.Alloc:
				if !fr.escaped[a] {
					if c, ok := fr.cell[a]; ok {
						return fr.set(x, c)
					}
					// never stored (zero value): treat as Top
				}
				return fr.set(x, VTop)
			case *ssa.Global:
				if c, ok := fr.s.GlobalConst[a]; ok {
					return fr.set(x, c)
				}
			case *ssa.FieldAddr:
				base := get(a.X)
				if al, ok := a.X.(*ssa.Alloc); ok && !fr.escaped[al] {
					if c, ok := fr.cell[al]; ok {
						base = c
					}
				}
				if base.K == ATop && base.F != nil {
					if st, ok := Deref(a.X.Type()).Underlying().(*types.Struct); ok {
						if c, ok := base.F[st.Field(a.Field).Name()]; ok {
							return fr.set(x, VConst(c))
						}
					}
				}
			}
			return fr.set(x, VTop)
		case token.NOT:
			a := get(x.X)
			if a.K == ABot {
				return false
			}
			if b, ok := a.IsBool(); ok {
				return fr.set(x, VBool(!b))
			}
			return fr.set(x, VTop)
		case token.SUB:
			a := get(x.X)
			if a.K == ABot {
				return false
			}
			if a.K == ACst && a.C != nil && a.C.Kind() == constant.Int {
				return fr.set(x, VConst(constant.UnaryOp(token.SUB, a.C, 0)))
			}
			return fr.set(x, VTop)
		}
		return fr.set(x, VTop)
	case *ssa.Field:
		base := get(x.X)
		if base.K == ABot {
			return false
		}
		if base.K == ATop && base.F != nil {
			if st, ok := x.X.Type().Underlying().(*types.Struct); ok {
				if c, ok := base.F[st.Field(x.Field).Name()]; ok {
					return fr.set(x, VConst(c))
				}
			}
		}
		return fr.set(x, VTop)
	case *ssa.BinOp:
		a, b := get(x.X), get(x.Y)
		if a.K == ABot || b.K == ABot {
			return false
		}
		if x.Op == token.EQL || x.Op == token.NEQ {
			if types.IsInterface(x.X.Type()) || types.IsInterface(x.Y.Type()) {
				switch {
				case a.K == ADyn && b.K == ADyn:
					if !types.Identical(a.T, b.T) {
						return fr.set(x, VBool(x.Op == token.NEQ))
					}
					if isSingleton(a.T) {
						return fr.set(x, VBool(x.Op == token.EQL))
					}
				case a.K == ADyn && b.K == ACst && b.C == nil, b.K == ADyn && a.K == ACst && a.C == nil:
					return fr.set(x, VBool(x.Op == token.NEQ))
				case a.K == ACst && a.C == nil && b.K == ACst && b.C == nil:
					return fr.set(x, VBool(x.Op == token.EQL))
				}
				return fr.set(x, VTop)
			}
		}
		if a.K == ACst && b.K == ACst && a.C != nil && b.C != nil {
			ak, bk := a.C.Kind(), b.C.Kind()
			num := func(k constant.Kind) bool { return k == constant.Int || k == constant.Float }
			switch x.Op {
			case token.EQL, token.NEQ, token.LSS, token.LEQ, token.GTR, token.GEQ:
				if ak == bk || (num(ak) && num(bk)) {
					if ak == constant.Bool && (x.Op != token.EQL && x.Op != token.NEQ) {
						break
					}
					return fr.set(x, VBool(constant.Compare(a.C, x.Op, b.C)))
				}
			case token.ADD, token.SUB, token.MUL, token.AND, token.OR, token.XOR:
				if ak == constant.Int && bk == constant.Int {
					return fr.set(x, VConst(constant.BinaryOp(a.C, x.Op, b.C)))
				}
				if ak == constant.String && bk == constant.String && x.Op == token.ADD {
					return fr.set(x, VConst(constant.BinaryOp(a.C, x.Op, b.C)))
				}
			case token.SHL, token.SHR:
				if ak == constant.Int && bk == constant.Int {
					if sh, ok := constant.Uint64Val(b.C); ok && sh < 64 {
						return fr.set(x, VConst(constant.Shift(a.C, x.Op, uint(sh))))
					}
				}
			}
		}
		return fr.set(x, VTop)
	case *ssa.TypeAssert:
		a := get(x.X)
		if a.K == ABot {
			return false
		}
		if a.K == ADyn {
			ok := false
			if it, isI := x.AssertedType.Underlying().(*types.Interface); isI {
				ok = types.Implements(a.T, it)
			} else {
				ok = types.Identical(a.T, x.AssertedType)
			}
			if x.CommaOk {
				ch := false
				if ok {
					ch = fr.set(x, a)
				} else {
					ch = fr.set(x, VTop)
				}
				old := fr.commaOk[x]
				n := avalJoin(old, VBool(ok))
				if !avalEq(old, n) {
					fr.commaOk[x] = n
					ch = true
				}
				return ch
			}
			if !ok {
				return fr.setPanic(x, true)
			}
			return fr.set(x, a)
		}
		if a.K == ACst && a.C == nil {
			// assertion on a nil interface
			if x.CommaOk {
				ch := fr.set(x, VTop)
				old := fr.commaOk[x]
				n := avalJoin(old, VBool(false))
				if !avalEq(old, n) {
					fr.commaOk[x] = n
					ch = true
				}
				return ch
			}
			return fr.setPanic(x, true)
		}
		if x.CommaOk {
			fr.commaOk[x] = VTop
		}
		return fr.set(x, VTop)
	case *ssa.Extract:
		if ta, ok := x.Tuple.(*ssa.TypeAssert); ok {
			if x.Index == 1 {
				if v, ok := fr.commaOk[ta]; ok {
					return fr.set(x, v)
				}
				return false
			}
			v := get(ta)
			if v.K == ABot {
				return false
			}
			return fr.set(x, v)
		}
		if c, ok := x.Tuple.(*ssa.Call); ok {
			if get(c).K == ABot {
				return false
			}
			if rs, ok := fr.multi[c]; ok && x.Index < len(rs) {
				return fr.set(x, rs[x.Index])
			}
		}
		return fr.set(x, VTop)
	case *ssa.Call:
		return fr.evalCall(x)
	case *ssa.Panic:
		return fr.setPanic(x, true)
	case *ssa.Return, *ssa.If, *ssa.Jump, *ssa.DebugRef, *ssa.Defer, *ssa.RunDefers, *ssa.Go, *ssa.Send, *ssa.MapUpdate:
		return false
	}
	if v, ok := ins.(ssa.Value); ok {
		return fr.set(v, VTop)
	}
	return false
}

func (fr *frame) evalCall(x *ssa.Call) bool {
	res := fr.res
	get := res.val
	c := &x.Call
	setTop := func() bool {
		delete(fr.multi, x)
		return fr.set(x, VTop)
	}
	var callee *ssa.Function
	var args []AVal
	if c.IsInvoke() {
		recv := get(c.Value)
		if recv.K == ABot {
			return false
		}
		if recv.K == ACst && recv.C == nil {
			// method call on a nil interface: definite panic
			return fr.setPanic(x, true)
		}
		if recv.K != ADyn {
			return setTop()
		}
		callee = fr.s.P.Prog.LookupMethod(recv.T, c.Method.Pkg(), c.Method.Name())
		if callee == nil {
			return setTop()
		}
		// the receiver parameter has the concrete type; keep the refinement
		args = append(args, AVal{K: ATop})
		if recv.Plain || recv.Neg != nil {
			args[0] = AVal{K: ADyn, T: recv.T, Plain: recv.Plain, Neg: recv.Neg}
		}
	} else {
		if _, isB := c.Value.(*ssa.Builtin); isB {
			return setTop()
		}
		callee = c.StaticCallee()
		if callee == nil {
			fv := get(c.Value)
			if fv.K == ABot {
				return false
			}
			if fv.K == ACst && fv.C == nil {
				return fr.setPanic(x, true)
			}
			return setTop()
		}
	}
	for _, a := range c.Args {
		v := get(a)
		if v.K == ABot {
			return false
		}
		args = append(args, v)
	}
	if fr.s.CallHook != nil {
		if rs, ok := fr.s.CallHook(callee, args); ok {
			if len(rs) == 1 {
				return fr.set(x, rs[0])
			}
			fr.multi[x] = rs
			return fr.set(x, VTop)
		}
	}
	r := fr.s.analyze(callee, args, fr.depth+1)
	if r == nil {
		return setTop()
	}
	res.Reached[callee] = true
	for f := range r.Reached {
		res.Reached[f] = true
	}
	if r.Panics {
		return fr.setPanic(x, true)
	}
	switch len(r.Rets) {
	case 0:
		return fr.setPanic(x, false)
	case 1:
		return fr.set(x, r.Rets[0])
	default:
		ch := false
		old := fr.multi[x]
		if len(old) != len(r.Rets) {
			ch = true
		} else {
			for i := range old {
				if !avalEq(old[i], r.Rets[i]) {
					ch = true
				}
			}
		}
		fr.multi[x] = r.Rets
		if fr.set(x, VTop) {
			ch = true
		}
		return ch
	}
}

// PanicDesc describes the definite panic points of a result.
func (s *SCCP) PanicDesc(r *SResult) string {
	var out []string
	for _, ins := range r.PanicAt {
		d := ""
		switch x := ins.(type) {
		case *ssa.TypeAssert:
			d = fmt.Sprintf("assertion to %s of a value whose dynamic type is %s", TypeName(x.AssertedType), r.val(x.X))
		case *ssa.Panic:
			d = "explicit panic"
			if mi, ok := x.X.(*ssa.MakeInterface); ok {
				if c, ok := mi.X.(*ssa.Const); ok && c.Value != nil {
					d = "panic(" + c.Value.ExactString() + ")"
				}
			}
		case *ssa.Call:
			d = "call that definitely panics: " + CalleeName(&x.Call)
		default:
			d = ins.String()
		}
		out = append(out, fmt.Sprintf("%s at %s", d, s.P.Pos(s.P.InstrPos(ins))))
	}
	sort.Strings(out)
	return strings.Join(out, "; ")
}
