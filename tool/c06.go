package main

import (
	"fmt"
	"go/ast"
	"go/constant"
	"go/token"
	"go/types"
	"sort"
	"strings"

	"golang.org/x/tools/go/ssa"
)

func init() {
	register("C06", Rule{"R06b", ruleKindTable}, Rule{"R06a", ruleCrossKindOrder}, Rule{"R06c", ruleDerivedCompare}, Rule{"R06d", ruleComparatorProvenance})
}

// kindOf folds T.Kind() under the receiver context.
func kindOf(p *Program, s *SCCP, vt VType) (int64, bool, *SResult) {
	t := vt.T
	m := p.MethodOf(t, "Kind")
	if m == nil {
		return 0, false, nil
	}
	res := s.Analyze(m, []AVal{vt.Recv()})
	if res == nil || res.Panics || len(res.Rets) != 1 {
		return 0, false, res
	}
	v := res.Rets[0]
	if v.K == ACst && v.C != nil && v.C.Kind() == constant.Int {
		i, ok := constant.Int64Val(v.C)
		return i, ok, res
	}
	return 0, false, res
}

func ruleKindTable(p *Program, r *Report) {
	r.Begin("R06b", "kind table: every value type's Kind() folds to a compile-time constant (TS-SCCP; *GenericTuple under the declared plain refinement), constants are pairwise distinct, and each is registered by exactly one registerKind call", 18)
	defer r.End()
	s := relSCCP(p, r)
	vts := p.VTypes(true)
	seen := map[int64]string{}
	for _, vt := range vts {
		t := vt.T
		k, ok, _ := kindOf(p, s, vt)
		name := vt.Name()
		if m := p.MethodOf(t, "Kind"); m != nil {
			r.Fn(FnName(m))
		}
		if !ok {
			r.Undecided("kind@"+name, "Kind() of "+name+" does not fold to an integer constant: cross-kind ordering cannot be decided by type", 0)
			continue
		}
		if other, dup := seen[k]; dup {
			r.Viol("kind-distinct@"+name, fmt.Sprintf("%s and %s share kind number %d: values of the two types compare by a within-kind rule that asserts the other type", name, other, k), p.MethodOf(t, "Kind").Pos())
			continue
		}
		seen[k] = name
		r.OK("kind@"+name, fmt.Sprintf("Kind() = %d", k), p.MethodOf(t, "Kind").Pos())
	}
	// registerKind call sites: first argument constants must be distinct
	reg := p.Func("rel", "registerKind")
	if reg == nil {
		r.Undecided("registerKind", "rel.registerKind not found", 0)
		return
	}
	regSeen := map[string]token.Pos{}
	n := 0
	for _, fn := range p.RepoFns {
		ForEachInstr(fn, func(ins ssa.Instruction) {
			c, ok := ins.(*ssa.Call)
			if !ok || c.Call.StaticCallee() != reg {
				return
			}
			n++
			k, ok := c.Call.Args[0].(*ssa.Const)
			if !ok || k.Value == nil {
				r.Undecided("registerKind-arg@"+p.Pos(c.Pos()), "registerKind called with a non-constant kind", c.Pos())
				return
			}
			ks := k.Value.ExactString()
			if _, dup := regSeen[ks]; dup {
				r.Viol("register-distinct@"+ks, "kind number "+ks+" registered twice", c.Pos())
			} else {
				regSeen[ks] = c.Pos()
				r.OK("register@"+ks, "registered once", c.Pos())
			}
		})
	}
	for k, name := range seen {
		if k < 0 {
			if _, ok := regSeen[fmt.Sprint(-k)]; ok {
				continue // kind of an @neg wrapper: the negation of a registered kind
			}
		}
		if _, ok := regSeen[fmt.Sprint(k)]; !ok {
			r.Viol("kind-registered@"+name, fmt.Sprintf("Kind() of %s is %d, which no registerKind call registers", name, k), 0)
		}
	}
}

func ruleCrossKindOrder(p *Program, r *Report) {
	r.Begin("R06a", "cross-kind trichotomy and transitivity at the type level: for every ordered pair of distinct value types (T,U), T.Less(dyn U) and U.Less(dyn T) fold to constants of which exactly one is true, T.Equal(dyn U) folds to false, the induced order on types is transitive and agrees with the Kind() numbers; and no T.Less(dyn T) definitely panics", 300)
	defer r.End()
	s := relSCCP(p, r)
	vts := p.VTypes(true)
	n := len(vts)
	less := make([][]string, n) // "true" | "false" | "panic" | "?"
	for i := range less {
		less[i] = make([]string, n)
	}
	fold := func(m *ssa.Function, T, U VType) (string, *SResult) {
		if m == nil {
			return "?", nil
		}
		res := s.Analyze(m, []AVal{T.Recv(), U.Dyn()})
		if res == nil {
			return "?", nil
		}
		if res.Panics {
			return "panic", res
		}
		if len(res.Rets) == 1 {
			if b, ok := res.Rets[0].IsBool(); ok {
				if b {
					return "true", res
				}
				return "false", res
			}
		}
		return "?", res
	}
	kinds := make([]int64, n)
	kindOK := make([]bool, n)
	for i, t := range vts {
		kinds[i], kindOK[i], _ = kindOf(p, s, t)
	}
	shortT := func(v VType) string { return v.Name() }
	for i, T := range vts {
		lm := p.MethodOf(T.T, "Less")
		em := p.MethodOf(T.T, "Equal")
		if lm != nil {
			r.Fn(FnName(lm))
		}
		for j, U := range vts {
			v, res := fold(lm, T, U)
			less[i][j] = v
			if i == j {
				key := "same-kind@" + shortT(T) + ".Less"
				if v == "panic" {
					r.Viol(key, fmt.Sprintf("%s.Less(v) definitely panics for every v of the same type: %s", shortT(T), s.PanicDesc(res)), lm.Pos())
				} else {
					r.OK(key, "does not definitely panic on its own kind (value-level result not decided)", lm.Pos())
				}
				continue
			}
			ev, eres := fold(em, T, U)
			ekey := fmt.Sprintf("equal@%s~%s", shortT(T), shortT(U))
			switch ev {
			case "false":
				r.OK(ekey, "Equal across kinds is constant false", em.Pos())
			case "true":
				r.Viol(ekey, fmt.Sprintf("%s.Equal(%s) is constant true although the kinds differ", shortT(T), shortT(U)), em.Pos())
			case "panic":
				r.Viol(ekey, fmt.Sprintf("%s.Equal(%s) definitely panics: %s", shortT(T), shortT(U), s.PanicDesc(eres)), em.Pos())
			default:
				r.Info(ekey, "Equal across these types is value-dependent (not decided by type)", em.Pos())
			}
		}
	}
	for i, T := range vts {
		for j, U := range vts {
			if i >= j {
				continue
			}
			a, b := less[i][j], less[j][i]
			key := fmt.Sprintf("trichotomy@%s~%s", shortT(T), shortT(U))
			pos := token.NoPos
			if m := p.MethodOf(T.T, "Less"); m != nil {
				pos = m.Pos()
			}
			switch {
			case (a == "true" && b == "false") || (a == "false" && b == "true"):
				// agree with kind numbers
				if kindOK[i] && kindOK[j] {
					want := kinds[i] < kinds[j]
					if (a == "true") != want {
						r.Viol(key, fmt.Sprintf("%s < %s is %s but their kind numbers are %d and %d: the cross-kind order disagrees with the Kind() order every other comparison uses (breaks transitivity through a third kind)", shortT(T), shortT(U), a, kinds[i], kinds[j]), pos)
						continue
					}
				}
				r.OK(key, fmt.Sprintf("%s<%s=%s, %s<%s=%s", shortT(T), shortT(U), a, shortT(U), shortT(T), b), pos)
			case a == "?" || b == "?":
				r.Undecided(key, fmt.Sprintf("cross-kind comparison does not fold to a constant (%s / %s): the order between %s and %s values depends on more than their types", a, b, shortT(T), shortT(U)), pos)
			default:
				r.Viol(key, fmt.Sprintf("for every a of type %s and b of type %s: a<b is %s and b<a is %s (and a=b is false): exactly one must hold", shortT(T), shortT(U), a, b), pos)
			}
		}
	}
	// transitivity of the induced order on types
	bad := 0
	for i := range vts {
		for j := range vts {
			for k := range vts {
				if i != j && j != k && i != k && less[i][j] == "true" && less[j][k] == "true" && less[i][k] == "false" {
					bad++
					if bad <= 5 {
						r.Viol(fmt.Sprintf("transitive@%s<%s<%s", shortT(vts[i]), shortT(vts[j]), shortT(vts[k])), "type-level order is not transitive", 0)
					}
				}
			}
		}
	}
	if bad == 0 {
		r.OK("transitive", fmt.Sprintf("type-level order over %d value types is transitive", n), 0)
	}
	r.Notes = append(r.Notes, fmt.Sprintf("R06a: %d value types, %d SCCP contexts", n, s.Contexts))
}

// ruleDerivedCompare evaluates the function literals stored under < > <= >= in compareOps.
func ruleDerivedCompare(p *Program, r *Report) {
	r.Begin("R06c", "derived relations: the function literals stored under \"<\" \">\" \"<=\" \">=\" (and their negations, when present) in compareOps are boolean combinations of a.Less(b), b.Less(a), a.Equal(b) that match the operator's truth table in the three scenarios of a strict total order (a<b, a=b, a>b)", 12)
	defer r.End()
	pk := p.PkgSyntax("syntax")
	keys, _, _, err := p.MapLiteral("syntax", "compareOps")
	if err != nil {
		r.Undecided("compareOps", err.Error(), 0)
		return
	}
	want := map[string][3]bool{ // scenarios: a<b, a=b, a>b
		"<": {true, false, false}, ">": {false, false, true}, "<=": {true, true, false}, ">=": {false, true, true},
		"!<": {false, true, true}, "!>": {true, true, false}, "!<=": {false, false, true}, "!>=": {true, false, false},
		"=": {false, true, false}, "!=": {true, false, true},
	}
	for _, op := range []string{"<", ">", "<=", ">=", "!<", "!>", "!<=", "!>=", "=", "!="} {
		e, ok := keys[op]
		if !ok {
			if len(op) <= 2 && op[0] != '!' || op == "!=" {
				r.Viol("present@"+op, "compareOps has no entry for "+op, 0)
			}
			continue
		}
		fl, ok := e.(*ast.FuncLit)
		if !ok || len(fl.Body.List) != 1 {
			r.Undecided("form@"+op, "entry is not a single-return function literal", e.Pos())
			continue
		}
		ret, ok := fl.Body.List[0].(*ast.ReturnStmt)
		if !ok || len(ret.Results) != 2 {
			r.Undecided("form@"+op, "entry is not a single-return function literal", e.Pos())
			continue
		}
		var pa, pb types.Object
		var names []*ast.Ident
		for _, f := range fl.Type.Params.List {
			names = append(names, f.Names...)
		}
		if len(names) != 2 {
			r.Undecided("form@"+op, "expected two parameters", e.Pos())
			continue
		}
		pa, pb = pk.TypesInfo.Defs[names[0]], pk.TypesInfo.Defs[names[1]]
		for sc, scen := range []string{"a<b", "a=b", "a>b"} {
			v, err := evalCmpExpr(pk.TypesInfo, ret.Results[0], pa, pb, sc)
			key := fmt.Sprintf("truth@%s[%s]", op, scen)
			if err != nil {
				r.Undecided(key, err.Error(), ret.Pos())
				continue
			}
			r.Check(v == want[op][sc], key, fmt.Sprintf("= %v", v), fmt.Sprintf("operator %s yields %v when %s; a strict total order requires %v", op, v, scen, want[op][sc]), ret.Pos())
		}
	}
}

func evalCmpExpr(info *types.Info, e ast.Expr, pa, pb types.Object, scen int) (bool, error) {
	switch x := e.(type) {
	case *ast.ParenExpr:
		return evalCmpExpr(info, x.X, pa, pb, scen)
	case *ast.UnaryExpr:
		if x.Op == token.NOT {
			v, err := evalCmpExpr(info, x.X, pa, pb, scen)
			return !v, err
		}
	case *ast.BinaryExpr:
		l, err := evalCmpExpr(info, x.X, pa, pb, scen)
		if err != nil {
			return false, err
		}
		rr, err := evalCmpExpr(info, x.Y, pa, pb, scen)
		if err != nil {
			return false, err
		}
		switch x.Op {
		case token.LAND:
			return l && rr, nil
		case token.LOR:
			return l || rr, nil
		case token.EQL:
			return l == rr, nil
		case token.NEQ:
			return l != rr, nil
		}
	case *ast.CallExpr:
		sel, ok := x.Fun.(*ast.SelectorExpr)
		if ok && len(x.Args) == 1 {
			recv, ok1 := sel.X.(*ast.Ident)
			arg, ok2 := x.Args[0].(*ast.Ident)
			if ok1 && ok2 {
				ro, ao := info.Uses[recv], info.Uses[arg]
				fwd := ro == pa && ao == pb
				rev := ro == pb && ao == pa
				if fwd || rev {
					switch sel.Sel.Name {
					case "Less":
						if fwd {
							return scen == 0, nil
						}
						return scen == 2, nil
					case "Equal":
						return scen == 1, nil
					}
				}
			}
		}
	}
	return false, fmt.Errorf("expression form outside the fragment {a.Less(b), b.Less(a), a.Equal(b), !, &&, ||}: %s", types.ExprString(e))
}

// ruleComparatorProvenance: sorting/ordering sites decide order through Value.Less, in the right direction.
func ruleComparatorProvenance(p *Program, r *Report) {
	r.Begin("R06d", "comparator provenance: every comparator handed to sort.Sort/Stable/Slice/SliceStable and frozen OrderedRange/OrderedElements/OrderedFirstN from package rel, syntax, pkg/test, translate either orders non-value data, or decides through Value.Less applied as less(first, second) (never reversed, never through a different relation); comparators reached through function-typed fields/parameters are resolved with VTA; the documented user comparator of `order` (rel.SetCall) is exempt", 10)
	defer r.End()
	valueI := p.NamedType("rel", "Value")
	setCall := p.Func("rel", "SetCall")
	if valueI == nil || setCall == nil {
		r.Undecided("anchor", "rel.Value / rel.SetCall not found", 0)
		return
	}
	vi := valueI.Underlying().(*types.Interface)
	isSortSink := func(callee *ssa.Function) (bool, string) {
		if callee == nil {
			return false, ""
		}
		full := callee.String()
		switch {
		case full == "sort.Sort", full == "sort.Stable":
			return true, "iface"
		case full == "sort.Slice", full == "sort.SliceStable":
			return true, "func"
		}
		if strings.Contains(full, "github.com/arr-ai/frozen") && !InRepo(callee) {
			switch strings.SplitN(callee.Name(), "[", 2)[0] {
			case "OrderedRange", "OrderedElements", "OrderedFirstN":
				return true, "func"
			}
		}
		return false, ""
	}
	cv := &cmpVerdicts{p: p, vi: vi, setCall: setCall, memo: map[*ssa.Function]string{}}
	for _, fn := range p.RepoFns {
		pp := PkgPathOf(fn)
		if !(strings.HasSuffix(pp, "/rel") || strings.HasSuffix(pp, "/syntax") || strings.HasSuffix(pp, "/pkg/test") || strings.HasSuffix(pp, "/translate")) {
			continue
		}
		ForEachInstr(fn, func(ins ssa.Instruction) {
			c, ok := ins.(ssa.CallInstruction)
			if !ok {
				return
			}
			callee := c.Common().StaticCallee()
			is, kind := isSortSink(callee)
			if !is {
				return
			}
			key := fmt.Sprintf("sort@%s→%s", FnName(fn), callee.Name())
			r.Fn(FnName(fn))
			var cmpFns []*ssa.Function
			param := false
			for _, a := range c.Common().Args {
				for {
					if ct, ok := a.(*ssa.ChangeType); ok {
						a = ct.X
						continue
					}
					break
				}
				switch v := a.(type) {
				case *ssa.Call:
					// a comparator factory: the closures it returns
					if f := v.Call.StaticCallee(); f != nil && InRepo(f) {
						if _, isSig := v.Type().Underlying().(*types.Signature); isSig {
							ForEachInstr(f, func(ri ssa.Instruction) {
								if ret, ok := ri.(*ssa.Return); ok && len(ret.Results) == 1 {
									switch rv := ret.Results[0].(type) {
									case *ssa.MakeClosure:
										cmpFns = append(cmpFns, rv.Fn.(*ssa.Function))
									case *ssa.Function:
										cmpFns = append(cmpFns, rv)
									}
								}
							})
						}
					}
				case *ssa.MakeClosure:
					cmpFns = append(cmpFns, v.Fn.(*ssa.Function))
				case *ssa.Function:
					cmpFns = append(cmpFns, v)
				case *ssa.MakeInterface:
					if kind == "iface" {
						if m := p.MethodOf(v.X.Type(), "Less"); m != nil {
							cmpFns = append(cmpFns, m)
						}
					}
				case *ssa.Parameter, *ssa.FreeVar:
					if _, isSig := v.Type().Underlying().(*types.Signature); isSig {
						param = true
					}
				}
			}
			if len(cmpFns) == 0 {
				if param {
					r.OK(key, "comparator is a parameter of this function: checked at the sites that create it", ins.Pos())
				} else {
					r.Info(key, "comparator not resolved statically (not counted)", ins.Pos())
				}
				return
			}
			for _, cf := range cmpFns {
				switch v := cv.verdict(cf, 0); v {
				case "less":
					r.OK(key, "comparator decides through Value.Less(first, second)", ins.Pos())
				case "user":
					r.OK(key, "comparator is the user-supplied function of `order` (documented as order-dependent)", ins.Pos())
				case "nonvalue":
					r.OK(key, "comparator orders non-value data (names/strings/ints)", ins.Pos())
				case "number":
					r.OK(key, "comparator is numeric < on asserted rel.Number keys (array positions)", ins.Pos())
				case "reversed":
					r.Viol(key, fmt.Sprintf("comparator %s applies Value.Less with its operands swapped: the sequence produced is the reverse of the < order", FnName(cf)), ins.Pos())
				default:
					r.Viol(key, fmt.Sprintf("comparator %s orders arr.ai values without consulting Value.Less (verdict %s)", FnName(cf), v), ins.Pos())
				}
			}
		})
	}
}

type cmpVerdicts struct {
	p       *Program
	vi      *types.Interface
	setCall *ssa.Function
	memo    map[*ssa.Function]string
}

// paramDeps returns which of the first two non-receiver parameters of fn the value v depends on.
func paramDeps(fn *ssa.Function, v ssa.Value) (first, second bool) {
	params := fn.Params
	if fn.Signature.Recv() != nil && len(params) == 3 {
		params = params[1:] // Less(i, j) of a sort.Interface: the receiver is not an operand
	}
	if len(params) != 2 {
		return false, false
	}
	first = DependsOn(v, func(x ssa.Value) bool { return x == params[0] })
	second = DependsOn(v, func(x ssa.Value) bool { return x == params[1] })
	return
}

// verdict classifies a comparator: less | reversed | user | nonvalue | unknown.
func (cv *cmpVerdicts) verdict(fn *ssa.Function, depth int) string {
	if fn == nil || fn.Blocks == nil {
		return "unknown"
	}
	if v, ok := cv.memo[fn]; ok {
		return v
	}
	if depth > 4 {
		return "unknown"
	}
	cv.memo[fn] = "unknown"
	res := map[string]bool{}
	dir := func(a, b ssa.Value) string {
		a1, a2 := paramDeps(fn, a)
		b1, b2 := paramDeps(fn, b)
		switch {
		case a1 && !a2 && b2 && !b1:
			return "fwd"
		case a2 && !a1 && b1 && !b2:
			return "rev"
		}
		return "?"
	}
	compose := func(sub string, d string) string {
		switch sub {
		case "less":
			if d == "rev" {
				return "reversed"
			}
			return "less"
		case "reversed":
			if d == "rev" {
				return "less"
			}
			return "reversed"
		}
		return sub
	}
	ForEachInstr(fn, func(ins ssa.Instruction) {
		c, ok := ins.(ssa.CallInstruction)
		if !ok {
			return
		}
		cc := c.Common()
		if cc.IsInvoke() {
			if cc.Method.Name() == "Less" && types.Implements(cc.Value.Type(), cv.vi) && len(cc.Args) == 1 {
				res[compose("less", dir(cc.Value, cc.Args[0]))] = true
			}
			return
		}
		if _, isB := cc.Value.(*ssa.Builtin); isB {
			return
		}
		var callees []*ssa.Function
		if sc := cc.StaticCallee(); sc != nil {
			callees = []*ssa.Function{sc}
		} else {
			callees = cv.p.Callees(c)
		}
		for _, callee := range callees {
			if callee == cv.setCall {
				res["user"] = true
				continue
			}
			if !InRepo(callee) {
				continue
			}
			args := cc.Args
			if callee.Signature.Recv() != nil && callee.Name() == "Less" && len(args) == 2 && types.Implements(callee.Signature.Recv().Type(), cv.vi) {
				res[compose("less", dir(args[0], args[1]))] = true
				continue
			}
			if callee.Signature.Recv() != nil && len(args) == 3 {
				args = args[1:]
			}
			if len(args) != 2 {
				continue
			}
			sub := cv.verdict(callee, depth+1)
			if sub == "unknown" || sub == "nonvalue" {
				continue
			}
			res[compose(sub, dir(args[0], args[1]))] = true
		}
	})
	// numeric comparison of rel.Number operands
	if num := cv.p.NamedType("rel", "Number"); num != nil {
		ForEachInstr(fn, func(ins ssa.Instruction) {
			if b, ok := ins.(*ssa.BinOp); ok && (b.Op == token.LSS || b.Op == token.GTR) && types.Identical(b.X.Type(), num) {
				d := dir(b.X, b.Y)
				if (b.Op == token.LSS && d == "rev") || (b.Op == token.GTR && d == "fwd") {
					res["reversed"] = true
				} else {
					res["number"] = true
				}
			}
		})
	}
	v := "unknown"
	switch {
	case res["less"]:
		v = "less" // lexicographic comparators legitimately also apply Less(second, first) for the "greater" exit
	case res["reversed"]:
		v = "reversed"
	case res["user"]:
		v = "user"
	case res["number"]:
		v = "number"
	case !comparesValues(fn, cv.vi):
		v = "nonvalue"
	}
	cv.memo[fn] = v
	return v
}

// comparesValues reports whether the comparator function touches rel.Value-typed data at all.
func comparesValues(fn *ssa.Function, vi *types.Interface) bool {
	touches := false
	ForEachInstr(fn, func(ins ssa.Instruction) {
		if v, ok := ins.(ssa.Value); ok {
			t := v.Type()
			if types.IsInterface(t) {
				if it, ok := t.Underlying().(*types.Interface); ok && it.NumMethods() > 0 && types.Implements(t, vi) {
					touches = true
				}
			} else if types.Implements(t, vi) {
				touches = true
			}
		}
	})
	return touches
}

// ruleMinMax: the reducers behind `max` and `min` pick by Value.Less in the right direction.
func ruleMinMax(p *Program, r *Report) {
	r.Begin("R06e", "max/min reducers: the reduce closure of NewMaxExpr replaces the accumulator when acc.Less(v), that of NewMinExpr when v.Less(acc) (direction of the Value.Less invoke relative to the closure's (acc, v) parameters), and the replacing branch returns v", 2)
	defer r.End()
	valueI := p.NamedType("rel", "Value")
	if valueI == nil {
		r.Undecided("anchor", "rel.Value not found", 0)
		return
	}
	vi := valueI.Underlying().(*types.Interface)
	for _, spec := range []struct{ fn, want string }{{"NewMaxExpr", "fwd"}, {"NewMinExpr", "rev"}} {
		f := p.Func("rel", spec.fn)
		if f == nil {
			r.Undecided("anchor@"+spec.fn, "rel."+spec.fn+" not found", 0)
			continue
		}
		found := false
		for _, cl := range Closures(f) {
			if len(cl.Params) != 2 || !types.Implements(cl.Params[1].Type(), vi) {
				continue
			}
			r.Fn(FnName(cl))
			ForEachInstr(cl, func(ins ssa.Instruction) {
				c, ok := ins.(*ssa.Call)
				if !ok || !c.Call.IsInvoke() || c.Call.Method.Name() != "Less" || len(c.Call.Args) != 1 {
					return
				}
				found = true
				a1, a2 := paramDeps(cl, c.Call.Value)
				b1, b2 := paramDeps(cl, c.Call.Args[0])
				d := "?"
				switch {
				case a1 && !a2 && b2 && !b1:
					d = "fwd"
				case a2 && !a1 && b1 && !b2:
					d = "rev"
				}
				key := "reducer@" + spec.fn
				if d != spec.want {
					r.Viol(key, fmt.Sprintf("%s's reducer applies Less in direction %s (acc=first, v=second); expected %s: it keeps the wrong extreme", spec.fn, d, spec.want), c.Pos())
					return
				}
				// the branch taken when Less is true must return v
				okRet := false
				for _, ref := range *c.Referrers() {
					var iff *ssa.If
					switch x := ref.(type) {
					case *ssa.If:
						iff = x
					case *ssa.Phi:
						for _, rr := range *x.Referrers() {
							if i2, ok := rr.(*ssa.If); ok {
								iff = i2
							}
						}
					}
					if iff == nil {
						continue
					}
					for _, ins2 := range iff.Block().Succs[0].Instrs {
						if ret, ok := ins2.(*ssa.Return); ok && len(ret.Results) > 0 {
							if DependsOn(ret.Results[0], func(x ssa.Value) bool { return x == cl.Params[1] }) &&
								!DependsOn(ret.Results[0], func(x ssa.Value) bool { return x == cl.Params[0] }) {
								okRet = true
							}
						}
					}
				}
				r.Check(okRet, key, "Less direction "+d+" and the true branch returns v", spec.fn+"'s reducer does not return v on the branch where Less holds", c.Pos())
			})
		}
		if !found {
			r.Undecided("reducer@"+spec.fn, "no reduce closure with a Value.Less invoke found in "+spec.fn, f.Pos())
		}
	}
}

func init() { register("C06", Rule{"R06e", ruleMinMax}) }

// ruleOrderedNamesCache (R06f): GenericTuple.names is the cache of the tuple's attribute names in the one order
// GenericTuple.Less and Format walk.  Every store to it must leave it sorted: the store is followed, on every path,
// by sort.Strings of the same field, or the stored value is another tuple's TupleOrderedNames() result (sorted by
// induction), or nil.
func ruleOrderedNamesCache(p *Program, r *Report) {
	r.Begin("R06f", "ordered-names cache: every store to GenericTuple.names (the name order Less and Format walk) is post-dominated by sort.Strings of that field, or stores nil / another tuple's TupleOrderedNames() result; a store of any other slice makes two equal tuples order and print differently", 1)
	defer r.End()
	ton := p.Func("rel", "TupleOrderedNames")
	isNamesAddr := func(v ssa.Value) (*ssa.FieldAddr, bool) {
		fa, ok := v.(*ssa.FieldAddr)
		if !ok {
			return nil, false
		}
		st := structOf(fa.X.Type())
		if st == nil || TypeName(Deref(fa.X.Type())) != "rel.GenericTuple" || st.Field(fa.Field).Name() != "names" {
			return nil, false
		}
		return fa, true
	}
	for _, fn := range p.RepoFns {
		var stores []*ssa.Store
		ForEachInstr(fn, func(ins ssa.Instruction) {
			if st, ok := ins.(*ssa.Store); ok {
				if _, is := isNamesAddr(st.Addr); is {
					stores = append(stores, st)
				}
			}
		})
		if len(stores) == 0 {
			continue
		}
		r.Fn(FnName(fn))
		// sort.Strings(<load of X.names>) calls in fn
		type sortSite struct {
			c    *ssa.Call
			base ssa.Value
		}
		var sorts []sortSite
		ForEachInstr(fn, func(ins ssa.Instruction) {
			c, ok := ins.(*ssa.Call)
			if !ok {
				return
			}
			g := c.Call.StaticCallee()
			if g == nil || g.Pkg == nil || g.Pkg.Pkg.Path() != "sort" || g.Name() != "Strings" || len(c.Call.Args) != 1 {
				return
			}
			if ld, ok := c.Call.Args[0].(*ssa.UnOp); ok {
				if fa, is := isNamesAddr(ld.X); is {
					sorts = append(sorts, sortSite{c, fa.X})
				}
			}
		})
		pd := NewPostDom(fn)
		for i, st := range stores {
			fa, _ := isNamesAddr(st.Addr)
			key := fmt.Sprintf("names-store@%s~%d", FnName(fn), i+1)
			if IsNilConst(st.Val) {
				r.OK(key, "stores nil (cache empty)", st.Pos())
				continue
			}
			if c, ok := st.Val.(*ssa.Call); ok && ton != nil && c.Call.StaticCallee() == ton {
				r.OK(key, "stores another tuple's TupleOrderedNames() (sorted)", st.Pos())
				continue
			}
			sorted := false
			for _, s := range sorts {
				if !sameBase(fn, s.base, fa.X) {
					continue
				}
				sb, tb := s.c.Block(), st.Block()
				if sb == tb {
					after := false
					for _, ins := range tb.Instrs {
						if ins == ssa.Instruction(st) {
							after = true
						}
						if ins == ssa.Instruction(s.c) && after {
							sorted = true
						}
					}
				} else if pd.PostDominates(sb, tb) {
					sorted = true
				}
			}
			r.Check(sorted, key, "followed on every path by sort.Strings of the same field", fmt.Sprintf("%s stores a name list into GenericTuple.names that is not sorted afterwards: GenericTuple.Less and Format walk this list positionally, so this tuple orders and prints differently from an equal tuple whose cache was computed by TupleOrderedNames", FnName(fn)), st.Pos())
		}
	}
}

func init() {
	register("C06", Rule{"R06f", ruleOrderedNamesCache})
	register("C12", Rule{"R06f", ruleOrderedNamesCache})
	register("C07", Rule{"R06f", ruleOrderedNamesCache})
}

// sameBase: two tuple pointers are the same value — identical, structurally equal, or loads of one cell (captured
// variable, local) that the function never stores to.
func sameBase(fn *ssa.Function, a, b ssa.Value) bool {
	if a == b || sameValue(a, b, 0) {
		return true
	}
	la, ok1 := a.(*ssa.UnOp)
	lb, ok2 := b.(*ssa.UnOp)
	if !ok1 || !ok2 || la.Op != token.MUL || lb.Op != token.MUL || la.X != lb.X {
		return false
	}
	stored := false
	ForEachInstr(fn, func(ins ssa.Instruction) {
		if st, ok := ins.(*ssa.Store); ok && st.Addr == la.X {
			stored = true
		}
	})
	return !stored
}

// lessMethods: the Less methods of the value types (and of rel types that implement Less(Value) bool).
func lessMethods(p *Program) []*ssa.Function {
	var out []*ssa.Function
	seen := map[*ssa.Function]bool{}
	for _, T := range p.ValueTypes() {
		if m := p.MethodOf(T, "Less"); m != nil && !seen[m] && InRepo(m) && m.Blocks != nil {
			seen[m] = true
			out = append(out, m)
		}
	}
	return out
}

// R06g: a Less method never answers with the plain negation of another Less.  `!x.Less(y)` is x ≥ y: returned
// from a Less it makes equal operands compare as less (irreflexivity lost, and `a < b` and `b < a` both true for
// containers that walk components).  The reversed order of wrappers is `y.Less(x)`.  A negated Less is accepted
// only on a path where the two operands were already found unequal.
func ruleLessNotNegatedLess(p *Program, r *Report) {
	r.Begin("R06g", "strictness: no Less method of a value type returns the negation of a Less call (`!x.Less(y)` is ≥, true for equal operands) unless the return is dominated by a branch that established the operands unequal (Equal / == / !=); reversal is written y.Less(x)", 15)
	defer r.End()
	for _, m := range lessMethods(p) {
		fns := append([]*ssa.Function{m}, Closures(m)...)
		r.Fn(FnName(m))
		bad := 0
		for _, f := range fns {
			ForEachInstr(f, func(ins ssa.Instruction) {
				ret, ok := ins.(*ssa.Return)
				if !ok || len(ret.Results) != 1 {
					return
				}
				neg, ok := RetVal(ret, 0).(*ssa.UnOp)
				if !ok || neg.Op != token.NOT {
					return
				}
				c, ok := neg.X.(*ssa.Call)
				if !ok {
					return
				}
				name := ""
				if c.Call.IsInvoke() {
					name = c.Call.Method.Name()
				} else if g := c.Call.StaticCallee(); g != nil {
					name = g.Name()
				}
				if name != "Less" {
					return
				}
				// the two operands of the negated Less
				var opA, opB ssa.Value
				if c.Call.IsInvoke() {
					opA = c.Call.Value
					if len(c.Call.Args) > 0 {
						opB = c.Call.Args[0]
					}
				} else if len(c.Call.Args) >= 2 {
					opA, opB = c.Call.Args[0], c.Call.Args[1]
				}
				same := func(u, v ssa.Value) bool { return u != nil && v != nil && (u == v || sameValue(u, v, 0)) }
				pair := func(u, v ssa.Value) bool { return (same(u, opA) && same(v, opB)) || (same(u, opB) && same(v, opA)) }
				// established unequal on the way here?
				uneq := false
				for d := ret.Block(); d != nil; d = d.Idom() {
					id := d.Idom()
					if id == nil {
						break
					}
					if cond := IfCond(id); cond != nil && DependsOn(cond, func(x ssa.Value) bool {
						switch y := x.(type) {
						case *ssa.Call:
							if y.Call.IsInvoke() && y.Call.Method.Name() == "Equal" && len(y.Call.Args) > 0 {
								return pair(y.Call.Value, y.Call.Args[0])
							}
							if g := y.Call.StaticCallee(); g != nil && g.Name() == "Equal" && len(y.Call.Args) >= 2 {
								return pair(y.Call.Args[0], y.Call.Args[1])
							}
						case *ssa.BinOp:
							return (y.Op == token.EQL || y.Op == token.NEQ) && pair(y.X, y.Y)
						}
						return false
					}) {
						uneq = true
					}
				}
				if !uneq {
					bad++
					r.Viol(fmt.Sprintf("negated-less@%s~%d", FnName(m), bad), fmt.Sprintf("%s returns !….Less(…): for equal operands this is true, so the value is less than itself and containers holding it compare less in both directions; the reversed order is written with the operands swapped", FnName(m)), ret.Pos())
				}
			})
		}
		if bad == 0 {
			r.OK("negated-less@"+FnName(m), "no return of a negated Less", m.Pos())
		}
	}
}

// R07d: nothing that decides order or text reads a hash.  Value hashes are seeded per process; a Less method, a
// comparator or a printer that consults Hash() yields an order that is consistent within a run and different in
// the next.
func ruleOrderIndependentOfHash(p *Program, r *Report) {
	r.Begin("R07d", "order and text never read a hash: no Less method of a value type, and no function of package rel it reaches through static calls, calls a Hash method or the hash package (value hashes are seeded per process: an order derived from them is total and stable within one run and different in the next)", 15)
	defer r.End()
	relPkg := p.Pkg("rel")
	isHashCall := func(c ssa.CallInstruction) (string, bool) {
		cc := c.Common()
		if cc.IsInvoke() {
			if cc.Method.Name() == "Hash" {
				return "invoke " + cc.Method.Name(), true
			}
			return "", false
		}
		g := cc.StaticCallee()
		if g == nil {
			return "", false
		}
		if g.Name() == "Hash" && g.Signature.Recv() != nil {
			return g.String(), true
		}
		if g.Pkg != nil && strings.HasSuffix(g.Pkg.Pkg.Path(), "arr-ai/hash") {
			return g.String(), true
		}
		return "", false
	}
	for _, m := range lessMethods(p) {
		r.Fn(FnName(m))
		seen := map[*ssa.Function]bool{}
		var hit string
		var hitPos = m.Pos()
		var walk func(f *ssa.Function, depth int)
		walk = func(f *ssa.Function, depth int) {
			if seen[f] || depth > 4 || hit != "" {
				return
			}
			seen[f] = true
			for _, g := range append([]*ssa.Function{f}, Closures(f)...) {
				ForEachInstr(g, func(ins ssa.Instruction) {
					c, ok := ins.(ssa.CallInstruction)
					if !ok || hit != "" {
						return
					}
					if what, is := isHashCall(c); is {
						hit, hitPos = what+" in "+FnName(g), ins.Pos()
						return
					}
					if callee := c.Common().StaticCallee(); callee != nil && callee.Pkg == relPkg && callee.Blocks != nil && callee.Name() != "Less" {
						walk(callee, depth+1)
					}
				})
			}
		}
		walk(m, 0)
		r.Check(hit == "", "hash-free@"+FnName(m), "reaches no Hash call", fmt.Sprintf("%s consults a hash (%s): hashes are seeded per process, so the order of two values — and with it the printed order of every set that holds them — changes from run to run", FnName(m), hit), hitPos)
	}
}

func init() {
	register("C06", Rule{"R06g", ruleLessNotNegatedLess})
	register("C07", Rule{"R07d", ruleOrderIndependentOfHash})
	register("C06", Rule{"R07d", ruleOrderIndependentOfHash})
}

// R06h: a sort.Interface swaps everything its Less reads.  sort.Sort permutes elements through Swap and decides
// through Less; if Less consults a slice field (a cache of keys or kinds, parallel to the elements) that Swap does not
// permute — typically because Swap is promoted from an embedded type that knows nothing of the cache — then after the
// first swap Less compares other elements' keys and the result is not sorted by the order Less was meant to express.
func ruleSortInterfaceCoherent(p *Program, r *Report) {
	r.Begin("R06h", "sort.Interface coherence: for every module type with Len/Less/Swap, each slice-typed field of the type (including fields of embedded structs) that Less indexes is written by Swap (the method actually selected for the type, promoted ones included)", 2)
	defer r.End()
	n := 0
	seen := map[string]bool{}
	for _, pk := range p.Roots {
		sp := p.SSA[pk.PkgPath]
		if sp == nil {
			continue
		}
		for _, m := range sp.Members {
			tn, ok := m.(*ssa.Type)
			if !ok {
				continue
			}
			for _, T := range []types.Type{tn.Type(), types.NewPointer(tn.Type())} {
				ms := p.Prog.MethodSets.MethodSet(T)
				less, swap, ln := ms.Lookup(nil, "Less"), ms.Lookup(nil, "Swap"), ms.Lookup(nil, "Len")
				if less == nil || swap == nil || ln == nil || seen[tn.Type().String()] {
					continue
				}
				lf, sf := p.Prog.MethodValue(less), p.Prog.MethodValue(swap)
				if lf == nil || sf == nil {
					continue
				}
				if sig := lf.Signature; sig.Params().Len() != 2 || sig.Results().Len() != 1 {
					continue
				}
				seen[tn.Type().String()] = true
				n++
				r.Fn(FnName(lf))
				// slice fields indexed in Less / stored-through in Swap, named by field path
				sliceFields := func(f *ssa.Function, writes bool) map[string]bool {
					out := map[string]bool{}
					var body []*ssa.Function
					var walk func(g *ssa.Function, d int)
					walk = func(g *ssa.Function, d int) {
						if g == nil || g.Blocks == nil || d > 2 {
							return
						}
						body = append(body, g)
						ForEachInstr(g, func(ins ssa.Instruction) {
							if c, ok := ins.(*ssa.Call); ok {
								if k := c.Call.StaticCallee(); k != nil && InRepo(k) && k.Signature.Recv() != nil {
									walk(k, d+1) // wrappers of promoted methods call the embedded type's method
								}
							}
						})
					}
					walk(f, 0)
					fieldNameOf := func(v ssa.Value) string {
						switch x := v.(type) {
						case *ssa.UnOp:
							if fa, ok := x.X.(*ssa.FieldAddr); ok {
								return structOf(fa.X.Type()).Field(fa.Field).Name()
							}
						case *ssa.Field:
							return structOf(x.X.Type()).Field(x.Field).Name()
						}
						return ""
					}
					for _, g := range body {
						// a slice field handed to a package-local helper that indexes (or stores into) its parameter:
						// swapValues(o.keys, i, j)
						ForEachInstr(g, func(ins ssa.Instruction) {
							c, ok := ins.(*ssa.Call)
							if !ok {
								return
							}
							k := c.Call.StaticCallee()
							if k == nil || !InRepo(k) || k.Blocks == nil {
								return
							}
							for ai, a := range c.Call.Args {
								name := fieldNameOf(a)
								if name == "" || ai >= len(k.Params) {
									continue
								}
								if _, isSlice := a.Type().Underlying().(*types.Slice); !isSlice {
									continue
								}
								ForEachInstr(k, func(i2 ssa.Instruction) {
									ia, ok := i2.(*ssa.IndexAddr)
									if !ok || ia.X != ssa.Value(k.Params[ai]) {
										return
									}
									if !writes {
										out[name] = true
										return
									}
									for _, ref := range *ia.Referrers() {
										if st, ok := ref.(*ssa.Store); ok && st.Addr == ssa.Value(ia) {
											out[name] = true
										}
									}
								})
							}
						})
						ForEachInstr(g, func(ins ssa.Instruction) {
							ia, ok := ins.(*ssa.IndexAddr)
							if !ok {
								return
							}
							name := ""
							switch x := ia.X.(type) {
							case *ssa.UnOp:
								if fa, ok := x.X.(*ssa.FieldAddr); ok {
									name = structOf(fa.X.Type()).Field(fa.Field).Name()
								} else if _, isParam := x.X.(*ssa.Alloc); isParam {
									name = "(self)"
								}
							case *ssa.Field:
								name = structOf(x.X.Type()).Field(x.Field).Name()
							case *ssa.Parameter:
								name = "(self)"
							}
							if name == "" {
								if _, isSlice := ia.X.Type().Underlying().(*types.Slice); isSlice {
									name = "(self)"
								} else {
									return
								}
							}
							if !writes {
								out[name] = true
								return
							}
							for _, ref := range *ia.Referrers() {
								if st, ok := ref.(*ssa.Store); ok && st.Addr == ssa.Value(ia) {
									out[name] = true
								}
							}
						})
					}
					return out
				}
				read, written := sliceFields(lf, false), sliceFields(sf, true)
				var miss []string
				for f := range read {
					if !written[f] {
						miss = append(miss, f)
					}
				}
				sort.Strings(miss)
				name := shortT(tn.Type())
				if len(miss) == 0 {
					r.OK("sorter@"+name, fmt.Sprintf("Less indexes {%s}, Swap permutes {%s}", strings.Join(SortedKeys(read), ","), strings.Join(SortedKeys(written), ",")), lf.Pos())
				} else {
					r.Viol("sorter@"+name, fmt.Sprintf("%s.Less indexes %s, which %s does not permute: after the first swap the keys Less consults belong to other elements, so the result is not in the order Less expresses (and depends on the input order)", name, strings.Join(miss, ", "), FnName(sf)), lf.Pos())
				}
			}
		}
	}
	if n == 0 {
		r.Undecided("sites", "no sort.Interface implementation found in the module", 0)
	}
}

func init() { register("C06", Rule{"R06h", ruleSortInterfaceCoherent}) }
