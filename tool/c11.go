package main

import (
	"fmt"
	"go/token"
	"go/types"
	"sort"
	"strings"

	"golang.org/x/tools/go/ssa"
)

func init() {
	register("C11",
		Rule{"R11a", ruleConcurrentCallbackPurity},
		Rule{"R11b", ruleGuardedBy},
		Rule{"R11c", ruleCondProtocol},
		Rule{"R11d", ruleCrossGoroutineCallbacks},
		Rule{"R11e", ruleResourceUnderLock},
	)
}

// frozen APIs that may invoke their callback from several goroutines (read from frozen v1.11.0: the branch
// methods Where / Combine / Reduce / Intersection / Difference fan out through depth.Gauge.Parallel once a
// set holds >= 2^17 elements) and those that iterate sequentially.  A callback-taking frozen API in neither
// table is reported as undecided.
var frozenConcurrent = map[string]bool{"Where": true, "Merge": true, "Update": true, "Reduce": true, "Reduce2": true}
var frozenSequential = map[string]bool{"SetMap": true, "MapMap": true, "SetGroupBy": true, "OrderedRange": true, "OrderedElements": true,
	"OrderedFirstN": true, "NewMapFromKeys": true, "Map": true, "GroupBy": true}

func baseName(fn *ssa.Function) string {
	n := fn.Name()
	if i := strings.Index(n, "["); i > 0 {
		n = n[:i]
	}
	return n
}

// capturedWrites lists the stores a function (and its nested closures) performs to captured variables and
// package variables that are not protected by a held lock.
type capWrite struct {
	fn   *ssa.Function
	ins  ssa.Instruction
	what string
}

func capturedWrites(p *Program, fn *ssa.Function, depth int) []capWrite {
	return capturedWritesFrom(p, fn, fn, depth)
}

// mutableHelperTypes: types of the standard library and of frozen whose pointer-receiver methods change the
// receiver (buffers and builders); calling one on a captured variable is a write to that variable.
var mutableHelperTypes = map[string]bool{
	"bytes.Buffer": true, "strings.Builder": true, "bufio.Writer": true, "encoding/json.Encoder": true,
	"text/tabwriter.Writer": true, "encoding/csv.Writer": true,
	"github.com/arr-ai/frozen.MapBuilder": true, "github.com/arr-ai/frozen.SetBuilder": true,
}

var readOnlyHelperMethods = map[string]bool{"Len": true, "String": true, "Bytes": true, "Cap": true, "Count": true, "Has": true, "Get": true, "Available": true, "Buffered": true}

// outerCapture: fv (a free variable of a function nested in root) is bound, through the chain of enclosing
// closures, to something outside root — not to a local of root's own invocation.
func outerCapture(root *ssa.Function, fv *ssa.FreeVar) bool {
	var v ssa.Value = fv
	for i := 0; i < 8; i++ {
		f, ok := v.(*ssa.FreeVar)
		if !ok {
			break
		}
		if f.Parent() == root {
			return true
		}
		b := bindingOf(f)
		if b == nil {
			return true
		}
		v = b
	}
	if in, ok := v.(ssa.Instruction); ok && in.Parent() != nil && nestedIn(in.Parent(), root) {
		return false // a local of this invocation of root (or of a closure inside it)
	}
	return true
}

func capturedWritesFrom(p *Program, root, fn *ssa.Function, depth int) []capWrite {
	computeEntryLocks(p)
	var out []capWrite
	held := heldLocks(fn)
	add := func(fv *ssa.FreeVar, w capWrite) {
		if outerCapture(root, fv) {
			out = append(out, w)
		}
	}
	// the captured variable a receiver expression denotes: &v (the FreeVar itself) or v where v is a captured pointer
	recvCapture := func(v ssa.Value) *ssa.FreeVar {
		switch a := v.(type) {
		case *ssa.FreeVar:
			return a
		case *ssa.UnOp:
			if fv, ok := a.X.(*ssa.FreeVar); ok && a.Op == token.MUL {
				return fv
			}
		case *ssa.FieldAddr:
			if fv, ok := a.X.(*ssa.FreeVar); ok {
				return fv
			}
			if ld, ok := a.X.(*ssa.UnOp); ok {
				if fv, ok := ld.X.(*ssa.FreeVar); ok {
					return fv
				}
			}
		}
		return nil
	}
	ForEachInstr(fn, func(ins ssa.Instruction) {
		switch x := ins.(type) {
		case *ssa.Store:
			if len(held[ins]) > 0 {
				return
			}
			switch a := x.Addr.(type) {
			case *ssa.FreeVar:
				add(a, capWrite{fn, ins, "captured variable " + a.Name()})
			case *ssa.Global:
				out = append(out, capWrite{fn, ins, "package variable " + a.Name()})
			case *ssa.FieldAddr:
				if fv, ok := a.X.(*ssa.FreeVar); ok {
					add(fv, capWrite{fn, ins, "field of captured variable " + fv.Name()})
				} else if ld, ok := a.X.(*ssa.UnOp); ok {
					if fv, ok := ld.X.(*ssa.FreeVar); ok {
						add(fv, capWrite{fn, ins, "field of captured variable " + fv.Name()})
					}
				}
			case *ssa.IndexAddr:
				if ld, ok := a.X.(*ssa.UnOp); ok {
					if fv, ok := ld.X.(*ssa.FreeVar); ok {
						add(fv, capWrite{fn, ins, "element of captured slice " + fv.Name()})
					}
				}
			}
		case *ssa.MapUpdate:
			if len(held[ins]) > 0 {
				return
			}
			if ld, ok := x.Map.(*ssa.UnOp); ok {
				switch a := ld.X.(type) {
				case *ssa.FreeVar:
					add(a, capWrite{fn, ins, "captured map " + a.Name()})
				case *ssa.Global:
					out = append(out, capWrite{fn, ins, "package-level map " + a.Name()})
				}
			}
		case *ssa.Call:
			// a mutating method of a buffer / builder type called on a captured variable
			if g := x.Call.StaticCallee(); g != nil && !InRepo(g) && g.Signature.Recv() != nil && len(x.Call.Args) > 0 && len(held[ins]) == 0 {
				if fv := recvCapture(x.Call.Args[0]); fv != nil {
					rt := Deref(g.Signature.Recv().Type())
					name := rt.String()
					if i := strings.Index(name, "["); i >= 0 {
						name = name[:i]
					}
					if mutableHelperTypes[name] && !readOnlyHelperMethods[g.Name()] {
						add(fv, capWrite{fn, ins, fmt.Sprintf("captured %s %s (changed by %s)", name, fv.Name(), baseName(g))})
					}
				}
			}
			// a method called on a captured object: its unprotected field stores count
			if depth >= 2 || len(x.Call.Args) == 0 {
				return
			}
			callee := x.Call.StaticCallee()
			if callee == nil || !InRepo(callee) || callee.Signature.Recv() == nil {
				return
			}
			if _, isFV := x.Call.Args[0].(*ssa.FreeVar); !isFV {
				return
			}
			ch := heldLocks(callee)
			ForEachInstr(callee, func(i2 ssa.Instruction) {
				st, ok := i2.(*ssa.Store)
				if !ok || len(ch[i2]) > 0 {
					return
				}
				if fa, ok := st.Addr.(*ssa.FieldAddr); ok && len(callee.Params) > 0 && fa.X == ssa.Value(callee.Params[0]) {
					out = append(out, capWrite{callee, i2, "field of captured object written by " + FnName(callee) + " without holding a lock"})
				}
			})
		}
	})
	for _, a := range fn.AnonFuncs {
		out = append(out, capturedWritesFrom(p, root, a, depth+1)...)
	}
	return out
}

func ruleConcurrentCallbackPurity(p *Program, r *Report) {
	r.Begin("R11a", "purity of callbacks that frozen may run on several goroutines: every function literal the module passes to a concurrent frozen API (Set.Where, Map.Where, Map.Merge, Map.Update, Set.Reduce/Reduce2 — fan-out above 2^17 elements) neither stores to a captured or package variable nor mutates a captured object, unless a lock is held at the store; the same holds for every function value that reaches such a callback through a module wrapper (a function that calls its function-typed parameter from a concurrent callback: GenericSet.Where, positionalRelation.Where, Relation.Where …, inferred to a fixpoint) and for closures defined outside the callback that it calls through captured variables; callback-taking frozen APIs must be in the concurrent or the sequential table", 8)
	defer r.End()
	nConc := 0
	for _, fn := range p.RepoFns {
		ForEachInstr(fn, func(ins ssa.Instruction) {
			c, ok := ins.(ssa.CallInstruction)
			if !ok {
				return
			}
			callee := c.Common().StaticCallee()
			if callee == nil || InRepo(callee) || !strings.Contains(callee.String(), "github.com/arr-ai/frozen") {
				return
			}
			var cbs []*ssa.Function
			hasFuncArg := false
			for _, a := range c.Common().Args {
				if _, isSig := a.Type().Underlying().(*types.Signature); !isSig {
					continue
				}
				hasFuncArg = true
				switch v := a.(type) {
				case *ssa.MakeClosure:
					cbs = append(cbs, v.Fn.(*ssa.Function))
				case *ssa.Function:
					cbs = append(cbs, v)
				}
			}
			if !hasFuncArg {
				return
			}
			name := baseName(callee)
			key := fmt.Sprintf("callback@%s→frozen.%s", FnName(fn), name)
			r.Fn(FnName(fn))
			switch {
			case frozenSequential[name]:
				r.OK(key, "sequential frozen API", ins.Pos())
			case frozenConcurrent[name]:
				nConc++
				bad := false
				for _, cb := range cbs {
					for _, w := range capturedWrites(p, cb, 0) {
						bad = true
						r.Viol(key+"#"+strings.ReplaceAll(w.what, " ", "_"), fmt.Sprintf("the callback %s passed to frozen %s (which runs callbacks from several goroutines for sets of 131072 elements or more) writes %s without synchronisation: data race", FnName(cb), name, w.what), w.ins.Pos())
					}
				}
				if len(cbs) == 0 {
					r.Info(key, "callback is not a literal (parameter): checked where it is created", ins.Pos())
				} else if !bad {
					r.OK(key, "callback writes no shared variable outside a lock", ins.Pos())
				}
			default:
				r.Undecided(key, fmt.Sprintf("frozen API %s takes a callback but is in neither the concurrent nor the sequential table", name), ins.Pos())
			}
		})
	}
	// concurrent wrappers of the module and the callbacks that reach them
	cc := computeConcClosure(p)
	var wrappers []string
	for f, m := range cc.concParams {
		for i := range m {
			wrappers = append(wrappers, fmt.Sprintf("%s#%d", FnName(f), i))
		}
	}
	sort.Strings(wrappers)
	r.Notes = append(r.Notes, fmt.Sprintf("concurrent wrappers (function, parameter index): %v", wrappers))
	var cfs []*ssa.Function
	for f := range cc.concFuncs {
		cfs = append(cfs, f)
	}
	sort.Slice(cfs, func(i, j int) bool { return FnName(cfs[i]) < FnName(cfs[j]) })
	for _, f := range cfs {
		why := cc.concFuncs[f]
		if strings.Contains(why, "→frozen.") && !strings.Contains(why, "called from the callback") {
			continue // literal handed directly to frozen: decided above
		}
		r.Fn(FnName(f))
		key := "concurrent@" + FnName(f)
		ws := capturedWrites(p, f, 0)
		for _, w := range ws {
			r.Viol(key+"#"+strings.ReplaceAll(w.what, " ", "_"), fmt.Sprintf("%s runs on several goroutines at once (%s; frozen fans out for sets of 131072 elements or more) and writes %s without synchronisation: data race", FnName(f), why, w.what), w.ins.Pos())
		}
		if len(ws) == 0 {
			r.OK(key, "writes no shared variable outside a lock ("+why+")", f.Pos())
		}
	}
	if len(wrappers) < 3 {
		r.Undecided("wrappers", fmt.Sprintf("only %d concurrent wrapper parameters inferred (GenericSet.Where, positionalRelation.Where, Relation.Where confirmed by hand)", len(wrappers)), 0)
	}
	if nConc < 3 {
		r.Undecided("concurrent-sites", fmt.Sprintf("only %d call sites of concurrent frozen APIs found (3 confirmed by hand)", nConc), 0)
	}
	// frozen version note
	if pk := p.PkgByPath["github.com/arr-ai/frozen"]; pk != nil && pk.Module != nil {
		r.Notes = append(r.Notes, "frozen version analysed against: "+pk.Module.Version+" (tables read from v1.11.0)")
	}
}

// guardTable infers, from the accesses, which guard protects which cell.
type guardedCell struct {
	cell  string
	guard string
	kind  string // mutex | once
}

func inferGuards(gi *GuardInfo) []guardedCell {
	var out []guardedCell
	seen := map[string]bool{}
	add := func(c guardedCell) {
		k := c.cell + "|" + c.guard
		if !seen[k] {
			seen[k] = true
			out = append(out, c)
		}
	}
	ownerOf := func(cell string) string {
		if i := strings.LastIndex(cell, "."); i > 0 {
			return cell[:i]
		}
		return ""
	}
	for _, a := range gi.Accesses {
		if gi.SyncKinds[a.Cell] != "" {
			continue // the sync primitive itself
		}
		owner := ownerOf(a.Cell)
		// once: a store inside the Do closure of a once belonging to the same struct / package
		if a.Kind == "store" || a.Kind == "mapwrite" {
			for o := range a.InOnce {
				if ownerOf(o) == owner {
					add(guardedCell{a.Cell, o, "once"})
				}
			}
		}
		// mutex: any access under a lock belonging to the same struct / package, provided the cell is written
		// somewhere after construction
		for l := range a.Held {
			if ownerOf(l) == owner && gi.SyncKinds[l] == "mutex" {
				add(guardedCell{a.Cell, l, "mutex"})
			}
		}
	}
	sort.Slice(out, func(i, j int) bool { return out[i].cell+out[i].guard < out[j].cell+out[j].guard })
	return out
}

func ruleGuardedBy(p *Program, r *Report) {
	r.Begin("R11b", "guarded-by discipline, inferred from the code's own declarations: a struct field or package variable that is ever written inside the Do-closure of a sync.Once of the same struct/package is written only there (or while the object is still under construction) and read only inside it or after that Do call in the same function; a cell ever accessed under a mutex of the same struct/package is accessed only while that mutex is held (or under construction / in the package initialiser)", 14)
	defer r.End()
	gi := scanGuards(p)
	guards := inferGuards(gi)
	var table []string
	writtenAfterConstruction := map[string]bool{}
	for _, a := range gi.Accesses {
		if (a.Kind == "store" || a.Kind == "mapwrite") && !a.Fresh && !a.InInit {
			writtenAfterConstruction[a.Cell] = true
		}
	}
	for _, g := range guards {
		if g.kind == "mutex" && !writtenAfterConstruction[g.cell] {
			continue // immutable after construction: reading it needs no lock
		}
		table = append(table, g.cell+"↔"+g.guard)
		ord := map[string]int{}
		for _, a := range gi.Accesses {
			if a.Cell != g.cell || a.Fresh || a.InInit {
				continue
			}
			r.Fn(FnName(a.Fn))
			key := fmt.Sprintf("%s@%s#%s", a.Kind, FnName(a.Fn), g.cell)
			ord[key]++
			if ord[key] > 1 {
				key = fmt.Sprintf("%s~%d", key, ord[key])
			}
			pos := p.InstrPos(a.Ins)
			switch g.kind {
			case "once":
				write := a.Kind == "store" || a.Kind == "mapwrite"
				if write {
					r.Check(a.InOnce[g.guard], key, "written inside "+g.guard+".Do", fmt.Sprintf("%s is written in %s outside the %s.Do closure that initialises it: concurrent first use races with this write", g.cell, FnName(a.Fn), g.guard), pos)
				} else {
					r.Check(a.InOnce[g.guard] || a.AfterDo[g.guard], key, "read after "+g.guard+".Do", fmt.Sprintf("%s is read in %s without first passing %s.Do: it can observe the cell before or while another goroutine initialises it", g.cell, FnName(a.Fn), g.guard), pos)
				}
			case "mutex":
				if (a.Kind == "store" || a.Kind == "mapwrite") && a.Held[g.guard] && a.Held[sharedMark+g.guard] {
					r.Viol(key, fmt.Sprintf("%s is written in %s while %s is held only in read mode (RLock): any number of goroutines hold a read lock at once, so two first uses write the cell concurrently", g.cell, FnName(a.Fn), g.guard), pos)
					continue
				}
				r.Check(a.Held[g.guard], key, "accessed with "+g.guard+" held", fmt.Sprintf("%s (%s) is accessed in %s without holding %s, which guards it elsewhere: data race", g.cell, a.Kind, FnName(a.Fn), g.guard), pos)
			}
		}
	}
	sort.Strings(table)
	r.Notes = append(r.Notes, "guard table inferred: "+strings.Join(table, " "))
	// every declared guard is used: a Mutex that is never locked / a Once that is never run protects nothing
	used := map[string]bool{}
	for _, fn := range p.RepoFns {
		ForEachInstr(fn, func(ins ssa.Instruction) {
			if c, ok := ins.(ssa.CallInstruction); ok {
				if op, key, is := lockOp(c.Common()); is && (op == "lock" || op == "rlock" || op == "do") {
					used[key] = true
				}
			}
		})
	}
	for _, key := range SortedKeys(gi.SyncKinds) {
		k := gi.SyncKinds[key]
		if k != "mutex" && k != "once" {
			continue
		}
		if strings.HasPrefix(key, "cmd/arrai.loggingOnce") {
			continue
		}
		r.Check(used[key], "guard-used@"+key, "locked / run somewhere", fmt.Sprintf("%s is declared but never locked (or its Do never called) in non-test code: the state it was declared to protect is accessed without synchronisation", key), 0)
	}
	// unsynchronised writes to package variables outside initialisers (start-up configuration): audited
	audited := map[string]string{
		"pkg/ctxfs.defaultFs":                      "set once by the embedding host / tests before evaluation starts (start-up configuration)",
		"pkg/buildinfo.BuildInfo":                  "set once in main before any command runs",
		"cmd/arrai.debug":                          "CLI flag parsed in main before the command runs",
		"cmd/arrai.cmds":                           "command table built in main before the command runs",
		"cmd/arrai.DefaultCmd":                     "CLI configuration set in main",
		"os.Args":                                  "rewritten by prepareProfilers in main before anything else runs",
		"github.com/urfave/cli/v2.AppHelpTemplate": "CLI help template set in main before app.Run",
		"github.com/urfave/cli/v2.VersionPrinter":  "CLI version printer set in main before app.Run",
	}
	seenG := map[string]bool{}
	guardedCells := map[string]bool{}
	for _, g := range guards {
		guardedCells[g.cell] = true
	}
	for _, a := range gi.Accesses {
		if a.Kind != "store" && a.Kind != "mapwrite" {
			continue
		}
		if _, isG := a.Ins.(*ssa.Store); isG {
			if _, ok := a.Ins.(*ssa.Store).Addr.(*ssa.Global); !ok {
				continue
			}
		} else {
			continue
		}
		if a.InInit || guardedCells[a.Cell] || len(a.Held) > 0 || len(a.InOnce) > 0 || seenG[a.Cell+FnName(a.Fn)] {
			continue
		}
		if strings.HasSuffix(p.File(a.Ins.Pos()), "_test.go") {
			continue
		}
		seenG[a.Cell+FnName(a.Fn)] = true
		key := fmt.Sprintf("global-write@%s#%s", FnName(a.Fn), a.Cell)
		if why, ok := audited[a.Cell]; ok {
			r.OK(key, "audited start-up configuration: "+why, a.Ins.Pos())
		} else {
			r.Viol(key, fmt.Sprintf("reason=unaudited-site package variable %s is written in %s outside the package initialiser with no Once, mutex or atomic: concurrent evaluations race on it", a.Cell, FnName(a.Fn)), a.Ins.Pos())
		}
	}
}

func ruleCondProtocol(p *Program, r *Report) { ruleCondProtocolNamed(p, r, "R11c") }

func ruleCondProtocolNamed(p *Program, r *Report, ruleName string) {
	r.Begin(ruleName, "condition-variable protocol: for every struct that owns a sync.Cond some function waits on, every write anywhere in the module that changes the waited-for state (map update with a non-marker value, or delete, on a map field of that struct) is followed on every path to the function's exit by a Broadcast/Signal on that condition variable — a waiter is never left sleeping", 2)
	defer r.End()
	// structs whose cond is waited on
	waited := map[string]string{} // struct type -> cond key
	for _, fn := range p.RepoFns {
		ForEachInstr(fn, func(ins ssa.Instruction) {
			if c, ok := ins.(*ssa.Call); ok {
				if op, key, is := lockOp(&c.Call); is && op == "wait" {
					if i := strings.LastIndex(key, "."); i > 0 {
						waited[key[:i]] = key
						r.Fn(FnName(fn))
					}
				}
			}
		})
	}
	n := 0
	for _, f := range p.RepoFns {
		ord := 0
		var pd *PostDom
		ForEachInstr(f, func(ins ssa.Instruction) {
			var mapAddr ssa.Value
			switch x := ins.(type) {
			case *ssa.MapUpdate:
				// storing the nil in-flight marker makes others wait; only filling it releases them
				if IsNilConst(x.Value) {
					return
				}
				if ld, ok := x.Map.(*ssa.UnOp); ok {
					mapAddr = ld.X
				}
			case *ssa.Call:
				if b, ok := x.Call.Value.(*ssa.Builtin); ok && b.Name() == "delete" {
					if ld, ok := x.Call.Args[0].(*ssa.UnOp); ok {
						mapAddr = ld.X
					}
				}
			}
			if mapAddr == nil {
				return
			}
			cell, _, ok := cellKeyOfAddr(mapAddr)
			if !ok {
				return
			}
			i := strings.LastIndex(cell, ".")
			if i < 0 {
				return
			}
			condKey, isWaited := waited[cell[:i]]
			if !isWaited {
				return
			}
			n++
			ord++
			r.Fn(FnName(f))
			if pd == nil {
				pd = NewPostDom(f)
			}
			woken := false
			ForEachInstr(f, func(i2 ssa.Instruction) {
				if c, ok := i2.(*ssa.Call); ok {
					if op, k2, is := lockOp(&c.Call); is && op == "wake" && k2 == condKey {
						if (i2.Block() == ins.Block() && InstrIndex(i2) > InstrIndex(ins)) || (i2.Block() != ins.Block() && pd.PostDominates(i2.Block(), ins.Block())) {
							woken = true
						}
					}
				}
			})
			key := fmt.Sprintf("wake-after-write@%s~%d", FnName(f), ord)
			r.Check(woken, key, "a Broadcast/Signal follows on every path", fmt.Sprintf("%s changes the state that waiters of %s are waiting for (%s) without waking them: a goroutine blocked in Wait sleeps forever", FnName(f), condKey, cell), ins.Pos())
		})
	}
	if n == 0 {
		r.Undecided("sites", "no write to the state guarded by a waited-on condition variable found (the import cache's map is expected)", 0)
	}
}

func ruleCrossGoroutineCallbacks(p *Program, r *Report) {
	r.Begin("R11d", "callbacks that cross goroutines: the function literals handed to engine.Observe (onupdate, onclose) run on the engine goroutine, not on the registering one; they may not write a captured variable that the registering goroutine also accesses, unless synchronised (atomic / mutex / channel hand-off)", 2)
	defer r.End()
	obs := p.Method("engine", "Engine", "Observe")
	if obs == nil {
		r.Undecided("anchor", "(*engine.Engine).Observe not found", 0)
		return
	}
	audited := map[string]string{
		"(*cmd/arrai.arraiServer).Observe#captured_variable_err": "the handler goroutine does not touch err after handing the callbacks to the engine (ordered by the addWatcher send); it only receives from retch",
	}
	n := 0
	for _, fn := range p.RepoFns {
		ForEachInstr(fn, func(ins ssa.Instruction) {
			c, ok := ins.(*ssa.Call)
			if !ok || c.Call.StaticCallee() != obs {
				return
			}
			r.Fn(FnName(fn))
			for _, a := range c.Call.Args {
				mc, ok := a.(*ssa.MakeClosure)
				if !ok {
					continue
				}
				cb := mc.Fn.(*ssa.Function)
				n++
				ws := capturedWrites(p, cb, 0)
				// also closures the callback calls through captured function values (e.g. send)
				for _, b := range mc.Bindings {
					if al, ok := b.(*ssa.Alloc); ok {
						for _, ref := range *al.Referrers() {
							if st, ok := ref.(*ssa.Store); ok {
								if inner, ok := st.Val.(*ssa.MakeClosure); ok {
									ws = append(ws, capturedWrites(p, inner.Fn.(*ssa.Function), 0)...)
								}
							}
						}
					} else if inner, ok := b.(*ssa.MakeClosure); ok {
						ws = append(ws, capturedWrites(p, inner.Fn.(*ssa.Function), 0)...)
					}
				}
				if len(ws) == 0 {
					r.OK("callback@"+FnName(cb), "writes no captured variable", cb.Pos())
					continue
				}
				for _, w := range ws {
					top := w.fn
					for top.Parent() != nil {
						top = top.Parent()
					}
					k := FnName(top) + "#" + strings.ReplaceAll(w.what, " ", "_")
					if why, ok := audited[k]; ok {
						r.OK("callback-write@"+k, "audited: "+why, w.ins.Pos())
						continue
					}
					r.Viol("callback-write@"+k, fmt.Sprintf("%s is invoked on the engine goroutine and writes %s, which the goroutine that registered the observer also uses, without synchronisation: data race", FnName(w.fn), w.what), w.ins.Pos())
				}
			}
		})
	}
	if n == 0 {
		r.Undecided("sites", "no function literal passed to engine.Observe found", 0)
	}
}

func ruleResourceUnderLock(p *Program, r *Report) {
	r.Begin("R11e", "a guarded resource is used only while its lock is held: a reference-typed value (interface, pointer, map, slice, channel) loaded from a field that a mutex of the same struct guards is not passed to a call or indexed at a point where that mutex is no longer held (check-then-act split / drain outside the critical section)", 3)
	defer r.End()
	gi := scanGuards(p)
	guards := inferGuards(gi)
	isGuarded := map[string]string{}
	for _, g := range guards {
		if g.kind == "mutex" {
			isGuarded[g.cell] = g.guard
		}
	}
	heldCache := map[*ssa.Function]map[ssa.Instruction]map[string]bool{}
	n := 0
	for _, a := range gi.Accesses {
		guard, ok := isGuarded[a.Cell]
		if !ok || a.Kind != "load" || a.Fresh {
			continue
		}
		v, isV := a.Ins.(ssa.Value)
		if !isV {
			continue
		}
		switch v.Type().Underlying().(type) {
		case *types.Interface, *types.Pointer, *types.Map, *types.Slice, *types.Chan:
		default:
			continue
		}
		// values of the arr.ai value model are immutable: handing them out is fine
		if strings.Contains(v.Type().String(), Mod+"/rel.") {
			continue
		}
		held, ok := heldCache[a.Fn]
		if !ok {
			held = heldLocks(a.Fn)
			heldCache[a.Fn] = held
		}
		n++
		ord := 0
		var visit func(x ssa.Value, depth int)
		seen := map[ssa.Value]bool{}
		visit = func(x ssa.Value, depth int) {
			if seen[x] || depth > 4 || x.Referrers() == nil {
				return
			}
			seen[x] = true
			for _, ref := range *x.Referrers() {
				switch u := ref.(type) {
				case *ssa.Phi:
					visit(u, depth+1)
				case *ssa.ChangeInterface:
					visit(u, depth+1)
				case *ssa.MakeInterface:
					visit(u, depth+1)
				case *ssa.Store:
					if al, ok := u.Addr.(*ssa.Alloc); ok && u.Val == x {
						for _, r2 := range *al.Referrers() {
							if ld, ok := r2.(*ssa.UnOp); ok && ld.Op == token.MUL {
								visit(ld, depth+1)
							}
						}
					}
				case ssa.CallInstruction:
					if _, _, isLock := lockOp(u.Common()); isLock {
						continue
					}
					if _, isDefer := ref.(*ssa.Defer); isDefer {
						continue
					}
					ord++
					key := fmt.Sprintf("use@%s#%s~%d", FnName(a.Fn), a.Cell, ord)
					r.Check(held[ref][guard], key, "used with "+guard+" held", fmt.Sprintf("%s loads %s under %s but uses it (%s) after the lock is released: two goroutines can operate on the same resource at once and each sees only part of the effect", FnName(a.Fn), a.Cell, guard, CalleeName(u.Common())), ref.Pos())
				case *ssa.MapUpdate, *ssa.Lookup:
					ord++
					key := fmt.Sprintf("use@%s#%s~%d", FnName(a.Fn), a.Cell, ord)
					r.Check(held[ref][guard], key, "indexed with "+guard+" held", fmt.Sprintf("%s indexes %s after %s was released", FnName(a.Fn), a.Cell, guard), ref.Pos())
				}
			}
		}
		visit(v, 0)
	}
	if n == 0 {
		r.Undecided("sites", "no load of a mutex-guarded reference-typed field found", 0)
	}
}
