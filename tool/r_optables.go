package main

import (
	"fmt"
	"go/ast"
	"go/token"
	"go/types"
	"sort"
	"strings"
)

// R08a / R10a: every operator token the compiled grammar can produce has an entry in the table the
// compiler indexes with it, or the lookup site tests for presence.

type tableSite struct {
	fn      string
	table   string
	key     string // constant key, "" if dynamic
	dynamic bool
	commaOk bool
	labels  []string
	pos     token.Pos
}

// declared attribution for lookup sites that sit under no `case "<label>"` clause: function -> grammar label,
// verified by requiring every caller to fetch that label from the AST node (`.One("<label>")`).
var opSiteAttribution = map[string]string{
	"desugarNestedRHS": "nested_op",
}

// operator tokens the grammar's regular expressions over-generate and the compiler rejects with an ordinary error
var overGenerated = map[string]string{
	"~": "the binop regex `~~?` also matches a lone ~, which is not an arr.ai operator",
}

func grammarText(p *Program, r *Report) (string, token.Pos) {
	pk := p.PkgSyntax("syntax")
	if pk == nil {
		r.Undecided("grammar", "package syntax not loaded", 0)
		return "", 0
	}
	obj := pk.Types.Scope().Lookup("arraiParsers")
	if obj == nil {
		r.Undecided("grammar", "syntax.arraiParsers not found", 0)
		return "", 0
	}
	var text string
	var pos token.Pos
	for _, f := range pk.Syntax {
		ast.Inspect(f, func(n ast.Node) bool {
			vs, ok := n.(*ast.ValueSpec)
			if !ok {
				return true
			}
			for i, nm := range vs.Names {
				if pk.TypesInfo.Defs[nm] == obj && i < len(vs.Values) {
					ast.Inspect(vs.Values[i], func(m ast.Node) bool {
						if bl, ok := m.(*ast.BasicLit); ok && bl.Kind == token.STRING {
							if s, ok := ConstString(pk.TypesInfo, bl); ok && len(s) > len(text) {
								text, pos = s, bl.Pos()
							}
						}
						return true
					})
				}
			}
			return true
		})
	}
	if !strings.Contains(text, "expr") || !strings.Contains(text, "->") {
		r.Undecided("grammar", "grammar text passed to wbnf.MustCompile not found", obj.Pos())
		return "", 0
	}
	return strings.ReplaceAll(text, "‵", "`"), pos
}

func ruleOpTables(p *Program, r *Report) { ruleOpTablesNamed(p, r, "R08a") }

func ruleOpTablesNamed(p *Program, r *Report, ruleName string) {
	r.Begin(ruleName, "grammar tokens ⇔ operator tables: the finite language of every operator term of the compiled wbnf grammar is contained in the keys of the map the compiler indexes with it, unless the lookup tests presence (comma-ok); constant-key lookups name existing keys", 40)
	defer r.End()
	pk := p.PkgSyntax("syntax")
	grammar, gpos := grammarText(p, r)
	if grammar == "" {
		return
	}
	tables := map[types.Object]string{}
	keys := map[string]map[string]ast.Expr{}
	for _, t := range []string{"binops", "unops", "compareOps"} {
		m, _, obj, err := p.MapLiteral("syntax", t)
		if err != nil {
			r.Undecided("table:"+t, err.Error(), 0)
			return
		}
		tables[obj] = t
		keys[t] = m
	}
	info := pk.TypesInfo

	// pass 1: which functions are called under which case labels
	calledUnder := map[string][]string{} // function/method name -> labels
	var sites []tableSite
	callersOf := map[string][]*ast.FuncDecl{}
	FuncDecls(pk, func(fd *ast.FuncDecl) {
		fname := fd.Name.Name
		var stack []ast.Node
		ast.Inspect(fd.Body, func(n ast.Node) bool {
			if n == nil {
				stack = stack[:len(stack)-1]
				return true
			}
			stack = append(stack, n)
			switch x := n.(type) {
			case *ast.CallExpr:
				var callee string
				switch f := x.Fun.(type) {
				case *ast.SelectorExpr:
					callee = f.Sel.Name
				case *ast.Ident:
					callee = f.Name
				}
				if callee != "" {
					if ls := innermostLabels(info, stack); ls != nil {
						calledUnder[callee] = append(calledUnder[callee], ls...)
					}
					callersOf[callee] = append(callersOf[callee], fd)
				}
			case *ast.IndexExpr:
				id, ok := x.X.(*ast.Ident)
				if !ok {
					return true
				}
				t, ok := tables[info.Uses[id]]
				if !ok {
					return true
				}
				s := tableSite{fn: fname, table: t, pos: x.Pos()}
				if k, ok := ConstString(info, x.Index); ok {
					s.key = k
				} else {
					s.dynamic = true
				}
				if len(stack) >= 2 {
					if as, ok := stack[len(stack)-2].(*ast.AssignStmt); ok && len(as.Lhs) == 2 && len(as.Rhs) == 1 && as.Rhs[0] == x {
						s.commaOk = true
					}
				}
				s.labels = innermostLabels(info, stack)
				sites = append(sites, s)
			}
			return true
		})
	})

	langCache := map[string][]string{}
	lang := func(label string) ([]string, error) {
		if l, ok := langCache[label]; ok {
			return l, nil
		}
		l, occ, err := GrammarTerm(grammar, label)
		if err != nil {
			return nil, err
		}
		if occ == 0 {
			return nil, fmt.Errorf("label %q does not occur in the grammar", label)
		}
		langCache[label] = l
		return l, nil
	}

	nDyn := 0
	for _, s := range sites {
		r.Sites++
		r.Fn("syntax." + s.fn)
		if !s.dynamic {
			_, has := keys[s.table][s.key]
			r.Check(has || s.commaOk, fmt.Sprintf("const-key@%s#%s[%q]", s.fn, s.table, s.key),
				"constant key present", fmt.Sprintf("%s[%q] is looked up but the table has no such key: the result is a nil function", s.table, s.key), s.pos)
			continue
		}
		nDyn++
		if s.commaOk {
			r.OK(fmt.Sprintf("lookup@%s#%s", s.fn, s.table), "lookup tests presence (comma-ok)", s.pos)
			if ruleName != "R08a" {
				continue // for C10 a guarded lookup cannot crash
			}
		}
		labels := s.labels
		if labels == nil {
			labels = calledUnder[s.fn]
		}
		if a, ok := opSiteAttribution[s.fn]; ok && labels == nil {
			okAttr := len(callersOf[s.fn]) > 0
			for _, c := range callersOf[s.fn] {
				found := false
				ast.Inspect(c.Body, func(n ast.Node) bool {
					if bl, ok := n.(*ast.BasicLit); ok {
						if v, ok := ConstString(info, bl); ok && v == a {
							found = true
						}
					}
					return true
				})
				okAttr = okAttr && found
			}
			if !okAttr {
				r.Undecided("attribution@"+s.fn, fmt.Sprintf("declared attribution %s -> %s no longer supported by the callers", s.fn, a), s.pos)
				continue
			}
			labels = []string{a}
		}
		// keep labels that are operator terms of the grammar
		var tokens []string
		var used []string
		for _, l := range dedupe(labels) {
			ws, err := lang(l)
			if err != nil {
				continue
			}
			used = append(used, l)
			tokens = append(tokens, ws...)
		}
		if len(used) == 0 {
			r.Undecided(fmt.Sprintf("lookup@%s#%s", s.fn, s.table), fmt.Sprintf("cannot attribute the unguarded dynamic lookup %s[…] in %s to a grammar operator term (labels seen: %v)", s.table, s.fn, labels), s.pos)
			continue
		}
		for _, tok := range dedupe(tokens) {
			_, has := keys[s.table][tok]
			if !has && s.commaOk {
				if why, ok := overGenerated[tok]; ok {
					r.OK(fmt.Sprintf("token@%s#%s[%q]", s.fn, s.table, tok), "rejected with a compile error: "+why, s.pos)
					continue
				}
				r.Viol(fmt.Sprintf("token@%s#%s[%q]", s.fn, s.table, tok), fmt.Sprintf("the grammar (%v) accepts operator %q but %s has no constructor for it: the documented operator is rejected at compile time", used, tok, s.table), s.pos)
				continue
			}
			r.Check(has, fmt.Sprintf("token@%s#%s[%q]", s.fn, s.table, tok),
				fmt.Sprintf("grammar term %v token has a table entry", used),
				fmt.Sprintf("the grammar (%v) accepts operator %q but %s has no entry for it and %s calls the looked-up function without a presence test: nil-function call (crash) on that source text", used, tok, s.table, s.fn), s.pos)
		}
	}
	if nDyn < 6 {
		r.Undecided("sites", fmt.Sprintf("only %d dynamic operator-table lookups found (7 confirmed by hand)", nDyn), gpos)
	}
	// every table value must be a non-nil function expression
	for t, m := range keys {
		for k, e := range m {
			if id, ok := e.(*ast.Ident); ok && id.Name == "nil" {
				r.Viol(fmt.Sprintf("nil-entry@%s[%q]", t, k), "table entry is nil", e.Pos())
			}
		}
	}
	r.Notes = append(r.Notes, fmt.Sprintf("grammar text: %d bytes at %s; tables: binops=%d unops=%d compareOps=%d keys", len(grammar), p.Pos(gpos), len(keys["binops"]), len(keys["unops"]), len(keys["compareOps"])))
}

func innermostLabels(info *types.Info, stack []ast.Node) []string {
	for i := len(stack) - 1; i >= 0; i-- {
		cc, ok := stack[i].(*ast.CaseClause)
		if !ok {
			continue
		}
		var ls []string
		for _, e := range cc.List {
			if s, ok := ConstString(info, e); ok {
				ls = append(ls, s)
			}
		}
		if ls != nil {
			return ls
		}
	}
	return nil
}

func dedupe(s []string) []string {
	m := map[string]bool{}
	var out []string
	for _, x := range s {
		if !m[x] {
			m[x] = true
			out = append(out, x)
		}
	}
	sort.Strings(out)
	return out
}

func init() {
	register("C08", Rule{"R08a", ruleOpTables})
}
