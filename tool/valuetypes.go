package main

import (
	"go/constant"
	"go/types"
	"strings"

	"golang.org/x/tools/go/ssa"
)

// relSCCP builds the SCCP engine configured for package rel: init-time constants of rel and the one
// declared refinement (*GenericTuple/plain: Get("@neg") reports absent).
func relSCCP(p *Program, r *Report) *SCCP {
	if p.sccp != nil {
		return p.sccp
	}
	s := NewSCCP(p)
	p.sccp = s
	s.InitConsts("rel", "syntax", "translate", "pkg/test")
	neg := ""
	if pk := p.PkgSyntax("rel"); pk != nil {
		if c, ok := pk.Types.Scope().Lookup("negateTag").(*types.Const); ok && c.Val().Kind() == constant.String {
			neg = constant.StringVal(c.Val())
		}
	}
	if sp := p.Pkg("rel"); sp != nil && neg == "" {
		if g, ok := sp.Members["negateTag"].(*ssa.Global); ok {
			if v, ok := s.GlobalConst[g]; ok && v.C != nil && v.C.Kind() == constant.String {
				neg = constant.StringVal(v.C)
			}
		}
	}
	get := p.Method("rel", "GenericTuple", "Get")
	if neg == "" || get == nil {
		if r != nil {
			r.Undecided("refinement", "rel.negateTag or (*GenericTuple).Get not found: the *GenericTuple/plain refinement cannot be installed", 0)
		}
		return s
	}
	count := p.Method("rel", "GenericTuple", "Count")
	s.CallHook = func(callee *ssa.Function, args []AVal) ([]AVal, bool) {
		if callee == get && len(args) == 2 && args[1].K == ACst && args[1].C != nil &&
			args[1].C.Kind() == constant.String && constant.StringVal(args[1].C) == neg {
			if args[0].Plain {
				return []AVal{VTop, VBool(false)}, true
			}
			if args[0].Neg != nil {
				return []AVal{DynCtx(args[0].Neg), VBool(true)}, true
			}
		}
		if callee == count && count != nil && len(args) == 1 && args[0].Neg != nil {
			return []AVal{VConst(constant.MakeInt64(1))}, true
		}
		return nil, false
	}
	return s
}

func isGenericTuplePtr(t types.Type) bool {
	return strings.HasSuffix(t.String(), "*"+Mod+"/rel.GenericTuple")
}

// RecvCtx is the abstract value for a receiver parameter of concrete type t.
func RecvCtx(t types.Type) AVal {
	if isGenericTuplePtr(t) {
		return AVal{K: ADyn, T: t, Plain: true}
	}
	return VTop
}

// VType is a value "type" for type-level reasoning: a concrete Go type, or the refinement
// "*GenericTuple that is exactly (@neg: x) with x of type Neg".
type VType struct {
	T   types.Type
	Neg types.Type
}

func (v VType) Name() string {
	if v.Neg != nil {
		return "neg(" + shortT(v.Neg) + ")"
	}
	return shortT(v.T)
}

func (v VType) Recv() AVal {
	if v.Neg != nil {
		return AVal{K: ADyn, T: v.T, Neg: v.Neg}
	}
	return RecvCtx(v.T)
}

func (v VType) Dyn() AVal {
	if v.Neg != nil {
		return AVal{K: ADyn, T: v.T, Neg: v.Neg}
	}
	return DynCtx(v.T)
}

// VTypes returns the value types plus, when withNeg, the @neg wrapper refinement of every value type.
func (p *Program) VTypes(withNeg bool) []VType {
	var out []VType
	var gt types.Type
	for _, t := range p.ValueTypes() {
		out = append(out, VType{T: t})
		if isGenericTuplePtr(t) {
			gt = t
		}
	}
	if withNeg && gt != nil {
		for _, t := range p.ValueTypes() {
			out = append(out, VType{T: gt, Neg: t})
		}
	}
	return out
}

// DynCtx is the abstract value "interface holding a value of dynamic type t".
func DynCtx(t types.Type) AVal {
	return AVal{K: ADyn, T: t, Plain: isGenericTuplePtr(t)}
}

// InhabitedTypes returns the concrete types that some MakeInterface instruction of the whole program
// (module functions) converts to an interface: types that can actually flow as interface values.
func (p *Program) InhabitedTypes() map[string]bool {
	out := map[string]bool{}
	for fn := range p.AllFns {
		if fn.Blocks == nil {
			continue
		}
		ForEachInstr(fn, func(ins ssa.Instruction) {
			if mi, ok := ins.(*ssa.MakeInterface); ok {
				out[mi.X.Type().String()] = true
			}
		})
	}
	return out
}

// shortT renders a value type without the package path.
func shortT(t types.Type) string {
	return strings.ReplaceAll(TypeName(t), "rel.", "")
}
