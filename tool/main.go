package main

import (
	"encoding/json"
	"flag"
	"fmt"
	"os"
	"os/exec"
	"path/filepath"
	"regexp"
	"runtime/debug"
	"sort"
	"strconv"
	"strings"
	"time"
)

// Rule is one static rule of a property.
type Rule struct {
	Name string
	Fn   func(p *Program, r *Report)
}

var registry = map[string][]Rule{}

func register(prop string, rules ...Rule) { registry[prop] = append(registry[prop], rules...) }

// Variant is a seeded fault used to test a rule in the thorough tier (applied as an in-memory overlay).
type Variant struct {
	Name    string `json:"name"`
	File    string `json:"file"`    // relative to the repository
	Find    string `json:"find"`    // regexp, must match exactly once
	Replace string `json:"replace"` // replacement ($1 … allowed)
	Expect  string `json:"expect"`  // substring of the obligation key that must become a violation
	Why     string `json:"why"`
}

func main() {
	prop := flag.String("prop", "", "property id (C01…C20)")
	tier := flag.String("tier", "quick", "quick|thorough")
	repo := flag.String("repo", "/repo", "repository root")
	evid := flag.String("evidence", "", "evidence file to write")
	known := flag.String("known", "known_findings.txt", "known findings file")
	replay := flag.String("replaydir", "replay", "directory for replay files")
	variants := flag.String("variants", "variants", "directory with <prop>.json variant lists")
	variant := flag.String("variant", "", "internal: run one variant (name) and print violated keys as JSON")
	only := flag.String("rule", "", "run only the rules whose name has this prefix")
	list := flag.Bool("list", false, "print every obligation")
	showReplay := flag.String("replay", "", "print a replay file and re-run its rule")
	genAnchors := flag.String("gen-anchors", "", "write the signature table of the module's functions to this file and exit")
	flag.Parse()
	if *genAnchors != "" {
		prog, err := Load(*repo, nil)
		if err != nil {
			fmt.Fprintln(os.Stderr, err)
			os.Exit(2)
		}
		b, _ := json.MarshalIndent(prog.GenAnchors(), "", " ")
		if err := os.WriteFile(*genAnchors, b, 0o644); err != nil {
			fmt.Fprintln(os.Stderr, err)
			os.Exit(2)
		}
		return
	}

	if *showReplay != "" {
		b, err := os.ReadFile(*showReplay)
		if err != nil {
			fmt.Println(err)
			os.Exit(2)
		}
		var rp struct {
			Property   string `json:"property"`
			Obligation Ob     `json:"obligation"`
		}
		_ = json.Unmarshal(b, &rp)
		fmt.Printf("replay of %s\n%s\n", *showReplay, b)
		*prop = rp.Property
		*only = rp.Obligation.Rule
		*list = true
	}
	if _, ok := registry[*prop]; !ok {
		fmt.Printf("unknown property %q; known: %v\n", *prop, propIDs())
		os.Exit(2)
	}
	seed, _ := strconv.ParseInt(os.Getenv("VERIF_SEED"), 10, 64)
	t0 := time.Now()

	if *variant != "" {
		os.Exit(runOneVariant(*prop, *repo, *variants, *variant))
	}

	p, err := Load(*repo, nil)
	loadS := time.Since(t0).Seconds()
	rep := NewReport(*prop, p)
	if err != nil {
		rep.Begin("framework", "the program loads and type-checks", 0)
		rep.Undecided("load", err.Error(), 0)
		rep.End()
	} else {
		runRules(*prop, p, rep, *only)
	}
	extra := map[string]interface{}{}
	if p != nil {
		extra["packages_loaded"] = len(p.Roots)
		extra["repo_functions"] = len(p.RepoFns)
		extra["load_s"] = loadS
		if len(p.Renames) > 0 {
			extra["renamed_anchors"] = p.Renames
			for _, m := range p.Renames {
				fmt.Println("NOTE: " + m)
			}
		}
	}
	if *tier == "thorough" && err == nil {
		extra["variants"] = runVariants(*prop, *repo, *variants, rep)
	}
	if *list {
		for _, o := range rep.Obs {
			fmt.Printf("%-13s %s  [%s] %s\n", o.Status, o.Key, o.Pos, o.Detail)
		}
	}
	code := rep.Finish(*tier, seed, time.Since(t0).Seconds(), *known, *evid, *replay, extra)
	os.Exit(code)
}

func propIDs() []string {
	var ids []string
	for k := range registry {
		ids = append(ids, k)
	}
	sort.Strings(ids)
	return ids
}

func runRules(prop string, p *Program, rep *Report, only string) {
	for _, rule := range registry[prop] {
		if only != "" && !strings.HasPrefix(rule.Name, only) {
			continue
		}
		func() {
			defer func() {
				if e := recover(); e != nil {
					if rep.cur == "" {
						rep.Begin(rule.Name, "(rule aborted)", 0)
					}
					st := string(debug.Stack())
					if len(st) > 1500 {
						st = st[:1500]
					}
					rep.Undecided("tool-panic", fmt.Sprintf("rule %s panicked: %v\n%s", rule.Name, e, st), 0)
					rep.End()
				}
			}()
			rule.Fn(p, rep)
		}()
	}
}

func readVariants(dir, prop string) ([]Variant, error) {
	b, err := os.ReadFile(filepath.Join(dir, prop+".json"))
	if err != nil {
		if os.IsNotExist(err) {
			return nil, nil
		}
		return nil, err
	}
	var vs []Variant
	if err := json.Unmarshal(b, &vs); err != nil {
		return nil, err
	}
	return vs, nil
}

// runOneVariant is the child process: load with overlay, run rules, print JSON of violated keys.
func runOneVariant(prop, repo, dir, name string) int {
	vs, err := readVariants(dir, prop)
	if err != nil {
		fmt.Println(err)
		return 2
	}
	for _, v := range vs {
		if v.Name != name {
			continue
		}
		path := filepath.Join(repo, v.File)
		src, err := os.ReadFile(path)
		if err != nil {
			fmt.Println(`{"stale":"file missing"}`)
			return 0
		}
		re, err := regexp.Compile(v.Find)
		if err != nil {
			fmt.Println(err)
			return 2
		}
		if n := len(re.FindAllIndex(src, -1)); n != 1 {
			fmt.Printf(`{"stale":"anchor matches %d times"}`+"\n", n)
			return 0
		}
		edited := re.ReplaceAll(src, []byte(v.Replace))
		p, err := Load(repo, map[string][]byte{path: edited})
		if err != nil {
			b, _ := json.Marshal(map[string]string{"loaderr": err.Error()})
			fmt.Println(string(b))
			return 0
		}
		rep := NewReport(prop, p)
		runRules(prop, p, rep, "")
		var keys []string
		for _, o := range rep.Obs {
			if o.Status == StViol {
				keys = append(keys, o.Key)
			}
		}
		sort.Strings(keys)
		b, _ := json.Marshal(map[string]interface{}{"violations": keys})
		fmt.Println(string(b))
		return 0
	}
	fmt.Println("no such variant")
	return 2
}

// runVariants runs every seeded variant of the property in a child process and checks that the expected
// obligation (and it alone, relative to the unmodified tree) turns into a violation.
func runVariants(prop, repo, dir string, rep *Report) []map[string]interface{} {
	vs, err := readVariants(dir, prop)
	rep.Begin("selftest", "each seeded fault (in-memory overlay of one source edit, nothing written) turns exactly the expected obligation into a violation", 0)
	defer rep.End()
	if err != nil {
		rep.Undecided("variants", err.Error(), 0)
		return nil
	}
	base := map[string]bool{}
	for _, o := range rep.Obs {
		if o.Status == StViol {
			base[o.Key] = true
		}
	}
	self, _ := os.Executable()
	var out []map[string]interface{}
	type childRes struct {
		b   []byte
		err error
	}
	results := make([]childRes, len(vs))
	sem := make(chan struct{}, 4)
	done := make(chan int, len(vs))
	for i, v := range vs {
		go func(i int, v Variant) {
			sem <- struct{}{}
			cmd := exec.Command(self, "-prop", prop, "-repo", repo, "-variants", dir, "-variant", v.Name)
			cmd.Env = os.Environ()
			b, err := cmd.Output()
			results[i] = childRes{b, err}
			<-sem
			done <- i
		}(i, v)
	}
	for range vs {
		<-done
	}
	for i, v := range vs {
		b, err := results[i].b, results[i].err
		res := map[string]interface{}{"name": v.Name, "file": v.File, "expect": v.Expect, "why": v.Why}
		if err != nil {
			res["status"] = "error: " + err.Error()
			rep.Info("variant-error:"+v.Name, "child failed: "+err.Error()+" "+string(b), 0)
			out = append(out, res)
			continue
		}
		var r struct {
			Stale      string   `json:"stale"`
			LoadErr    string   `json:"loaderr"`
			Violations []string `json:"violations"`
		}
		lines := strings.Split(strings.TrimSpace(string(b)), "\n")
		_ = json.Unmarshal([]byte(lines[len(lines)-1]), &r)
		switch {
		case r.Stale != "":
			res["status"] = "stale: " + r.Stale
			rep.Info("variant:"+v.Name, "stale (source moved; not a property failure): "+r.Stale, 0)
		case r.LoadErr != "":
			res["status"] = "does-not-compile"
			rep.Info("variant:"+v.Name, "variant no longer type-checks: "+r.LoadErr, 0)
		default:
			var newKeys []string
			hit := false
			for _, k := range r.Violations {
				if !base[k] {
					newKeys = append(newKeys, k)
					if strings.Contains(k, v.Expect) {
						hit = true
					}
				}
			}
			res["new_violations"] = newKeys
			if hit {
				res["status"] = "detected"
				rep.OK("variant:"+v.Name, fmt.Sprintf("seeded fault detected: %v", newKeys), 0)
			} else {
				res["status"] = "MISSED"
				// a blind spot of the checker is not a violation of the property on this tree: reported, not failed
				fmt.Printf("SELFTEST-MISSED property=%s variant=%s expect=%s got=%v\n", prop, v.Name, v.Expect, newKeys)
				rep.Info("variant-missed:"+v.Name, fmt.Sprintf("seeded fault %q (%s) did not produce a violation containing %q; got %v", v.Name, v.Why, v.Expect, newKeys), 0)
			}
		}
		out = append(out, res)
	}
	return out
}

// cross-property registrations: a rule that is a necessary condition of several properties runs under each of them
// (obligation keys carry the property id, so known findings are listed per property).
func init() {
	register("C01", Rule{"R03a", ruleNoWriteThrough})
	register("C02", Rule{"R03a", ruleNoWriteThrough}, Rule{"R01d", ruleRowsMixing})
	register("C04", Rule{"R03a", ruleNoWriteThrough}, Rule{"R01d", ruleRowsMixing})
	register("C05", Rule{"R03a", ruleNoWriteThrough})
	register("C07", Rule{"R06d", ruleComparatorProvenance}, Rule{"R02e", ruleLayoutIndependentHash})
	register("C12", Rule{"R07b", ruleOrderedOutput})
	register("C02", Rule{"R06f", ruleOrderedNamesCache})
	register("C09", Rule{"S18d", ruleScopeThreading})
	register("C12", Rule{"R13c", ruleCheckedNarrowing})
	register("C10", Rule{"R17d", ruleMapMissDeref}, Rule{"R17e", ruleActorRecover}, Rule{"R16d", ruleReentrantWait}, Rule{"R17a", ruleActorNoSelfComm})
}
