package main

import (
	"fmt"
	"go/ast"
	"go/constant"
	"go/token"
	"go/types"
	"regexp/syntax"
	"sort"
	"strings"

	"golang.org/x/tools/go/ssa"
)

func init() {
	register("C12", Rule{"R12a", ruleEscapeTables}, Rule{"R12b", ruleFieldCoverage}, Rule{"R12c", ruleIdentAgreement})
}

func runeConst(info *types.Info, e ast.Expr) (rune, bool) {
	tv, ok := info.Types[e]
	if !ok || tv.Value == nil || tv.Value.Kind() != constant.Int {
		return 0, false
	}
	v, ok := constant.Int64Val(tv.Value)
	return rune(v), ok
}

func ruleEscapeTables(p *Program, r *Report) {
	r.Begin("R12a", "escape tables agree: for every control character the printer (rel.reprEscapes) writes as a backslash letter, the reader (the escape switch of syntax.parseArraiStringFragment) maps that letter back to the same character; the reader also has cases for the backslash itself, both quote delimiters the printer uses, and \\x (the printer's fallback form)", 12)
	defer r.End()
	rpk, spk := p.PkgSyntax("rel"), p.PkgSyntax("syntax")
	if rpk == nil || spk == nil {
		r.Undecided("anchor", "packages rel / syntax not loaded", 0)
		return
	}
	// writer table
	writer := map[rune]string{}
	var wpos token.Pos
	obj := rpk.Types.Scope().Lookup("reprEscapes")
	for _, f := range rpk.Syntax {
		ast.Inspect(f, func(n ast.Node) bool {
			vs, ok := n.(*ast.ValueSpec)
			if !ok {
				return true
			}
			for i, nm := range vs.Names {
				if rpk.TypesInfo.Defs[nm] != obj || i >= len(vs.Values) {
					continue
				}
				wpos = vs.Pos()
				ast.Inspect(vs.Values[i], func(m ast.Node) bool {
					as, ok := m.(*ast.AssignStmt)
					if !ok || len(as.Lhs) != 1 || len(as.Rhs) != 1 {
						return true
					}
					ix, ok := as.Lhs[0].(*ast.IndexExpr)
					if !ok {
						return true
					}
					cp, ok := runeConst(rpk.TypesInfo, ix.Index)
					if !ok {
						return true
					}
					// []byte(`\a`)
					var lit string
					ast.Inspect(as.Rhs[0], func(k ast.Node) bool {
						if bl, ok := k.(*ast.BasicLit); ok {
							if s, ok := ConstString(rpk.TypesInfo, bl); ok {
								lit = s
							}
						}
						return true
					})
					if lit != "" {
						writer[cp] = lit
					}
					return true
				})
			}
			return true
		})
	}
	if len(writer) < 4 {
		r.Undecided("writer", fmt.Sprintf("only %d entries of rel.reprEscapes recognised", len(writer)), wpos)
		return
	}
	// reader table: the switch on s[i] inside parseArraiStringFragment
	reader := map[rune]rune{}
	readerCases := map[rune]bool{}
	var rpos token.Pos
	FuncDecls(spk, func(fd *ast.FuncDecl) {
		if fd.Name.Name != "parseArraiStringFragment" {
			return
		}
		rpos = fd.Pos()
		ast.Inspect(fd.Body, func(n ast.Node) bool {
			sw, ok := n.(*ast.SwitchStmt)
			if !ok || sw.Tag == nil {
				return true
			}
			if _, isIdx := sw.Tag.(*ast.IndexExpr); !isIdx {
				return true
			}
			for _, st := range sw.Body.List {
				cc := st.(*ast.CaseClause)
				for _, e := range cc.List {
					letter, ok := runeConst(spk.TypesInfo, e)
					if !ok {
						continue
					}
					readerCases[letter] = true
					// body: sb.WriteByte(<const>)
					if len(cc.Body) == 1 {
						if es, ok := cc.Body[0].(*ast.ExprStmt); ok {
							if call, ok := es.X.(*ast.CallExpr); ok && len(call.Args) == 1 {
								if sel, ok := call.Fun.(*ast.SelectorExpr); ok && (sel.Sel.Name == "WriteByte" || sel.Sel.Name == "WriteRune") {
									if v, ok := runeConst(spk.TypesInfo, call.Args[0]); ok {
										reader[letter] = v
									}
								}
							}
						}
					}
				}
			}
			return true
		})
		// the same table written as data instead of cases:
		//  (a) two parallel constant strings, `k := strings.IndexByte(letters, c)` … `values[k]`
		//  (b) a map literal with constant keys and values, indexed in this function
		idxOf := map[types.Object]string{} // k -> letters
		ast.Inspect(fd.Body, func(n ast.Node) bool {
			as, ok := n.(*ast.AssignStmt)
			if !ok || len(as.Lhs) != 1 || len(as.Rhs) != 1 {
				return true
			}
			call, ok := as.Rhs[0].(*ast.CallExpr)
			if !ok || len(call.Args) != 2 {
				return true
			}
			sel, ok := call.Fun.(*ast.SelectorExpr)
			if !ok || !(sel.Sel.Name == "IndexByte" || sel.Sel.Name == "IndexRune") {
				return true
			}
			letters, ok := ConstString(spk.TypesInfo, call.Args[0])
			if !ok {
				return true
			}
			if id, ok := as.Lhs[0].(*ast.Ident); ok {
				if o := spk.TypesInfo.ObjectOf(id); o != nil {
					idxOf[o] = letters
				}
			}
			return true
		})
		ast.Inspect(fd.Body, func(n ast.Node) bool {
			ix, ok := n.(*ast.IndexExpr)
			if !ok {
				return true
			}
			if id, ok := ix.Index.(*ast.Ident); ok {
				if letters, ok := idxOf[spk.TypesInfo.ObjectOf(id)]; ok {
					if values, ok := ConstString(spk.TypesInfo, ix.X); ok {
						for i := 0; i < len(letters) && i < len(values); i++ {
							readerCases[rune(letters[i])] = true
							reader[rune(letters[i])] = rune(values[i])
						}
						if len(letters) != len(values) {
							r.Undecided("reader-tables", fmt.Sprintf("the parallel escape tables have different lengths (%d letters, %d values)", len(letters), len(values)), ix.Pos())
						}
					}
				}
				return true
			}
			// (b) m[c] where m is a variable initialised with a map literal
			id, ok := ix.X.(*ast.Ident)
			if !ok {
				return true
			}
			obj := spk.TypesInfo.ObjectOf(id)
			if obj == nil {
				return true
			}
			if _, isMap := obj.Type().Underlying().(*types.Map); !isMap {
				return true
			}
			for _, f := range spk.Syntax {
				ast.Inspect(f, func(m ast.Node) bool {
					var lhs []ast.Expr
					var rhs []ast.Expr
					switch d := m.(type) {
					case *ast.ValueSpec:
						for _, nm := range d.Names {
							lhs = append(lhs, nm)
						}
						rhs = d.Values
					case *ast.AssignStmt:
						lhs, rhs = d.Lhs, d.Rhs
					default:
						return true
					}
					for i, l := range lhs {
						li, ok := l.(*ast.Ident)
						if !ok || i >= len(rhs) || spk.TypesInfo.ObjectOf(li) != obj {
							continue
						}
						if cl, ok := rhs[i].(*ast.CompositeLit); ok {
							for _, el := range cl.Elts {
								if kv, ok := el.(*ast.KeyValueExpr); ok {
									k, ok1 := runeConst(spk.TypesInfo, kv.Key)
									v, ok2 := runeConst(spk.TypesInfo, kv.Value)
									if ok1 && ok2 {
										readerCases[k] = true
										reader[k] = v
									}
								}
							}
						}
					}
					return true
				})
			}
			return true
		})
	})
	if len(readerCases) < 8 {
		r.Undecided("reader", fmt.Sprintf("only %d cases of the escape switch recognised", len(readerCases)), rpos)
		return
	}
	var cps []int
	for cp := range writer {
		cps = append(cps, int(cp))
	}
	sort.Ints(cps)
	for _, c := range cps {
		cp := rune(c)
		lit := writer[cp]
		key := fmt.Sprintf("escape@0x%02x", cp)
		if len(lit) != 2 || lit[0] != '\\' {
			r.Undecided(key, fmt.Sprintf("printer writes %q: not a backslash-letter form", lit), wpos)
			continue
		}
		letter := rune(lit[1])
		back, ok := reader[letter]
		r.Check(ok && back == cp, key, fmt.Sprintf("printed as %s, read back as 0x%02x", lit, back), fmt.Sprintf("the printer writes character 0x%02x as %s but the reader maps \\%c to %s: a string containing it does not read back as itself", cp, lit, letter, func() string {
			if !ok {
				return "nothing (no such case)"
			}
			return fmt.Sprintf("0x%02x", back)
		}()), rpos)
	}
	for _, need := range []rune{'\\', '\'', '"', 'x'} {
		key := fmt.Sprintf("reader-case@%c", need)
		okc := readerCases[need]
		if okc && need != 'x' {
			okc = reader[need] == need
		}
		r.Check(okc, key, "reader handles it", fmt.Sprintf("the printer emits \\%c but the reader's escape switch has no (correct) case for it", need), rpos)
	}
}

// fieldsRead collects the fields of struct type T read in fn and (transitively) in module callees.
func fieldsRead(p *Program, fn *ssa.Function, T *types.Named, seen map[*ssa.Function]bool, out map[string]bool, depth int) {
	if fn == nil || seen[fn] || fn.Blocks == nil || depth > 6 {
		return
	}
	seen[fn] = true
	isT := func(t types.Type) bool {
		n, ok := Deref(t).(*types.Named)
		return ok && n.Obj() == T.Obj()
	}
	st := T.Underlying().(*types.Struct)
	ForEachInstr(fn, func(ins ssa.Instruction) {
		switch x := ins.(type) {
		case *ssa.FieldAddr:
			if isT(x.X.Type()) {
				out[st.Field(x.Field).Name()] = true
			}
		case *ssa.Field:
			if isT(x.X.Type()) {
				out[st.Field(x.Field).Name()] = true
			}
		case *ssa.BinOp:
			if (x.Op == token.EQL || x.Op == token.NEQ) && isT(x.X.Type()) && !types.IsInterface(x.X.Type()) {
				if _, isPtr := x.X.Type().Underlying().(*types.Pointer); !isPtr {
					for i := 0; i < st.NumFields(); i++ {
						out[st.Field(i).Name()] = true
					}
				}
			}
		case ssa.CallInstruction:
			cc := x.Common()
			if c := cc.StaticCallee(); c != nil {
				if InRepo(c) {
					fieldsRead(p, c, T, seen, out, depth+1)
				}
			} else if cc.IsInvoke() {
				if m := p.MethodOf(T, cc.Method.Name()); m != nil {
					// an interface call that may land on T itself (e.g. s.Enumerator() via Set)
					if types.Implements(T, cc.Value.Type().Underlying().(*types.Interface)) || types.Implements(types.NewPointer(T), cc.Value.Type().Underlying().(*types.Interface)) {
						fieldsRead(p, m, T, seen, out, depth+1)
					}
				}
			}
		case *ssa.MakeClosure:
			fieldsRead(p, x.Fn.(*ssa.Function), T, seen, out, depth+1)
		}
	})
}

func ruleFieldCoverage(p *Program, r *Report) {
	r.Begin("R12b", "field coverage: for every value type, each representation field that its Equal reads (transitively; a whole-struct == reads all fields) is also read by its Format/String — otherwise two values that Equal distinguishes print identically and the printed form cannot read back as the original; fields derived from the others (element counts) are exempt by a declared table", 15)
	defer r.End()
	derived := map[string]string{
		"Array.count":  "number of non-nil items, recomputed from values by every constructor",
		"String.holes": "number of negative runes in s, recomputed by every constructor",
	}
	for _, t := range p.ValueTypes() {
		n, ok := Deref(t).(*types.Named)
		if !ok {
			continue
		}
		if _, isStruct := n.Underlying().(*types.Struct); !isStruct {
			continue
		}
		eqM := p.MethodOf(t, "Equal")
		fmM := p.MethodOf(t, "Format")
		if fmM == nil {
			fmM = p.MethodOf(t, "String")
		}
		if eqM == nil || fmM == nil {
			continue
		}
		r.Fn(FnName(eqM))
		r.Fn(FnName(fmM))
		eq, fm := map[string]bool{}, map[string]bool{}
		fieldsRead(p, eqM, n, map[*ssa.Function]bool{}, eq, 0)
		fieldsRead(p, fmM, n, map[*ssa.Function]bool{}, fm, 0)
		if sm := p.MethodOf(t, "String"); sm != nil {
			fieldsRead(p, sm, n, map[*ssa.Function]bool{}, fm, 0)
		}
		name := shortT(n)
		var miss []string
		for f := range eq {
			if !fm[f] {
				if _, isDerived := derived[name+"."+f]; isDerived {
					continue
				}
				// sync / cache fields are not representation
				miss = append(miss, f)
			}
		}
		sort.Strings(miss)
		if len(miss) == 0 {
			r.OK("coverage@"+name, fmt.Sprintf("Equal reads {%s} ⊆ Format reads {%s}", strings.Join(SortedKeys(eq), ","), strings.Join(SortedKeys(fm), ",")), eqM.Pos())
			continue
		}
		for _, f := range miss {
			r.Viol("coverage@"+name+"."+f, fmt.Sprintf("%s.Equal distinguishes values by field %s but %s never reads it: two unequal values print identically, so the printed form cannot evaluate back to the original", name, f, FnName(fmM)), fmM.Pos())
		}
	}
}

func ruleIdentAgreement(p *Program, r *Report) {
	r.Begin("R12c", "unquoted attribute names are identifiers of the grammar: the test by which the printer (rel.TupleNameRepr) decides to print a tuple attribute name without quotes accepts only what the grammar's IDENT rule accepts — when it is a regular expression its pattern is the plain-identifier alternative of IDENT; it must not classify characters with the unicode package (IDENT is ASCII-only)", 1)
	defer r.End()
	fn := p.Func("rel", "TupleNameRepr")
	if fn == nil {
		r.Undecided("anchor", "rel.TupleNameRepr not found", 0)
		return
	}
	r.Fn(FnName(fn))
	grammar, _ := grammarText(p, r)
	// the IDENT rule's plain alternative: last alternative of the IDENT regex
	identAlt := ""
	for _, line := range strings.Split(grammar, "\n") {
		t := strings.TrimSpace(line)
		if strings.HasPrefix(t, "IDENT") && strings.Contains(t, "->") {
			body := t[strings.Index(t, "/{")+2:]
			if i := strings.LastIndex(body, "}"); i > 0 {
				body = body[:i]
			}
			alts := strings.Split(body, " | ")
			identAlt = strings.ReplaceAll(strings.TrimSpace(alts[len(alts)-1]), " ", "")
		}
	}
	if identAlt == "" {
		r.Undecided("grammar-ident", "IDENT rule not found in the grammar", 0)
		return
	}
	// does the function (or a helper it calls, one level) use a regexp global, or unicode.Is*?
	usesUnicode := ""
	var reGlobals []*ssa.Global
	var scan func(f *ssa.Function, depth int)
	scan = func(f *ssa.Function, depth int) {
		ForEachInstr(f, func(ins ssa.Instruction) {
			switch x := ins.(type) {
			case *ssa.UnOp:
				if g, ok := x.X.(*ssa.Global); ok && strings.HasSuffix(g.Type().String(), "regexp.Regexp") {
					reGlobals = append(reGlobals, g)
				}
			case ssa.CallInstruction:
				if c := x.Common().StaticCallee(); c != nil {
					if strings.HasPrefix(c.String(), "unicode.Is") || c.String() == "unicode.In" {
						usesUnicode = c.String()
					}
					if InRepo(c) && depth < 1 && c != fn && !strings.Contains(c.Name(), "reprEscape") {
						scan(c, depth+1)
					}
				}
			}
		})
	}
	scan(fn, 0)
	if usesUnicode != "" {
		r.Viol("ident-test", fmt.Sprintf("TupleNameRepr decides whether a name needs quotes with %s, which accepts non-ASCII letters/digits; the grammar's IDENT accepts only %s, so a name such as 'é' is printed unquoted and the output no longer parses", usesUnicode, identAlt), fn.Pos())
		return
	}
	if len(reGlobals) == 0 {
		r.Info("ident-test", "the unquoted-name test is neither a regular expression nor unicode-based: not decided", fn.Pos())
		r.OK("ident-test-no-unicode", "no unicode classification in the unquoted-name test", fn.Pos())
		return
	}
	// pattern of the regexp global: constant string argument(s) of regexp.MustCompile in the package initialiser
	pat := ""
	if init := p.Func("rel", "init"); init != nil {
		ForEachInstr(init, func(ins ssa.Instruction) {
			st, ok := ins.(*ssa.Store)
			if !ok || st.Addr != ssa.Value(reGlobals[0]) {
				return
			}
			DependsOn(st.Val, func(v ssa.Value) bool {
				switch x := v.(type) {
				case *ssa.Const:
					if x.Value != nil && x.Value.Kind() == constant.String {
						pat = constant.StringVal(x.Value) + pat
					}
				case *ssa.UnOp:
					if g, ok := x.X.(*ssa.Global); ok {
						// a string variable initialised with a constant
						ForEachInstr(init, func(i2 ssa.Instruction) {
							if s2, ok := i2.(*ssa.Store); ok && s2.Addr == ssa.Value(g) {
								if k, ok := s2.Val.(*ssa.Const); ok && k.Value != nil && k.Value.Kind() == constant.String {
									pat += constant.StringVal(k.Value)
								}
							}
						})
					}
				}
				return false
			})
		})
	}
	norm := strings.NewReplacer(`\A`, "", `\z`, "", "(", "", ")", "").Replace(pat)
	r.Check(strings.Contains(norm, identAlt) && len(norm) <= len(identAlt)+2, "ident-test", "the printer's identifier pattern is the grammar's IDENT alternative "+identAlt, fmt.Sprintf("the printer prints names matching %q unquoted but the grammar's identifiers are %q", pat, identAlt), fn.Pos())
}

// globalRegexPattern: the constant pattern a package-level *regexp.Regexp of package rel is compiled from.
func globalRegexPattern(p *Program, g *ssa.Global) string {
	pat := ""
	init := p.Func("rel", "init")
	if init == nil {
		return ""
	}
	ForEachInstr(init, func(ins ssa.Instruction) {
		st, ok := ins.(*ssa.Store)
		if !ok || st.Addr != ssa.Value(g) {
			return
		}
		DependsOn(st.Val, func(v ssa.Value) bool {
			if k, ok := v.(*ssa.Const); ok && k.Value != nil && k.Value.Kind() == constant.String {
				pat = constant.StringVal(k.Value) + pat
			}
			return false
		})
	})
	return pat
}

// R12d: a byte array is printed as quoted text only when every byte is one ASCII character.  Bytes.Format chooses
// between `<<'text'>>` and `<<1, 2, 3>>` with a regular expression matched against the raw bytes; the text path
// then writes the bytes through the *rune*-wise string escaper.  That is the identity only for single-byte
// characters: a byte ≥ 0x80 that is not well-formed UTF-8 is decoded as U+FFFD by both the matcher and the
// escaper and comes back as three different bytes.  So the pattern's language must be within [\x00-\x7f]*.
func ruleBytesTextPathASCII(p *Program, r *Report) {
	r.Begin("R12d", "byte arrays print as text only when ASCII: the regular expression by which (rel.Bytes).Format selects the quoted-text form matches ASCII characters only (every character class of the pattern lies within \\x00-\\x7f), because the text form is written by the rune-wise escaper and is the identity only for single-byte characters", 1)
	defer r.End()
	fn := p.Method("rel", "Bytes", "Format")
	if fn == nil {
		r.Undecided("anchor", "(rel.Bytes).Format not found", 0)
		return
	}
	r.Fn(FnName(fn))
	var gs []*ssa.Global
	for _, f := range append([]*ssa.Function{fn}, Closures(fn)...) {
		ForEachInstr(f, func(ins ssa.Instruction) {
			if ld, ok := ins.(*ssa.UnOp); ok {
				if g, ok := ld.X.(*ssa.Global); ok && strings.HasSuffix(g.Type().String(), "regexp.Regexp") {
					gs = append(gs, g)
				}
			}
		})
	}
	if len(gs) == 0 {
		r.Info("text-path", "Bytes.Format selects its form without a regular expression: not decided", fn.Pos())
		return
	}
	for _, g := range gs {
		pat := globalRegexPattern(p, g)
		key := "ascii-only@" + g.Name()
		if pat == "" {
			r.Undecided(key, "pattern of "+g.Name()+" is not a constant", g.Pos())
			continue
		}
		re, err := syntax.Parse(pat, syntax.Perl)
		if err != nil {
			r.Undecided(key, "pattern does not parse: "+err.Error(), g.Pos())
			continue
		}
		worst := rune(-1)
		var walk func(x *syntax.Regexp)
		walk = func(x *syntax.Regexp) {
			switch x.Op {
			case syntax.OpCharClass:
				for i := 1; i < len(x.Rune); i += 2 {
					if x.Rune[i] > worst {
						worst = x.Rune[i]
					}
				}
			case syntax.OpLiteral:
				for _, c := range x.Rune {
					if c > worst {
						worst = c
					}
				}
			case syntax.OpAnyChar, syntax.OpAnyCharNotNL:
				worst = 0x10ffff
			}
			for _, s := range x.Sub {
				walk(s)
			}
		}
		walk(re)
		r.Check(worst <= 0x7f, key, "every character the pattern accepts is ASCII", fmt.Sprintf("the pattern %q by which Bytes.Format selects the quoted-text form accepts characters up to U+%04X: a byte array holding bytes ≥ 0x80 that are not well-formed UTF-8 (Latin-1 text, a lone 0xff) is matched as U+FFFD, printed as '\\ufffd…' and read back as different bytes", pat, worst), g.Pos())
	}
}

func init() { register("C12", Rule{"R12d", ruleBytesTextPathASCII}) }

// R12e: the heading form of a relation is written only for names the heading rule can read.  The grammar's
// `{|a, b| …}` heading accepts identifiers only (no quoted names).  Relation.Format may therefore write the bar
// form only under a test that every name is an identifier — the same regular expression TupleNameRepr tests — and
// must not put names through a quoting function inside the bars.
func ruleHeadingOnlyIdentifiers(p *Program, r *Report) {
	r.Begin("R12e", "relation headings: in Relation.Format the write of the `|names|` heading is control-dependent on a match of the identifier pattern (the regexp TupleNameRepr uses), and the names written between the bars do not come out of a quoting function (TupleNameRepr, strconv.Quote, %q)", 2)
	defer r.End()
	fm := p.Method("rel", "Relation", "Format")
	tnr := p.Func("rel", "TupleNameRepr")
	if fm == nil || tnr == nil {
		r.Undecided("anchor", "rel.Relation.Format / rel.TupleNameRepr not found", 0)
		return
	}
	r.Fn(FnName(fm))
	// the identifier regexp: the regexp global TupleNameRepr loads
	var identG *ssa.Global
	ForEachInstr(tnr, func(ins ssa.Instruction) {
		if ld, ok := ins.(*ssa.UnOp); ok && ld.Op == token.MUL {
			if g, ok := ld.X.(*ssa.Global); ok && strings.HasSuffix(g.Type().String(), "regexp.Regexp") {
				identG = g
			}
		}
	})
	if identG == nil {
		r.Undecided("ident", "TupleNameRepr does not test a regexp global", tnr.Pos())
		return
	}
	var isIdentTestD func(x ssa.Value, depth int) bool
	isIdentTestD = func(x ssa.Value, depth int) bool {
		c, ok := x.(*ssa.Call)
		if !ok {
			return false
		}
		g := c.Call.StaticCallee()
		if g == nil {
			return false
		}
		if strings.Contains(g.String(), "regexp.Regexp).Match") && len(c.Call.Args) > 0 {
			if ld, ok := c.Call.Args[0].(*ssa.UnOp); ok && ld.X == ssa.Value(identG) {
				return true
			}
		}
		// a package-local predicate that applies the test (allIdentifiers(names))
		if depth < 2 && g.Pkg == fm.Pkg && g.Blocks != nil && g != tnr {
			found := false
			ForEachInstr(g, func(i2 ssa.Instruction) {
				if v, ok := i2.(ssa.Value); ok && isIdentTestD(v, depth+1) {
					found = true
				}
			})
			return found
		}
		return false
	}
	isIdentTest := func(x ssa.Value) bool { return isIdentTestD(x, 0) }
	var funcs []*ssa.Function
	allFuncs(fm, &funcs)
	// package-local helpers of the printer
	ForEachInstr(fm, func(ins ssa.Instruction) {
		if c, ok := ins.(*ssa.Call); ok {
			if g := c.Call.StaticCallee(); g != nil && g.Pkg == fm.Pkg && g.Blocks != nil && g != tnr && g.Signature.Recv() != nil {
				if nt, ok := Deref(g.Signature.Recv().Type()).(*types.Named); ok && nt.Obj().Name() == "Relation" && g.Name() != "projectionBasedOnNames" {
					allFuncs(g, &funcs)
				}
			}
		}
	})
	found := 0
	for _, fn := range funcs {
		pd := NewPostDom(fn)
		ForEachInstr(fn, func(ins ssa.Instruction) {
			c, ok := ins.(*ssa.Call)
			if !ok {
				return
			}
			// a write whose constant text contains the bar
			bar := false
			for _, a := range c.Call.Args {
				if k, ok := a.(*ssa.Const); ok && k.Value != nil && k.Value.Kind() == constant.String && strings.Contains(constant.StringVal(k.Value), "|") {
					bar = true
				}
			}
			if !bar {
				return
			}
			found++
			guarded := false
			for _, d := range pd.TransitiveControlDeps(c.Block()) {
				if cond := IfCond(d.Br); cond != nil && DependsOn(cond, isIdentTest) {
					guarded = true
				}
			}
			r.Check(guarded, fmt.Sprintf("heading-guard@%s~%d", FnName(fm), found), "bar form written only when every name matched the identifier pattern", fmt.Sprintf("%s writes the `|names|` heading without testing that the names are identifiers: a relation with an attribute such as 'a b' prints a heading the grammar cannot read back", FnName(fn)), c.Pos())
			quoted := ""
			for _, a := range c.Call.Args {
				DependsOn(a, func(x ssa.Value) bool {
					if cc, ok := x.(*ssa.Call); ok {
						nm := CalleeName(&cc.Call)
						if cc.Call.StaticCallee() == tnr || strings.HasPrefix(nm, "strconv.Quote") {
							quoted = nm
							return true
						}
					}
					return false
				})
			}
			r.Check(quoted == "", fmt.Sprintf("heading-raw@%s~%d", FnName(fm), found), "names between the bars are written as they are", fmt.Sprintf("%s writes heading names through %s: a name that is quoted there (`.`, `@{x}`, 'a b') is not an identifier token, and the heading rule accepts identifiers only — the printed relation does not parse", FnName(fn), quoted), c.Pos())
		})
	}
	if found == 0 {
		r.Undecided("heading", "no write of the bar form found in Relation.Format", fm.Pos())
	}
}

func init() { register("C12", Rule{"R12e", ruleHeadingOnlyIdentifiers}) }

// R12f: a field that distinguishes values is printed whenever it is not zero.  Printers omit a default (an offset of
// zero) — under a test `field != 0`.  An ordering test (`field > 0`) also omits the negative values, which Equal still
// distinguishes: two unequal values print alike and the printed form reads back as the wrong one.
func rulePrintedWheneverNonZero(p *Program, r *Report) {
	r.Begin("R12f", "printed whenever not the default: in the Format/String method of every value type, a write that depends on a field Equal reads and is control-dependent on a condition over that same field is guarded by an equality test (== / != a constant), never by an ordering test (<, >, <=, >=)", 2)
	defer r.End()
	n := 0
	for _, t := range p.ValueTypes() {
		nt, ok := Deref(t).(*types.Named)
		if !ok {
			continue
		}
		st, isStruct := nt.Underlying().(*types.Struct)
		if !isStruct {
			continue
		}
		eqM := p.MethodOf(t, "Equal")
		fmM := p.MethodOf(t, "Format")
		if fmM == nil {
			fmM = p.MethodOf(t, "String")
		}
		if eqM == nil || fmM == nil || fmM.Blocks == nil {
			continue
		}
		eq := map[string]bool{}
		fieldsRead(p, eqM, nt, map[*ssa.Function]bool{}, eq, 0)
		isFieldLoad := func(x ssa.Value, name string) bool {
			switch f := x.(type) {
			case *ssa.Field:
				if n2, ok := Deref(f.X.Type()).(*types.Named); ok && n2.Obj() == nt.Obj() {
					return st.Field(f.Field).Name() == name
				}
			case *ssa.UnOp:
				if fa, ok := f.X.(*ssa.FieldAddr); ok {
					if n2, ok := Deref(fa.X.Type()).(*types.Named); ok && n2.Obj() == nt.Obj() {
						return st.Field(fa.Field).Name() == name
					}
				}
			}
			return false
		}
		pd := NewPostDom(fmM)
		name := shortT(nt)
		for _, f := range SortedKeys(eq) {
			// writes that show the field
			ForEachInstr(fmM, func(ins ssa.Instruction) {
				c, ok := ins.(*ssa.Call)
				if !ok {
					return
				}
				shows := false
				for _, a := range c.Call.Args {
					if DependsOn(a, func(x ssa.Value) bool { return isFieldLoad(x, f) }) {
						shows = true
					}
				}
				if !shows {
					return
				}
				for _, d := range pd.TransitiveControlDeps(c.Block()) {
					cond := IfCond(d.Br)
					bo, isBin := cond.(*ssa.BinOp)
					if !isBin {
						continue
					}
					onField := DependsOn(bo.X, func(x ssa.Value) bool { return isFieldLoad(x, f) }) || DependsOn(bo.Y, func(x ssa.Value) bool { return isFieldLoad(x, f) })
					_, kx := bo.X.(*ssa.Const)
					_, ky := bo.Y.(*ssa.Const)
					if !onField || !(kx || ky) {
						continue
					}
					n++
					r.Fn(FnName(fmM))
					key := fmt.Sprintf("shown@%s.%s", name, f)
					switch bo.Op {
					case token.EQL, token.NEQ:
						r.OK(key, "omitted only when equal to the default", c.Pos())
					default:
						r.Viol(key, fmt.Sprintf("%s prints field %s only under the ordering test `%s`: values on the other side of the default (negative ones) print as if it were the default, but %s.Equal distinguishes them — what is printed reads back as a different value", FnName(fmM), f, bo.Op, name), c.Pos())
					}
				}
			})
		}
	}
	if n == 0 {
		r.Undecided("sites", "no conditionally printed field found (Array.offset and String.offset are expected)", 0)
	}
}

func init() { register("C12", Rule{"R12f", rulePrintedWheneverNonZero}) }
