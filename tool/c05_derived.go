package main

import (
	"fmt"
	"go/types"
	"sort"

	"golang.org/x/tools/go/ssa"
)

// R05e: derived count fields are set wherever the store is.  String, Array, Bytes … answer Count() from their fields; a
// value assembled by a composite literal that fills the slice-typed store but leaves an integer field Count reads at
// its zero value reports a count that disagrees with its members (`++` then shifts its right operand wrongly).
func ruleDerivedCountSet(p *Program, r *Report) {
	r.Begin("R05e", "derived count fields travel with the store: for every struct value type of package rel whose Count method reads, besides a slice-typed store field, integer fields of the receiver, each composite literal (local Alloc with field stores) that stores into the store field also stores into every such integer field — a literal that leaves one at zero makes Count() disagree with the members, and `++` offsets its right operand by that count", 3)
	defer r.End()
	pkg := p.Pkg("rel")
	if pkg == nil {
		r.Undecided("anchor", "package rel not found", 0)
		return
	}
	type spec struct {
		T      *types.Named
		store  []string
		counts []string
	}
	var specs []spec
	for _, mem := range pkg.Members {
		tn, ok := mem.(*ssa.Type)
		if !ok {
			continue
		}
		T, ok := tn.Type().(*types.Named)
		if !ok {
			continue
		}
		st, ok := T.Underlying().(*types.Struct)
		if !ok {
			continue
		}
		cnt := p.MethodOf(T, "Count")
		if cnt == nil || cnt.Blocks == nil {
			continue
		}
		read := map[string]bool{}
		// only the method's own body: what Count itself consults
		ForEachInstr(cnt, func(ins ssa.Instruction) {
			switch x := ins.(type) {
			case *ssa.FieldAddr:
				if n, ok := Deref(x.X.Type()).(*types.Named); ok && n.Obj() == T.Obj() {
					read[st.Field(x.Field).Name()] = true
				}
			case *ssa.Field:
				if n, ok := Deref(x.X.Type()).(*types.Named); ok && n.Obj() == T.Obj() {
					read[st.Field(x.Field).Name()] = true
				}
			}
		})
		var sp spec
		sp.T = T
		for i := 0; i < st.NumFields(); i++ {
			f := st.Field(i)
			if !read[f.Name()] {
				continue
			}
			switch u := f.Type().Underlying().(type) {
			case *types.Slice:
				sp.store = append(sp.store, f.Name())
			case *types.Basic:
				if u.Info()&types.IsInteger != 0 {
					sp.counts = append(sp.counts, f.Name())
				}
			}
		}
		if len(sp.store) > 0 && len(sp.counts) > 0 {
			specs = append(specs, sp)
		}
	}
	sort.Slice(specs, func(i, j int) bool { return specs[i].T.Obj().Name() < specs[j].T.Obj().Name() })
	if len(specs) == 0 {
		r.Undecided("anchor", "no rel value type whose Count reads a store and an integer field", 0)
		return
	}
	for _, sp := range specs {
		st := sp.T.Underlying().(*types.Struct)
		for _, fn := range p.RepoFns {
			perAlloc := map[*ssa.Alloc]map[string]bool{}
			var order []*ssa.Alloc
			ForEachInstr(fn, func(ins ssa.Instruction) {
				s, ok := ins.(*ssa.Store)
				if !ok {
					return
				}
				fa, ok := s.Addr.(*ssa.FieldAddr)
				if !ok {
					return
				}
				al, ok := fa.X.(*ssa.Alloc)
				if !ok {
					return
				}
				if n, ok := Deref(al.Type()).(*types.Named); !ok || n.Obj() != sp.T.Obj() {
					return
				}
				if perAlloc[al] == nil {
					perAlloc[al] = map[string]bool{}
					order = append(order, al)
				}
				perAlloc[al][st.Field(fa.Field).Name()] = true
			})
			for i, al := range order {
				set := perAlloc[al]
				hasStore := false
				for _, f := range sp.store {
					hasStore = hasStore || set[f]
				}
				if !hasStore {
					continue
				}
				r.Fn(FnName(fn))
				for _, c := range sp.counts {
					key := fmt.Sprintf("derived@%s#%s.%s#%d", FnName(fn), sp.T.Obj().Name(), c, i)
					r.Check(set[c], key, "the literal sets the count field with the store", fmt.Sprintf("%s builds a rel.%s by a literal that fills the store %v but leaves %s at zero: Count() (store length minus %s) then disagrees with the members", FnName(fn), sp.T.Obj().Name(), sp.store, c, c), al.Pos())
				}
			}
		}
	}
}

func init() {
	register("C05", Rule{"R05e", ruleDerivedCountSet})
	register("C01", Rule{"R05e", ruleDerivedCountSet})
}
