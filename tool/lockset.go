package main

// Guarded-by analysis (DESIGN.md §2.4): which mutex is held / which sync.Once has run at each instruction,
// and which cells (struct fields, package variables) are accessed where.

import (
	"fmt"
	"go/token"
	"go/types"
	"sort"
	"strings"

	"golang.org/x/tools/go/ssa"
)

// syncKind classifies a type as a synchronisation primitive.
func syncKind(t types.Type) string {
	switch Deref(t).String() {
	case "sync.Mutex", "sync.RWMutex":
		return "mutex"
	case "sync.Once":
		return "once"
	case "sync.Cond":
		return "cond"
	}
	return ""
}

// cellKeyOfAddr names the memory cell an address denotes: "T.f" for a struct field, "pkg.v" for a global.
func cellKeyOfAddr(v ssa.Value) (key string, base ssa.Value, ok bool) {
	switch x := v.(type) {
	case *ssa.FieldAddr:
		st := structOf(x.X.Type())
		if st == nil {
			return "", nil, false
		}
		return TypeName(Deref(x.X.Type())) + "." + st.Field(x.Field).Name(), x.X, true
	case *ssa.Global:
		if x.Pkg == nil {
			return "", nil, false
		}
		return Short(x.Pkg.Pkg.Path()) + "." + x.Name(), nil, true
	}
	return "", nil, false
}

// lockOp recognises calls on sync.Mutex / RWMutex / Once and returns (operation, lock key).
func lockOp(cc *ssa.CallCommon) (op, key string, ok bool) {
	callee := cc.StaticCallee()
	if callee == nil || len(cc.Args) == 0 {
		return "", "", false
	}
	full := callee.String()
	switch full {
	case "(*sync.Mutex).Lock", "(*sync.RWMutex).Lock":
		op = "lock"
	case "(*sync.RWMutex).RLock":
		op = "rlock"
	case "(*sync.Mutex).Unlock", "(*sync.RWMutex).Unlock", "(*sync.RWMutex).RUnlock":
		op = "unlock"
	case "(*sync.Once).Do":
		op = "do"
	case "(*sync.Cond).Wait":
		op = "wait"
	case "(*sync.Cond).Broadcast", "(*sync.Cond).Signal":
		op = "wake"
	default:
		return "", "", false
	}
	addr := cc.Args[0]
	if ld, isLoad := addr.(*ssa.UnOp); isLoad && ld.Op == token.MUL {
		addr = ld.X // *sync.Cond stored in a field: the key is the field
	}
	k, _, ok2 := cellKeyOfAddr(addr)
	if !ok2 {
		if lk := localLockKey(addr); lk != "" {
			return op, lk, true
		}
		return op, "?", true
	}
	return op, k, true
}

// localLockKey names a mutex that is a local variable (possibly captured by closures): "local:<function>.<name>".
func localLockKey(addr ssa.Value) string {
	v := addr
	for i := 0; i < 8; i++ {
		switch x := v.(type) {
		case *ssa.Alloc:
			if x.Parent() == nil {
				return ""
			}
			return "local:" + FnName(x.Parent()) + "." + x.Comment
		case *ssa.FreeVar:
			b := bindingOf(x)
			if b == nil {
				return ""
			}
			v = b
		default:
			return ""
		}
	}
	return ""
}

// heldLocks computes, for every instruction of fn, the set of lock keys certainly held (must analysis).
// Deferred unlocks keep the lock until the function returns.
func heldLocks(fn *ssa.Function) map[ssa.Instruction]map[string]bool {
	return heldLocksFrom(fn, entryLocks[fn])
}

// entryLocks: locks certainly held whenever a function is entered — the intersection, over every call site the
// module has for it (VTA), of the locks held at the site; only for unexported functions that are never started with
// `go`, never deferred and never escape as a value whose call sites are unknown.  Computed by computeEntryLocks.
var entryLocks = map[*ssa.Function]map[string]bool{}
var entryLocksFor *Program

func computeEntryLocks(p *Program) {
	if entryLocksFor == p {
		return
	}
	entryLocksFor = p
	entryLocks = map[*ssa.Function]map[string]bool{}
	cg := p.CG()
	type siteRef struct {
		caller *ssa.Function
		ins    ssa.Instruction
	}
	sites := map[*ssa.Function][]siteRef{}
	eligible := map[*ssa.Function]bool{}
	for _, fn := range p.RepoFns {
		if fn.Parent() != nil || fn.Blocks == nil {
			continue
		}
		name := fn.Name()
		if name == "" || (name[0] >= 'A' && name[0] <= 'Z') || name == "init" || name == "main" {
			continue
		}
		n := cg.Nodes[fn]
		if n == nil || len(n.In) == 0 {
			continue
		}
		ok := true
		for _, e := range n.In {
			if e.Site == nil || !InRepo(e.Caller.Func) {
				ok = false
				break
			}
			if _, isCall := e.Site.(*ssa.Call); !isCall {
				ok = false // go / defer: the lock state at the time it runs is not the state at the statement
				break
			}
			sites[fn] = append(sites[fn], siteRef{e.Caller.Func, e.Site})
		}
		if ok {
			eligible[fn] = true
		}
	}
	// start from "everything the callers hold at the first site", shrink to a fixpoint
	for fn := range eligible {
		entryLocks[fn] = nil // nil = top (not yet constrained)
	}
	top := map[*ssa.Function]bool{}
	for fn := range eligible {
		top[fn] = true
	}
	for round := 0; round < 8; round++ {
		changed := false
		cache := map[*ssa.Function]map[ssa.Instruction]map[string]bool{}
		heldAt := func(s siteRef) (map[string]bool, bool) {
			if top[s.caller] {
				return nil, false // caller itself unconstrained yet: skip this round
			}
			h, ok := cache[s.caller]
			if !ok {
				h = heldLocksFrom(s.caller, entryLocks[s.caller])
				cache[s.caller] = h
			}
			return h[s.ins], true
		}
		for fn := range eligible {
			var acc map[string]bool
			first := true
			known := false
			for _, s := range sites[fn] {
				h, ok := heldAt(s)
				if !ok {
					continue
				}
				known = true
				if first {
					acc = map[string]bool{}
					for k := range h {
						acc[k] = true
					}
					first = false
				} else {
					for k := range acc {
						if !h[k] {
							delete(acc, k)
						}
					}
				}
			}
			if !known {
				continue
			}
			if top[fn] || len(acc) != len(entryLocks[fn]) {
				top[fn] = false
				entryLocks[fn] = acc
				changed = true
			}
		}
		if !changed {
			break
		}
	}
	for fn := range top {
		if top[fn] {
			entryLocks[fn] = nil // only reachable from unconstrained cycles: assume nothing
		}
	}
}

func heldLocksFrom(fn *ssa.Function, entry map[string]bool) map[ssa.Instruction]map[string]bool {
	out := map[*ssa.BasicBlock]map[string]bool{}
	res := map[ssa.Instruction]map[string]bool{}
	clone := func(m map[string]bool) map[string]bool {
		c := map[string]bool{}
		for k := range m {
			c[k] = true
		}
		return c
	}
	for iter := 0; iter < 50; iter++ {
		changed := false
		for _, b := range fn.Blocks {
			var st map[string]bool
			first := true
			for _, p := range b.Preds {
				po, ok := out[p]
				if !ok {
					continue
				}
				if first {
					st = clone(po)
					first = false
				} else {
					for k := range st {
						if !po[k] {
							delete(st, k)
						}
					}
				}
			}
			if st == nil {
				st = map[string]bool{}
				if b.Index != 0 && first && len(b.Preds) > 0 {
					continue
				}
				if b.Index == 0 {
					for k := range entry {
						st[k] = true
					}
				}
			}
			for _, ins := range b.Instrs {
				res[ins] = clone(st)
				if c, ok := ins.(*ssa.Call); ok {
					if op, key, is := lockOp(&c.Call); is {
						switch op {
						case "lock":
							st[key] = true
							delete(st, sharedMark+key)
						case "rlock":
							// held, but only shared: readers may run concurrently (the mark survives a merge only
							// when every path holds the lock shared, so "exclusive" is never claimed wrongly as shared)
							st[key] = true
							st[sharedMark+key] = true
						case "unlock":
							delete(st, key)
							delete(st, sharedMark+key)
						}
					}
				}
			}
			if prev, ok := out[b]; !ok || len(prev) != len(st) || !subset(prev, st) {
				out[b] = st
				changed = true
			}
		}
		if !changed {
			break
		}
	}
	return res
}

// sharedMark prefixes the key of a lock that is held in read (shared) mode only.
const sharedMark = "shared:"

func subset(a, b map[string]bool) bool {
	for k := range a {
		if !b[k] {
			return false
		}
	}
	return true
}

// CellAccess is one access to a potentially guarded cell.
type CellAccess struct {
	Cell    string
	Kind    string // load | store | mapread | mapwrite
	Fn      *ssa.Function
	Ins     ssa.Instruction
	Held    map[string]bool
	InOnce  map[string]bool // once keys whose Do-closure (lexically) contains this instruction
	AfterDo map[string]bool // once keys whose Do call dominates this instruction in the same function
	Fresh   bool            // the base object was allocated in this function (constructor)
	InInit  bool
}

// GuardInfo is the result of scanning the module.
type GuardInfo struct {
	Accesses   []CellAccess
	SyncOwner  map[string][]string // struct type -> its sync field keys (mutex / once)
	GlobalSync map[string][]string // package -> global sync keys
	SyncKinds  map[string]string   // lock key -> mutex|once|cond
}

func scanGuards(p *Program) *GuardInfo {
	computeEntryLocks(p)
	gi := &GuardInfo{SyncOwner: map[string][]string{}, GlobalSync: map[string][]string{}, SyncKinds: map[string]string{}}
	// discover sync fields and globals
	for _, pk := range p.Roots {
		sp := p.SSA[pk.PkgPath]
		if sp == nil {
			continue
		}
		for _, m := range sp.Members {
			switch x := m.(type) {
			case *ssa.Type:
				st, ok := x.Type().Underlying().(*types.Struct)
				if !ok {
					continue
				}
				for i := 0; i < st.NumFields(); i++ {
					if k := syncKind(st.Field(i).Type()); k != "" {
						key := TypeName(x.Type()) + "." + st.Field(i).Name()
						gi.SyncOwner[TypeName(x.Type())] = append(gi.SyncOwner[TypeName(x.Type())], key)
						gi.SyncKinds[key] = k
					}
				}
			case *ssa.Global:
				if k := syncKind(Deref(x.Type())); k != "" {
					key := Short(pk.PkgPath) + "." + x.Name()
					gi.GlobalSync[Short(pk.PkgPath)] = append(gi.GlobalSync[Short(pk.PkgPath)], key)
					gi.SyncKinds[key] = k
				}
			}
		}
	}
	// once closures
	onceBody := map[*ssa.Function]string{}
	for _, fn := range p.RepoFns {
		ForEachInstr(fn, func(ins ssa.Instruction) {
			c, ok := ins.(*ssa.Call)
			if !ok {
				return
			}
			if op, key, is := lockOp(&c.Call); is && op == "do" && len(c.Call.Args) == 2 {
				for _, f := range FuncValueTargets(c.Call.Args[1]) {
					onceBody[f] = key
				}
			}
		})
	}
	for _, fn := range p.RepoFns {
		held := heldLocks(fn)
		inOnce := map[string]bool{}
		for f := fn; f != nil; f = f.Parent() {
			if k, ok := onceBody[f]; ok {
				inOnce[k] = true
			}
		}
		// Do calls in this function
		type doCall struct {
			ins *ssa.Call
			key string
		}
		var dos []doCall
		ForEachInstr(fn, func(ins ssa.Instruction) {
			if c, ok := ins.(*ssa.Call); ok {
				if op, key, is := lockOp(&c.Call); is && op == "do" {
					dos = append(dos, doCall{c, key})
				}
			}
		})
		isInit := fn.Name() == "init" || strings.HasPrefix(fn.Name(), "init#")
		add := func(cell, kind string, ins ssa.Instruction, base ssa.Value) {
			after := map[string]bool{}
			for _, d := range dos {
				if InstrDominates(d.ins, ins) {
					after[d.key] = true
				}
			}
			fresh := false
			if base != nil {
				b := base
				for i := 0; i < 4; i++ {
					if u, ok := b.(*ssa.UnOp); ok {
						b = u.X
						continue
					}
					break
				}
				if al, ok := b.(*ssa.Alloc); ok {
					// a struct allocated here (composite literal / new), not a spilled parameter
					if _, isParam := paramCell(al); !isParam {
						fresh = true
					}
				}
			}
			gi.Accesses = append(gi.Accesses, CellAccess{Cell: cell, Kind: kind, Fn: fn, Ins: ins, Held: held[ins], InOnce: inOnce, AfterDo: after, Fresh: fresh, InInit: isInit})
		}
		ForEachInstr(fn, func(ins ssa.Instruction) {
			switch x := ins.(type) {
			case *ssa.Store:
				if k, base, ok := cellKeyOfAddr(x.Addr); ok {
					add(k, "store", ins, base)
				}
			case *ssa.UnOp:
				if x.Op == token.MUL {
					if k, base, ok := cellKeyOfAddr(x.X); ok {
						add(k, "load", ins, base)
					}
				}
			case *ssa.Field:
				if st := structOf(x.X.Type()); st != nil {
					add(TypeName(x.X.Type())+"."+st.Field(x.Field).Name(), "load", ins, nil)
				}
			case *ssa.MapUpdate:
				if ld, ok := x.Map.(*ssa.UnOp); ok {
					if k, base, ok := cellKeyOfAddr(ld.X); ok {
						add(k, "mapwrite", ins, base)
					}
				}
			case *ssa.Lookup:
				if ld, ok := x.X.(*ssa.UnOp); ok {
					if k, base, ok := cellKeyOfAddr(ld.X); ok {
						add(k, "mapread", ins, base)
					}
				}
			case *ssa.Call:
				if b, ok := x.Call.Value.(*ssa.Builtin); ok && b.Name() == "delete" {
					if ld, ok := x.Call.Args[0].(*ssa.UnOp); ok {
						if k, base, ok := cellKeyOfAddr(ld.X); ok {
							add(k, "mapwrite", ins, base)
						}
					}
				}
			}
		})
	}
	return gi
}

func setStr(m map[string]bool) string {
	var ks []string
	for k := range m {
		ks = append(ks, k)
	}
	sort.Strings(ks)
	return fmt.Sprint(ks)
}
