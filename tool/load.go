package main

import (
	_ "embed"
	"encoding/json"
	"fmt"
	"go/ast"
	"go/token"
	"go/types"
	"os"
	"sort"
	"strings"

	"golang.org/x/tools/go/callgraph"
	"golang.org/x/tools/go/callgraph/cha"
	"golang.org/x/tools/go/callgraph/vta"
	"golang.org/x/tools/go/packages"
	"golang.org/x/tools/go/ssa"
	"golang.org/x/tools/go/ssa/ssautil"
)

// Mod is the module path of the analysed repository.
const Mod = "github.com/arr-ai/arrai"

// Program is the resolved program all rules work on.
type Program struct {
	Dir       string
	Fset      *token.FileSet
	Roots     []*packages.Package // packages of module Mod, sorted by path
	PkgByPath map[string]*packages.Package
	Prog      *ssa.Program
	SSA       map[string]*ssa.Package
	AllFns    map[*ssa.Function]bool
	RepoFns   []*ssa.Function // functions (incl. anonymous and instantiations) belonging to module Mod, with bodies
	cg        *callgraph.Graph
	cgIndex   map[ssa.CallInstruction][]*ssa.Function
	fileOf    map[string]*ast.File
	sccp      *SCCP
	own       *Own
	Renames   []string // anchors located by signature after a rename (see Func)
}

// Load type-checks and builds SSA for every package of the module under dir.
// overlay maps absolute file names to replacement contents (used by seeded variants).
func Load(dir string, overlay map[string][]byte) (*Program, error) {
	cfg := &packages.Config{
		Mode:    packages.LoadAllSyntax,
		Dir:     dir,
		Tests:   false,
		Overlay: overlay,
		Env:     append(os.Environ(), "GOFLAGS=-mod=mod", "GOPROXY=off", "GOWORK=off"),
	}
	pkgs, err := packages.Load(cfg, "./...")
	if err != nil {
		return nil, fmt.Errorf("packages.Load: %w", err)
	}
	if len(pkgs) == 0 {
		return nil, fmt.Errorf("no packages loaded from %s", dir)
	}
	var errs []string
	packages.Visit(pkgs, nil, func(p *packages.Package) {
		for _, e := range p.Errors {
			errs = append(errs, e.Error())
		}
	})
	if len(errs) > 0 {
		sort.Strings(errs)
		if len(errs) > 10 {
			errs = errs[:10]
		}
		return nil, fmt.Errorf("type-check/load errors (%d): %s", len(errs), strings.Join(errs, "; "))
	}
	p := &Program{Dir: dir, PkgByPath: map[string]*packages.Package{}, SSA: map[string]*ssa.Package{}, fileOf: map[string]*ast.File{}}
	packages.Visit(pkgs, nil, func(pk *packages.Package) {
		p.PkgByPath[pk.PkgPath] = pk
	})
	for _, pk := range pkgs {
		if strings.HasPrefix(pk.PkgPath, Mod) {
			p.Roots = append(p.Roots, pk)
		}
	}
	sort.Slice(p.Roots, func(i, j int) bool { return p.Roots[i].PkgPath < p.Roots[j].PkgPath })
	if len(p.Roots) < 15 {
		return nil, fmt.Errorf("only %d packages of %s loaded (expected >= 15)", len(p.Roots), Mod)
	}
	p.Fset = pkgs[0].Fset
	prog, _ := ssautil.AllPackages(pkgs, ssa.InstantiateGenerics)
	prog.Build()
	p.Prog = prog
	for _, sp := range prog.AllPackages() {
		p.SSA[sp.Pkg.Path()] = sp
	}
	p.AllFns = ssautil.AllFunctions(prog)
	for f := range p.AllFns {
		if f.Blocks != nil && InRepo(f) {
			p.RepoFns = append(p.RepoFns, f)
		}
	}
	sort.Slice(p.RepoFns, func(i, j int) bool {
		a, b := p.RepoFns[i], p.RepoFns[j]
		if a.String() != b.String() {
			return a.String() < b.String()
		}
		return a.Pos() < b.Pos()
	})
	for _, pk := range p.Roots {
		for i, f := range pk.Syntax {
			if i < len(pk.CompiledGoFiles) {
				p.fileOf[pk.CompiledGoFiles[i]] = f
			}
		}
	}
	return p, nil
}

// PkgPathOf returns the package path a function (or closure, or instantiation) belongs to.
func PkgPathOf(fn *ssa.Function) string {
	for f := fn; f != nil; f = f.Parent() {
		if f.Pkg != nil {
			return f.Pkg.Pkg.Path()
		}
		if o := f.Origin(); o != nil && o.Pkg != nil {
			return o.Pkg.Pkg.Path()
		}
		if f.Object() != nil && f.Object().Pkg() != nil {
			return f.Object().Pkg().Path()
		}
	}
	return ""
}

// InRepo reports whether fn belongs to the analysed module.
func InRepo(fn *ssa.Function) bool {
	pp := PkgPathOf(fn)
	return pp == Mod || strings.HasPrefix(pp, Mod+"/")
}

// Short strips the module prefix from a name.
func Short(s string) string {
	return strings.ReplaceAll(s, Mod+"/", "")
}

// FnName is the stable display name of a function.
func FnName(fn *ssa.Function) string {
	if fn == nil {
		return "<nil>"
	}
	return Short(fn.String())
}

// Pos renders a position relative to the repository.
func (p *Program) Pos(pos token.Pos) string {
	if !pos.IsValid() {
		return "-"
	}
	q := p.Fset.Position(pos)
	return fmt.Sprintf("%s:%d", strings.TrimPrefix(q.Filename, p.Dir+"/"), q.Line)
}

// File renders only the file of a position relative to the repository.
func (p *Program) File(pos token.Pos) string {
	if !pos.IsValid() {
		return "-"
	}
	q := p.Fset.Position(pos)
	return strings.TrimPrefix(q.Filename, p.Dir+"/")
}

// InstrPos finds a usable position for an instruction (falls back to operands / function).
func (p *Program) InstrPos(ins ssa.Instruction) token.Pos {
	if ins.Pos().IsValid() {
		return ins.Pos()
	}
	var ops []*ssa.Value
	for _, o := range ins.Operands(ops) {
		if *o != nil && (*o).Pos().IsValid() {
			return (*o).Pos()
		}
	}
	if ins.Parent() != nil {
		return ins.Parent().Pos()
	}
	return token.NoPos
}

// Pkg returns the SSA package "rel", "syntax", "pkg/arrai", ... of the module; nil if absent.
func (p *Program) Pkg(rel string) *ssa.Package {
	if rel == "" {
		return p.SSA[Mod]
	}
	return p.SSA[Mod+"/"+rel]
}

// AnyPkg returns any loaded SSA package by full path.
func (p *Program) AnyPkg(path string) *ssa.Package { return p.SSA[path] }

// Func returns the package-level function pkg.name, or nil.  When the name is gone but the recorded table of
// signatures (anchors.json, written by -gen-anchors from the tree the rules were confirmed on) knows it, a function
// of the same package with the identical signature and a name the table has never seen is taken to be the renamed
// anchor — provided there is exactly one such candidate.  The substitution is recorded in Renames.
func (p *Program) Func(pkg, name string) *ssa.Function {
	sp := p.Pkg(pkg)
	if sp == nil {
		return nil
	}
	if f := sp.Func(name); f != nil {
		return f
	}
	want, ok := anchorSigs[pkg+"."+name]
	if !ok {
		return nil
	}
	var cands []*ssa.Function
	for _, m := range sp.Members {
		f, isFn := m.(*ssa.Function)
		if !isFn || f.Blocks == nil {
			continue
		}
		if _, known := anchorSigs[pkg+"."+f.Name()]; known {
			continue
		}
		if sigString(f) == sigOf(want) {
			cands = append(cands, f)
		}
	}
	if f := pickRenamed(want, cands); f != nil {
		p.noteRename(pkg+"."+name, pkg+"."+f.Name())
		return f
	}
	return nil
}

func (p *Program) noteRename(from, to string) {
	msg := "anchor " + from + " not found; using " + to + " (same package, identical signature, new name)"
	for _, r := range p.Renames {
		if r == msg {
			return
		}
	}
	p.Renames = append(p.Renames, msg)
}

// calleeNames: the names of the functions and methods fn calls (its own closures included) — a fingerprint that
// survives renaming fn itself.
func calleeNames(fn *ssa.Function) []string {
	set := map[string]bool{}
	var walk func(f *ssa.Function)
	walk = func(f *ssa.Function) {
		for _, b := range f.Blocks {
			for _, ins := range b.Instrs {
				if c, ok := ins.(ssa.CallInstruction); ok {
					cc := c.Common()
					switch {
					case cc.IsInvoke():
						set["."+cc.Method.Name()] = true
					case cc.StaticCallee() != nil:
						set[cc.StaticCallee().Name()] = true
					}
				}
			}
		}
		for _, a := range f.AnonFuncs {
			walk(a)
		}
	}
	walk(fn)
	var out []string
	for k := range set {
		out = append(out, k)
	}
	sort.Strings(out)
	return out
}

func fingerprint(fn *ssa.Function) string {
	return sigString(fn) + "|" + strings.Join(calleeNames(fn), ",")
}

// pickRenamed chooses among same-signature, new-name candidates: a single one is taken as is; otherwise the one whose
// callee set is clearly the most similar to the recorded one.
func pickRenamed(want string, cands []*ssa.Function) *ssa.Function {
	if len(cands) == 1 {
		return cands[0]
	}
	if len(cands) == 0 {
		return nil
	}
	rec := map[string]bool{}
	if i := strings.Index(want, "|"); i >= 0 {
		for _, n := range strings.Split(want[i+1:], ",") {
			if n != "" {
				rec[n] = true
			}
		}
	}
	best, second := -1.0, -1.0
	var bestF *ssa.Function
	for _, c := range cands {
		names := calleeNames(c)
		inter := 0
		for _, n := range names {
			if rec[n] {
				inter++
			}
		}
		union := len(rec) + len(names) - inter
		sim := 0.0
		if union > 0 {
			sim = float64(inter) / float64(union)
		}
		if sim > best {
			second, best, bestF = best, sim, c
		} else if sim > second {
			second = sim
		}
	}
	if best >= 0.4 && best-second >= 0.2 {
		return bestF
	}
	return nil
}

func sigOf(want string) string {
	if i := strings.Index(want, "|"); i >= 0 {
		return want[:i]
	}
	return want
}

// sigString renders a signature by its parameter and result types only (parameter names do not matter).
func sigString(f *ssa.Function) string {
	q := func(pk *types.Package) string { return pk.Name() }
	var b strings.Builder
	tuple := func(t *types.Tuple) {
		b.WriteByte('(')
		for i := 0; i < t.Len(); i++ {
			if i > 0 {
				b.WriteString(", ")
			}
			if i == t.Len()-1 && f.Signature.Variadic() && t == f.Signature.Params() {
				b.WriteString("...")
			}
			b.WriteString(types.TypeString(t.At(i).Type(), q))
		}
		b.WriteByte(')')
	}
	b.WriteString("func")
	tuple(f.Signature.Params())
	b.WriteByte(' ')
	tuple(f.Signature.Results())
	return b.String()
}

// NamedType returns the named type pkg.name, or nil.
func (p *Program) NamedType(pkg, name string) *types.Named {
	sp := p.Pkg(pkg)
	if sp == nil {
		return nil
	}
	t := sp.Type(name)
	if t == nil {
		return nil
	}
	n, _ := t.Type().(*types.Named)
	return n
}

// Method returns the method `name` in the method set of T or *T where T = pkg.typ.
func (p *Program) Method(pkg, typ, name string) *ssa.Function {
	n := p.NamedType(pkg, typ)
	if n == nil {
		return nil
	}
	if f := p.MethodOf(n, name); f != nil {
		return f
	}
	// renamed method: same receiver type, identical signature, a name the recorded table has never seen
	want, ok := anchorSigs[pkg+"."+typ+"."+name]
	if !ok {
		return nil
	}
	var cands []*ssa.Function
	seen := map[string]bool{}
	for _, tt := range []types.Type{n, types.NewPointer(n)} {
		ms := p.Prog.MethodSets.MethodSet(tt)
		for i := 0; i < ms.Len(); i++ {
			mn := ms.At(i).Obj().Name()
			if seen[mn] {
				continue
			}
			if _, known := anchorSigs[pkg+"."+typ+"."+mn]; known {
				continue
			}
			f := p.Prog.MethodValue(ms.At(i))
			if f == nil || f.Synthetic != "" && f.Blocks == nil {
				continue
			}
			if sigString(f) == sigOf(want) {
				seen[mn] = true
				cands = append(cands, f)
			}
		}
	}
	if f := pickRenamed(want, cands); f != nil {
		p.noteRename(pkg+"."+typ+"."+name, pkg+"."+typ+"."+f.Name())
		return f
	}
	return nil
}

// GenAnchors writes the signature table: every package-level function and method of the module.
func (p *Program) GenAnchors() map[string]string {
	out := map[string]string{}
	for path, sp := range p.SSA {
		if !strings.HasPrefix(path, Mod) {
			continue
		}
		rel := strings.TrimPrefix(strings.TrimPrefix(path, Mod), "/")
		for _, m := range sp.Members {
			switch x := m.(type) {
			case *ssa.Function:
				if x.Blocks != nil {
					out[rel+"."+x.Name()] = fingerprint(x)
				}
			case *ssa.Type:
				nt, ok := x.Type().(*types.Named)
				if !ok {
					continue
				}
				for _, tt := range []types.Type{nt, types.NewPointer(nt)} {
					ms := p.Prog.MethodSets.MethodSet(tt)
					for i := 0; i < ms.Len(); i++ {
						if f := p.Prog.MethodValue(ms.At(i)); f != nil {
							out[rel+"."+x.Name()+"."+ms.At(i).Obj().Name()] = fingerprint(f)
						}
					}
				}
			}
		}
	}
	return out
}

// MethodOf looks name up in the method sets of t and *t.
func (p *Program) MethodOf(t types.Type, name string) *ssa.Function {
	for _, tt := range []types.Type{t, types.NewPointer(t)} {
		if _, isPtr := t.(*types.Pointer); isPtr && tt != t {
			continue
		}
		ms := p.Prog.MethodSets.MethodSet(tt)
		for i := 0; i < ms.Len(); i++ {
			if ms.At(i).Obj().Name() == name {
				if f := p.Prog.MethodValue(ms.At(i)); f != nil {
					return f
				}
			}
		}
	}
	return nil
}

// Closures returns the anonymous functions nested (transitively) in fn, in source order.
func Closures(fn *ssa.Function) []*ssa.Function {
	var out []*ssa.Function
	var walk func(f *ssa.Function)
	walk = func(f *ssa.Function) {
		for _, a := range f.AnonFuncs {
			out = append(out, a)
			walk(a)
		}
	}
	walk(fn)
	return out
}

// CG returns the VTA call graph (built lazily over CHA).
func (p *Program) CG() *callgraph.Graph {
	if p.cg == nil {
		p.cg = vta.CallGraph(p.AllFns, cha.CallGraph(p.Prog))
		p.cgIndex = map[ssa.CallInstruction][]*ssa.Function{}
		for _, n := range p.cg.Nodes {
			for _, e := range n.Out {
				if e.Site != nil {
					p.cgIndex[e.Site] = append(p.cgIndex[e.Site], e.Callee.Func)
				}
			}
		}
		for s, fs := range p.cgIndex {
			sort.Slice(fs, func(i, j int) bool { return fs[i].String() < fs[j].String() })
			// dedupe
			out := fs[:0]
			for i, f := range fs {
				if i == 0 || f != fs[i-1] {
					out = append(out, f)
				}
			}
			p.cgIndex[s] = out
		}
	}
	return p.cg
}

// Callees resolves the possible callees of a call site: the static callee, or the VTA targets.
func (p *Program) Callees(site ssa.CallInstruction) []*ssa.Function {
	if c := site.Common().StaticCallee(); c != nil {
		return []*ssa.Function{c}
	}
	p.CG()
	return p.cgIndex[site]
}

// ForEachInstr visits every instruction of fn.
func ForEachInstr(fn *ssa.Function, f func(ssa.Instruction)) {
	for _, b := range fn.Blocks {
		for _, ins := range b.Instrs {
			f(ins)
		}
	}
}

// ValueTypes returns the concrete types (T or *T) declared in package rel that implement rel.Value, sorted by name.
func (p *Program) ValueTypes() []types.Type {
	return p.Implementers("rel", "Value")
}

// Implementers lists concrete named types of the whole module implementing interface pkg.iface.
func (p *Program) Implementers(pkg, iface string) []types.Type {
	n := p.NamedType(pkg, iface)
	if n == nil {
		return nil
	}
	it, ok := n.Underlying().(*types.Interface)
	if !ok {
		return nil
	}
	var out []types.Type
	for _, pk := range p.Roots {
		sp := p.SSA[pk.PkgPath]
		if sp == nil {
			continue
		}
		for _, m := range sp.Members {
			tn, ok := m.(*ssa.Type)
			if !ok {
				continue
			}
			t := tn.Type()
			if types.IsInterface(t) {
				continue
			}
			if nt, ok := t.(*types.Named); ok && nt.TypeParams().Len() > 0 {
				continue
			}
			if types.Implements(t, it) {
				out = append(out, t)
			} else if types.Implements(types.NewPointer(t), it) {
				out = append(out, types.NewPointer(t))
			}
		}
	}
	sort.Slice(out, func(i, j int) bool { return out[i].String() < out[j].String() })
	return out
}

// TypeName gives a short printable name of a type.
func TypeName(t types.Type) string { return Short(t.String()) }

// Deref strips one pointer.
func Deref(t types.Type) types.Type {
	if p, ok := t.Underlying().(*types.Pointer); ok {
		return p.Elem()
	}
	return t
}

// EnclosingFuncDecl finds the AST declaration of an SSA function (nil for synthetic ones).
func (p *Program) EnclosingFuncDecl(fn *ssa.Function) ast.Node {
	return fn.Syntax()
}

//go:embed anchors.json
var anchorsJSON []byte

// anchorSigs: "pkg.Func" / "pkg.Type.Method" -> signature, for the tree the rules were confirmed on.
var anchorSigs = func() map[string]string {
	m := map[string]string{}
	_ = json.Unmarshal(anchorsJSON, &m)
	return m
}()

// FuncValueTargets: the module functions a function-typed operand denotes: a literal, a function, or a bound method
// value (t.method passed as a value: go/ssa wraps it in a synthetic $bound function whose only call is the method).
func FuncValueTargets(v ssa.Value) []*ssa.Function {
	var f *ssa.Function
	switch x := v.(type) {
	case *ssa.MakeClosure:
		f, _ = x.Fn.(*ssa.Function)
	case *ssa.Function:
		f = x
	}
	if f == nil {
		return nil
	}
	out := []*ssa.Function{f}
	if f.Synthetic != "" && f.Blocks != nil {
		for _, b := range f.Blocks {
			for _, ins := range b.Instrs {
				if c, ok := ins.(ssa.CallInstruction); ok {
					if g := c.Common().StaticCallee(); g != nil {
						out = append(out, g)
					}
				}
			}
		}
	}
	return out
}

// InRepoPkg reports whether an SSA package belongs to the analysed module.
func InRepoPkg(pk *ssa.Package) bool {
	pp := pk.Pkg.Path()
	return pp == Mod || strings.HasPrefix(pp, Mod+"/")
}
