package main

import (
	"fmt"
	"go/ast"
	"go/constant"
	"go/token"
	"go/types"
	"golang.org/x/tools/go/ssa"
	"sort"
	"strings"
)

func init() {
	register("C04", Rule{"R04a", ruleJoinTableAgreement}, Rule{"R04b", ruleJoinModeExhaustive})
}

const (
	regL = 1
	regC = 2
	regR = 4
)

func regStr(m int) string {
	s := ""
	if m&regL != 0 {
		s += "L"
	}
	if m&regC != 0 {
		s += "C"
	}
	if m&regR != 0 {
		s += "R"
	}
	if s == "" {
		return "∅"
	}
	return s
}

type joinEval struct {
	info  *types.Info
	env   map[types.Object]int // parameter -> region mask
	cmask int                  // the `common` region
	world int                  // non-empty regions
}

func (je *joinEval) expr(e ast.Expr) (int, error) {
	switch x := e.(type) {
	case *ast.ParenExpr:
		return je.expr(x.X)
	case *ast.Ident:
		if obj := je.info.Uses[x]; obj != nil {
			if m, ok := je.env[obj]; ok {
				return m, nil
			}
			if obj.Name() == "EmptyTuple" {
				return 0, nil
			}
		}
		return 0, fmt.Errorf("unknown identifier %s", x.Name)
	case *ast.CompositeLit:
		if len(x.Elts) == 0 {
			return 0, nil
		}
	case *ast.CallExpr:
		switch f := x.Fun.(type) {
		case *ast.Ident:
			switch f.Name {
			case "Merge":
				if len(x.Args) == 2 {
					a, err := je.expr(x.Args[0])
					if err != nil {
						return 0, err
					}
					b, err := je.expr(x.Args[1])
					return a | b, err
				}
			case "TupleProjectAllBut":
				if len(x.Args) == 2 {
					a, err := je.expr(x.Args[0])
					if err != nil {
						return 0, err
					}
					b, err := je.expr(x.Args[1])
					return a &^ b, err
				}
			}
		case *ast.SelectorExpr:
			recv, err := je.expr(f.X)
			if err != nil {
				return 0, err
			}
			if len(x.Args) != 1 {
				break
			}
			arg, err := je.expr(x.Args[0])
			if err != nil {
				return 0, err
			}
			switch f.Sel.Name {
			case "minus":
				return recv &^ arg, nil
			case "intersect", "Project":
				return recv & arg, nil
			}
		}
	}
	return 0, fmt.Errorf("expression form outside the heading algebra: %s", types.ExprString(e))
}

func (je *joinEval) cond(e ast.Expr) (bool, error) {
	switch x := e.(type) {
	case *ast.ParenExpr:
		return je.cond(x.X)
	case *ast.UnaryExpr:
		if x.Op == token.NOT {
			b, err := je.cond(x.X)
			return !b, err
		}
	case *ast.BinaryExpr:
		if x.Op == token.LAND || x.Op == token.LOR {
			a, err := je.cond(x.X)
			if err != nil {
				return false, err
			}
			b, err := je.cond(x.Y)
			if x.Op == token.LAND {
				return a && b, err
			}
			return a || b, err
		}
	case *ast.CallExpr:
		if f, ok := x.Fun.(*ast.SelectorExpr); ok && f.Sel.Name == "isSubset" && len(x.Args) == 1 {
			a, err := je.expr(f.X)
			if err != nil {
				return false, err
			}
			b, err := je.expr(x.Args[0])
			// a ⊆ b in this world: the part of a outside b is empty
			return (a&^b)&je.world == 0, err
		}
	}
	return false, fmt.Errorf("condition form outside the heading algebra: %s", types.ExprString(e))
}

// run evaluates a function body that returns n region expressions.
func (je *joinEval) run(body *ast.BlockStmt, results []types.Object) ([]int, error) {
	named := map[types.Object]int{}
	var exec func(stmts []ast.Stmt) ([]int, bool, error)
	exec = func(stmts []ast.Stmt) ([]int, bool, error) {
		for _, st := range stmts {
			switch s := st.(type) {
			case *ast.ReturnStmt:
				if len(s.Results) == 0 {
					var out []int
					for _, o := range results {
						out = append(out, named[o])
					}
					return out, true, nil
				}
				var out []int
				for _, e := range s.Results {
					v, err := je.expr(e)
					if err != nil {
						return nil, true, err
					}
					out = append(out, v)
				}
				return out, true, nil
			case *ast.IfStmt:
				if s.Init != nil {
					return nil, true, fmt.Errorf("if with init statement")
				}
				c, err := je.cond(s.Cond)
				if err != nil {
					return nil, true, err
				}
				if c {
					if out, done, err := exec(s.Body.List); done || err != nil {
						return out, done, err
					}
				} else if s.Else != nil {
					if blk, ok := s.Else.(*ast.BlockStmt); ok {
						if out, done, err := exec(blk.List); done || err != nil {
							return out, done, err
						}
					} else {
						return nil, true, fmt.Errorf("else-if form")
					}
				}
			case *ast.AssignStmt:
				if len(s.Lhs) != len(s.Rhs) {
					return nil, true, fmt.Errorf("assignment form")
				}
				for i, l := range s.Lhs {
					id, ok := l.(*ast.Ident)
					if !ok {
						return nil, true, fmt.Errorf("assignment target")
					}
					v, err := je.expr(s.Rhs[i])
					if err != nil {
						return nil, true, err
					}
					obj := je.info.Uses[id]
					if obj == nil {
						obj = je.info.Defs[id]
					}
					named[obj] = v
					je.env[obj] = v
				}
			default:
				return nil, true, fmt.Errorf("statement form outside the heading algebra")
			}
		}
		return nil, false, nil
	}
	out, done, err := exec(body.List)
	if err != nil {
		return nil, err
	}
	if !done {
		return nil, fmt.Errorf("function body falls off without return")
	}
	return out, nil
}

func glyphMask(op string) (int, bool) {
	if len(op) != 3 {
		return 0, false
	}
	m := 0
	switch op[0] {
	case '<':
		m |= regL
	case '-':
	default:
		return 0, false
	}
	switch op[1] {
	case '&':
		m |= regC
	case '-':
	default:
		return 0, false
	}
	switch op[2] {
	case '>':
		m |= regR
	case '-':
	default:
		return 0, false
	}
	return m, true
}

func ruleJoinTableAgreement(p *Program, r *Report) {
	r.Begin("R04a", "join operator tables agree: for each of the eight join operators, the generic per-tuple `combine` function, the positional `partitionNames` function (leftOut ∪ rightOut) and the operator's glyph (< keeps left-only, & keeps common, > keeps right-only) denote the same output heading in the algebra of subsets of {L, C, R}, in all 8 worlds of which regions are empty (isSubset guards evaluated per world); leftOut and rightOut are disjoint", 8)
	defer r.End()
	pk := p.PkgSyntax("rel")
	if pk == nil {
		r.Undecided("anchor", "package rel not loaded", 0)
		return
	}
	info := pk.TypesInfo
	// find Joiner(...) calls and the operator they are registered under
	type jn struct {
		call *ast.CallExpr
		op   string
	}
	var joiners []jn
	varOf := map[types.Object]*ast.CallExpr{} // package var initialised with Joiner(...)
	isJoinerCall := func(e ast.Expr) *ast.CallExpr {
		c, ok := e.(*ast.CallExpr)
		if !ok {
			return nil
		}
		if id, ok := c.Fun.(*ast.Ident); ok && id.Name == "Joiner" && len(c.Args) == 2 {
			return c
		}
		return nil
	}
	for _, f := range pk.Syntax {
		for _, d := range f.Decls {
			if gd, ok := d.(*ast.GenDecl); ok && gd.Tok == token.VAR {
				for _, s := range gd.Specs {
					vs := s.(*ast.ValueSpec)
					for i, n := range vs.Names {
						if i < len(vs.Values) {
							if c := isJoinerCall(vs.Values[i]); c != nil {
								varOf[info.Defs[n]] = c
							}
						}
					}
				}
			}
		}
	}
	for _, f := range pk.Syntax {
		ast.Inspect(f, func(n ast.Node) bool {
			c, ok := n.(*ast.CallExpr)
			if !ok {
				return true
			}
			id, ok := c.Fun.(*ast.Ident)
			if !ok || id.Name != "newSetBinExpr" || len(c.Args) != 5 {
				return true
			}
			op, ok := ConstString(info, c.Args[3])
			if !ok {
				return true
			}
			if jc := isJoinerCall(c.Args[4]); jc != nil {
				joiners = append(joiners, jn{jc, op})
			} else if vid, ok := c.Args[4].(*ast.Ident); ok {
				if jc, ok := varOf[info.Uses[vid]]; ok {
					joiners = append(joiners, jn{jc, op})
				}
			}
			return true
		})
	}
	sort.Slice(joiners, func(i, j int) bool { return joiners[i].op < joiners[j].op })
	for _, j := range joiners {
		want, ok := glyphMask(j.op)
		if !ok {
			r.Undecided("glyph@"+j.op, "operator glyph is not of the form [<-][&-][>-]", j.call.Pos())
			continue
		}
		comb, ok1 := j.call.Args[0].(*ast.FuncLit)
		part, ok2 := j.call.Args[1].(*ast.FuncLit)
		if !ok1 || !ok2 {
			r.Undecided("form@"+j.op, "Joiner arguments are not function literals", j.call.Pos())
			continue
		}
		params := func(fl *ast.FuncLit) []types.Object {
			var out []types.Object
			for _, f := range fl.Type.Params.List {
				for _, n := range f.Names {
					out = append(out, info.Defs[n])
				}
			}
			return out
		}
		resultsOf := func(fl *ast.FuncLit) []types.Object {
			var out []types.Object
			if fl.Type.Results != nil {
				for _, f := range fl.Type.Results.List {
					for _, n := range f.Names {
						out = append(out, info.Defs[n])
					}
				}
			}
			return out
		}
		cp, pp := params(comb), params(part)
		if len(cp) != 3 || len(pp) != 3 {
			r.Undecided("form@"+j.op, "unexpected parameter count", j.call.Pos())
			continue
		}
		bad := ""
		for world := 0; world < 8 && bad == ""; world++ {
			jeC := &joinEval{info: info, world: world, env: map[types.Object]int{cp[0]: regC, cp[1]: regL | regC, cp[2]: regC | regR}}
			cres, err := jeC.run(comb.Body, resultsOf(comb))
			if err != nil {
				r.Undecided("combine@"+j.op, err.Error(), comb.Pos())
				bad = "undecided"
				break
			}
			jeP := &joinEval{info: info, world: world, env: map[types.Object]int{pp[0]: regL | regC, pp[1]: regC | regR, pp[2]: regC}}
			pres, err := jeP.run(part.Body, resultsOf(part))
			if err != nil || len(pres) != 2 {
				msg := "partitionNames does not return two name lists"
				if err != nil {
					msg = err.Error()
				}
				r.Undecided("partition@"+j.op, msg, part.Pos())
				bad = "undecided"
				break
			}
			got := (pres[0] | pres[1]) & world
			switch {
			case pres[0]&pres[1]&world != 0:
				bad = fmt.Sprintf("in the world where the non-empty regions are %s, leftOut=%s and rightOut=%s overlap: Relation.Join panics on overlapping outputs", regStr(world), regStr(pres[0]), regStr(pres[1]))
			case got != want&world:
				bad = fmt.Sprintf("in the world where the non-empty regions are %s, partitionNames yields heading %s but the operator %s denotes %s: Relation×Relation operands give a different heading than the operator's definition", regStr(world), regStr(got), j.op, regStr(want&world))
			case cres[0]&world != want&world:
				bad = fmt.Sprintf("in the world where the non-empty regions are %s, combine yields tuples over %s but the operator %s denotes %s: generic (non-Relation) operands give a different heading than Relation operands", regStr(world), regStr(cres[0]&world), j.op, regStr(want&world))
			}
		}
		if bad == "undecided" {
			continue
		}
		r.Fn("rel." + j.op)
		r.Check(bad == "", "operator@"+j.op, "combine = partitionNames = glyph = "+regStr(want)+" in all 8 worlds", bad, j.call.Pos())
	}
	if len(joiners) < 8 {
		r.Undecided("operators", fmt.Sprintf("only %d join operators built from Joiner found (8 confirmed by hand)", len(joiners)), 0)
	}
}

func ruleJoinModeExhaustive(p *Program, r *Report) {
	r.Begin("R04b", "join-mode switch exhaustive: the switch over the 3-bit CombineOp in positionalRelation.Join has case constants covering every value 0..7 (constants folded by go/constant), so no combination of key/output projections falls into the panicking default", 8)
	defer r.End()
	pk := p.PkgSyntax("rel")
	if pk == nil {
		r.Undecided("anchor", "package rel not loaded", 0)
		return
	}
	info := pk.TypesInfo
	found := false
	FuncDecls(pk, func(fd *ast.FuncDecl) {
		if FuncDeclName(fd) != "positionalRelation.Join" {
			return
		}
		ast.Inspect(fd.Body, func(n ast.Node) bool {
			sw, ok := n.(*ast.SwitchStmt)
			if !ok || sw.Tag == nil {
				return true
			}
			tv, ok := info.Types[sw.Tag]
			if !ok || !strings.HasSuffix(tv.Type.String(), "CombineOp") {
				return true
			}
			found = true
			seen := map[int64]bool{}
			for _, st := range sw.Body.List {
				cc := st.(*ast.CaseClause)
				for _, e := range cc.List {
					if v := info.Types[e].Value; v != nil && v.Kind() == constant.Int {
						i, _ := constant.Int64Val(v)
						seen[i] = true
					}
				}
			}
			for v := int64(0); v < 8; v++ {
				r.Check(seen[v], fmt.Sprintf("mode@%d", v), "handled", fmt.Sprintf("CombineOp value %d (bits: InBoth=%v OnlyOnRHS/LHS…) has no case in positionalRelation.Join: a join whose projections produce it panics with `unhandled mode`", v, v), sw.Pos())
			}
			return true
		})
	})
	if !found {
		r.Undecided("switch", "switch over CombineOp in positionalRelation.Join not found", 0)
	}
}

// R04c: a helper parameterised by a per-element function does not bypass it.  nestWithFunc, Reduce-style and
// join helpers of package rel are shared by operators that differ only in the function they pass (Nest vs
// SingleAttrNest: collect tuples vs collect one attribute's values).  A return path that builds its result from the
// input without involving that function gives every caller the same answer, so it is wrong for at least one of
// them.  For every function of package rel with a function-typed parameter that it uses, each return value is the
// input handed back unchanged, a constant, part of an error return, or depends on the parameter.
func ruleCallbackNotBypassed(p *Program, r *Report) {
	r.Begin("R04c", "callback completeness: in every function of package rel that takes and uses a function-typed parameter, each returned value is a parameter handed back unchanged, a constant, accompanies a non-nil error, or depends on that parameter — a shortcut path that builds the result from the input alone returns the same thing for callers that pass different functions (Nest / SingleAttrNest)", 10)
	defer r.End()
	relPkg := p.Pkg("rel")
	for _, fn := range p.RepoFns {
		if fn.Pkg != relPkg || fn.Parent() != nil || strings.HasSuffix(p.File(fn.Pos()), "test_helpers.go") {
			continue
		}
		var fparams []*ssa.Parameter
		for _, q := range fn.Params {
			if _, isSig := q.Type().Underlying().(*types.Signature); isSig && q.Referrers() != nil && len(*q.Referrers()) > 0 {
				fparams = append(fparams, q)
			}
		}
		if len(fparams) == 0 {
			continue
		}
		usesF := func(v ssa.Value) bool {
			return DependsOn(v, func(x ssa.Value) bool {
				for _, q := range fparams {
					if x == ssa.Value(q) {
						return true
					}
				}
				return false
			})
		}
		isParamBack := func(v ssa.Value) bool {
			switch x := v.(type) {
			case *ssa.Parameter:
				return true
			case *ssa.UnOp:
				if al, ok := x.X.(*ssa.Alloc); ok {
					if _, isP := paramCell(al); isP {
						return true
					}
				}
			case *ssa.MakeInterface:
				_, ok := x.X.(*ssa.Parameter)
				return ok
			case *ssa.ChangeInterface:
				_, ok := x.X.(*ssa.Parameter)
				return ok
			}
			return false
		}
		// blocks in which the function parameter is used: called, captured by a closure, or handed on
		useBlocks := map[*ssa.BasicBlock]bool{}
		isF := func(x ssa.Value) bool {
			for _, q := range fparams {
				if x == ssa.Value(q) {
					return true
				}
			}
			return false
		}
		ForEachInstr(fn, func(ins ssa.Instruction) {
			switch x := ins.(type) {
			case ssa.CallInstruction:
				if DependsOn(x.Common().Value, isF) {
					useBlocks[ins.Block()] = true
				}
				for _, a := range x.Common().Args {
					if DependsOn(a, isF) {
						useBlocks[ins.Block()] = true
					}
				}
			case *ssa.MakeClosure:
				for _, b := range x.Bindings {
					if DependsOn(b, isF) {
						useBlocks[ins.Block()] = true
					}
				}
			}
		})
		afterUse := func(b *ssa.BasicBlock) bool {
			for u := range useBlocks {
				if u == b || Reaches(u, b, false) {
					return true
				}
			}
			return false
		}
		ord := 0
		ForEachInstr(fn, func(ins ssa.Instruction) {
			ret, ok := ins.(*ssa.Return)
			if !ok || len(ret.Results) == 0 || ret.Block() == fn.Recover {
				return
			}
			last := len(ret.Results) - 1
			if isErrorType(ret.Results[last].Type()) && !IsNilConst(RetVal(ret, last)) {
				return // error return
			}
			for i := range ret.Results {
				rv := RetVal(ret, i)
				if isErrorType(rv.Type()) {
					continue
				}
				if _, isConst := rv.(*ssa.Const); isConst {
					continue
				}
				if !strings.Contains(rv.Type().String(), Mod+"/rel.") {
					continue // only results of the value model (Set, Value, Tuple, …) are judged
				}
				ord++
				key := fmt.Sprintf("result@%s~%d", FnName(fn), ord)
				r.Fn(FnName(fn))
				switch {
				case isParamBack(rv):
					r.OK(key, "an argument handed back unchanged", ret.Pos())
				case usesF(rv):
					r.OK(key, "depends on the function parameter", ret.Pos())
				case afterUse(ret.Block()):
					r.OK(key, "returned after the function parameter was applied (in-place / control effect)", ret.Pos())
				default:
					// a global (None, EmptyScope…) or a value built from nothing is a constant too
					fromInput := DependsOn(rv, func(x ssa.Value) bool { _, isP := x.(*ssa.Parameter); return isP })
					if !fromInput {
						r.OK(key, "a constant result", ret.Pos())
						continue
					}
					r.Viol(key, fmt.Sprintf("%s returns a value built from its input on a path that does not involve its function parameter %s: callers that pass different functions (e.g. Nest and SingleAttrNest through nestWithFunc) get the same result, so at least one of them is wrong", FnName(fn), fparams[0].Name()), ret.Pos())
				}
			}
		})
	}
}

func init() { register("C04", Rule{"R04c", ruleCallbackNotBypassed}) }

// R04d: raw rows stand in for projected rows only under an identity projector.  A positional relation stores its
// rows in its own column order; every function that takes a column projector works on `row.project(p)`.  Handing
// out the stored row set itself (returning it, passing it on, wrapping it in a new relation) from such a function
// is the projection only when the projector is the identity — which `p.isIdentity(width)` decides; the projector's
// length does not (a permutation has full length).
func ruleRawRowsOnlyUnderIdentity(p *Program, r *Report) {
	r.Begin("R04d", "raw rows only under identity: in a function of package rel that takes a valueProjector, the stored row set of a positionalRelation (its `set` field) is returned, passed to another function or stored only on a path dominated by the true branch of isIdentity() on a projector parameter — elsewhere rows are used through project(p); a fast path guarded by the projector's length treats a column permutation as the identity", 0)
	defer r.End()
	relPkg := p.Pkg("rel")
	isProj := func(t types.Type) bool { return TypeName(t) == "rel.valueProjector" }
	n := 0
	for _, fn := range p.RepoFns {
		if fn.Pkg != relPkg {
			continue
		}
		top := fn
		for top.Parent() != nil {
			top = top.Parent()
		}
		var projs []*ssa.Parameter
		for _, q := range top.Params {
			if isProj(q.Type()) {
				projs = append(projs, q)
			}
		}
		for _, q := range fn.Params {
			if isProj(q.Type()) {
				projs = append(projs, q)
			}
		}
		if len(projs) == 0 {
			continue
		}
		ord := 0
		ForEachInstr(fn, func(ins ssa.Instruction) {
			ld, ok := ins.(*ssa.UnOp)
			if !ok || ld.Op != token.MUL {
				return
			}
			fa, ok := ld.X.(*ssa.FieldAddr)
			if !ok || TypeName(Deref(fa.X.Type())) != "rel.positionalRelation" {
				return
			}
			if st := structOf(fa.X.Type()); st == nil || st.Field(fa.Field).Name() != "set" {
				return
			}
			if ld.Referrers() == nil {
				return
			}
			for _, ref := range *ld.Referrers() {
				escapes := false
				switch u := ref.(type) {
				case *ssa.Return:
					escapes = true
				case *ssa.Store:
					escapes = u.Val == ssa.Value(ld)
				case ssa.CallInstruction:
					cc := u.Common()
					// methods of the set itself (Range, Count, Has, Where …) read it; passing it as an argument hands it on
					// (also through frozen's free functions SetMap / SetGroupBy, which enumerate it with a callback)
					if g := cc.StaticCallee(); g != nil && InRepo(g) {
						for _, a := range cc.Args {
							if a == ssa.Value(ld) {
								escapes = true
							}
						}
					}
				case *ssa.MakeInterface, *ssa.Phi:
					escapes = true
				}
				if !escapes {
					continue
				}
				n++
				ord++
				r.Fn(FnName(top))
				key := fmt.Sprintf("raw-rows@%s~%d", FnName(fn), ord)
				guarded := false
				for d := ref.Block(); d != nil && !guarded; d = d.Idom() {
					id := d.Idom()
					if id == nil {
						break
					}
					iff, isIf := id.Instrs[len(id.Instrs)-1].(*ssa.If)
					if !isIf || id.Succs[0] != d || len(d.Preds) != 1 {
						continue
					}
					if c, isCall := iff.Cond.(*ssa.Call); isCall {
						if g := c.Call.StaticCallee(); g != nil && g.Name() == "isIdentity" {
							guarded = true
						}
					}
				}
				r.Check(guarded, key, "only where the projector is the identity", fmt.Sprintf("%s hands out a relation's stored rows in place of their projection without having established projector.isIdentity(): for a relation whose columns are stored in another order (every join result) the rows are compared or combined column-by-column with the wrong columns", FnName(fn)), ref.Pos())
			}
		})
	}
	if n == 0 {
		r.Info("sites", "no function with a projector parameter hands out raw rows", 0)
	}
}

func init() {
	register("C04", Rule{"R04d", ruleRawRowsOnlyUnderIdentity})
	register("C01", Rule{"R04d", ruleRawRowsOnlyUnderIdentity})
}

// R04e: an identity projector has as many columns as the row.  `isIdentity(width)` licenses the fast paths that hand
// out stored rows in place of their projection (R04d).  A projector that names only the leading columns is not the
// identity: the rows keep the dropped columns, so duplicates no longer collapse and members no longer compare equal.
// Every return of a non-false value from isIdentity must be dominated by the equal edge of a comparison between the
// projector's length and the width.
func ruleIdentityNeedsFullWidth(p *Program, r *Report) {
	r.Begin("R04e", "identity means full width: in (valueProjector).isIdentity every return that can be true is dominated by the equal edge of a comparison of len(projector) with the width parameter", 1)
	defer r.End()
	fn := p.Method("rel", "valueProjector", "isIdentity")
	if fn == nil || len(fn.Params) < 2 {
		r.Undecided("anchor", "rel.valueProjector.isIdentity(width) not found", 0)
		return
	}
	r.Fn(FnName(fn))
	recv, width := fn.Params[0], fn.Params[1]
	isLen := func(v ssa.Value) bool {
		c, ok := v.(*ssa.Call)
		if !ok {
			return false
		}
		b, ok := c.Call.Value.(*ssa.Builtin)
		return ok && b.Name() == "len" && len(c.Call.Args) == 1 && DependsOn(c.Call.Args[0], func(x ssa.Value) bool { return x == ssa.Value(recv) })
	}
	// blocks entered only when len(p) == width
	var eqHeads []*ssa.BasicBlock
	for _, b := range fn.Blocks {
		iff, ok := b.Instrs[len(b.Instrs)-1].(*ssa.If)
		if !ok {
			continue
		}
		bo, ok := iff.Cond.(*ssa.BinOp)
		if !ok || (bo.Op != token.EQL && bo.Op != token.NEQ) {
			continue
		}
		if !((isLen(bo.X) && bo.Y == ssa.Value(width)) || (isLen(bo.Y) && bo.X == ssa.Value(width))) {
			continue
		}
		k := 0
		if bo.Op == token.NEQ {
			k = 1
		}
		if len(b.Succs[k].Preds) == 1 {
			eqHeads = append(eqHeads, b.Succs[k])
		}
	}
	n := 0
	for _, b := range fn.Blocks {
		ret, ok := b.Instrs[len(b.Instrs)-1].(*ssa.Return)
		if !ok || len(ret.Results) != 1 {
			continue
		}
		if bv, isC := BoolConst(RetVal(ret, 0)); isC && !bv {
			continue
		}
		n++
		ok2 := false
		for _, h := range eqHeads {
			if h == b || h.Dominates(b) {
				ok2 = true
			}
		}
		r.Check(ok2, fmt.Sprintf("full-width@return~%d", n), "returned only when len(projector) == width", "isIdentity can answer true for a projector shorter than the row: the one-sided joins then hand out stored rows that still carry the dropped columns — rows that agree on the kept attributes stay distinct, `count` is too large and genuine members fail `<:`", ret.Pos())
	}
	if n == 0 {
		r.Undecided("returns", "isIdentity has no return that can be true", fn.Pos())
	}
}

func init() { register("C04", Rule{"R04e", ruleIdentityNeedsFullWidth}) }
