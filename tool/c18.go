package main

import (
	"fmt"
	"go/constant"
	"go/token"
	"go/types"
	"sort"
	"strings"

	"golang.org/x/tools/go/ssa"
)

func init() {
	register("C18",
		Rule{"S18a", ruleSafeLibraryCapabilities},
		Rule{"S18b", ruleWhoMayCallStdScope},
		Rule{"S18c", ruleSandboxBindsLibrary},
	)
}

// capability sinks: exact functions (a prefix such as "(*exec.Cmd)." would drag in String() through Stringer dispatch)
var capSinks = map[string]string{
	"os/exec.Command": "exec", "os/exec.CommandContext": "exec", "(*os/exec.Cmd).Run": "exec", "(*os/exec.Cmd).Start": "exec",
	"(*os/exec.Cmd).Output": "exec", "(*os/exec.Cmd).CombinedOutput": "exec", "os.StartProcess": "exec", "syscall.Exec": "exec",
	"net/http.Get": "net", "net/http.Post": "net", "net/http.Head": "net", "net/http.PostForm": "net",
	"(*net/http.Client).Do": "net", "(*net/http.Client).Get": "net", "(*net/http.Client).Post": "net", "(*net/http.Client).Head": "net",
	"net.Dial": "net", "net.DialTimeout": "net", "net.Listen": "net", "(*net.Dialer).Dial": "net", "(*net.Dialer).DialContext": "net",
	"os.Open": "file", "os.OpenFile": "file", "os.ReadFile": "file", "os.Create": "file", "os.WriteFile": "file",
	"io/ioutil.ReadFile": "file", "io/ioutil.WriteFile": "file",
	"github.com/spf13/afero.ReadFile": "file", "github.com/spf13/afero.WriteFile": "file",
	Mod + "/syntax.StdScope":              "unsafe-library",
	Mod + "/syntax.importLocalFile":       "import",
	Mod + "/syntax.importExternalContent": "import",
	Mod + "/syntax.importModuleFile":      "import",
	Mod + "/syntax.importURL":             "import",
}

// repoSinks resolves the module's own sink functions through Program.Func, so that a renamed helper is still a sink.
var repoSinkCache map[*ssa.Function]string
var repoSinkFor *Program

func repoSinks(p *Program) map[*ssa.Function]string {
	if repoSinkFor == p {
		return repoSinkCache
	}
	repoSinkFor = p
	repoSinkCache = map[*ssa.Function]string{}
	for name, kind := range map[string]string{"StdScope": "unsafe-library", "importLocalFile": "import", "importExternalContent": "import", "importModuleFile": "import", "importURL": "import"} {
		if f := p.Func("syntax", name); f != nil {
			repoSinkCache[f] = kind
		}
	}
	return repoSinkCache
}

var metaSinks = map[string]bool{"os.Stat": true, "os.Lstat": true, "os.ReadDir": true, "github.com/spf13/afero.Walk": true, "github.com/spf13/afero.ReadDir": true,
	"github.com/spf13/afero.Exists": true, "github.com/spf13/afero.DirExists": true, "os.Getenv": true, "os.Getwd": true}

func sinkOfCall(cc *ssa.CallCommon) (string, string) {
	if cc.IsInvoke() {
		tn := cc.Value.Type().String()
		if strings.HasSuffix(tn, "afero.Fs") {
			switch cc.Method.Name() {
			case "Open", "OpenFile", "Create":
				return "afero.Fs." + cc.Method.Name(), "file"
			}
		}
		return "", ""
	}
	if c := cc.StaticCallee(); c != nil {
		if k, ok := capSinks[c.String()]; ok {
			return c.String(), k
		}
	}
	return "", ""
}

// nativeDispatch: the call of a NativeFunction's stored Go function (rel.NativeFnBody) — evaluating an existing
// value; cut like the other interpreter dispatch edges.
func nativeDispatch(cc *ssa.CallCommon) bool {
	if cc.IsInvoke() || cc.StaticCallee() != nil {
		return false
	}
	return strings.HasSuffix(cc.Value.Type().String(), "rel.NativeFnBody")
}

// registrars computes the functions that turn a Go function parameter into an arr.ai native: rel.NewNativeFunction*
// and every module function that forwards a func-typed parameter (directly or captured in a closure) to one.
func registrars(p *Program) map[*ssa.Function][]int {
	R := map[*ssa.Function][]int{} // function -> indices of its func-typed parameters that become natives
	for _, n := range []string{"NewNativeFunction", "NewNativeLambda", "NewNativeFunctionAttr"} {
		if f := p.Func("rel", n); f != nil {
			for i, prm := range f.Params {
				if _, ok := prm.Type().Underlying().(*types.Signature); ok {
					R[f] = append(R[f], i)
				}
			}
		}
	}
	for changed := true; changed; {
		changed = false
		for _, fn := range p.RepoFns {
			if fn.Parent() != nil {
				continue
			}
			if _, ok := R[fn]; ok {
				continue
			}
			var idxs []int
			for i, prm := range fn.Params {
				if _, ok := prm.Type().Underlying().(*types.Signature); !ok {
					continue
				}
				// does prm (or a closure capturing it) reach a registrar argument?
				reaches := false
				var scan func(f *ssa.Function, captured map[ssa.Value]bool)
				scan = func(f *ssa.Function, captured map[ssa.Value]bool) {
					ForEachInstr(f, func(ins ssa.Instruction) {
						switch x := ins.(type) {
						case ssa.CallInstruction:
							callee := x.Common().StaticCallee()
							if callee == nil {
								return
							}
							ris, ok := R[callee]
							if !ok {
								return
							}
							for _, ri := range ris {
								if ri < len(x.Common().Args) {
									a := x.Common().Args[ri]
									if ct, ok := a.(*ssa.ChangeType); ok {
										a = ct.X
									}
									if captured[a] {
										reaches = true
									}
									if mc, ok := a.(*ssa.MakeClosure); ok {
										for _, b := range mc.Bindings {
											if captured[b] {
												reaches = true
											}
										}
										// nested: closures inside the closure capturing it transitively
										for j, b := range mc.Bindings {
											if captured[b] {
												inner := mc.Fn.(*ssa.Function)
												scan(inner, map[ssa.Value]bool{inner.FreeVars[j]: true})
											}
										}
									}
								}
							}
						case *ssa.MakeClosure:
							for j, b := range x.Bindings {
								if captured[b] {
									inner := x.Fn.(*ssa.Function)
									scan(inner, map[ssa.Value]bool{inner.FreeVars[j]: true})
								}
							}
						}
					})
				}
				start := map[ssa.Value]bool{prm: true}
				for _, ref := range *prm.Referrers() {
					// a parameter captured by a closure is spilled into a cell; the closure binds the cell
					if st, ok := ref.(*ssa.Store); ok && st.Val == ssa.Value(prm) {
						start[st.Addr] = true
					}
				}
				scan(fn, start)
				if reaches {
					idxs = append(idxs, i)
				}
			}
			if len(idxs) > 0 {
				R[fn] = idxs
				changed = true
			}
		}
	}
	return R
}

type nativeFn struct {
	fn   *ssa.Function
	name string
	site ssa.Instruction
}

// nativesFrom collects the Go functions registered as natives in the functions reachable (static calls, module
// only) from root, skipping the functions in `stop`.
func nativesFrom(p *Program, root *ssa.Function, R map[*ssa.Function][]int, stop map[*ssa.Function]bool) ([]nativeFn, int) {
	seen := map[*ssa.Function]bool{}
	var out []nativeFn
	var walk func(f *ssa.Function)
	walk = func(f *ssa.Function) {
		if f == nil || seen[f] || stop[f] || !InRepo(f) || f.Blocks == nil {
			return
		}
		seen[f] = true
		ForEachInstr(f, func(ins ssa.Instruction) {
			c, ok := ins.(ssa.CallInstruction)
			if !ok {
				return
			}
			callee := c.Common().StaticCallee()
			if callee == nil {
				return
			}
			if ris, ok := R[callee]; ok {
				name := "?"
				for _, a := range c.Common().Args {
					if k, ok := a.(*ssa.Const); ok && k.Value != nil && strings.HasPrefix(k.Value.ExactString(), `"`) {
						name = strings.Trim(k.Value.ExactString(), `"`)
						break
					}
				}
				for _, ri := range ris {
					if ri >= len(c.Common().Args) {
						continue
					}
					a := c.Common().Args[ri]
					if ct, ok := a.(*ssa.ChangeType); ok {
						a = ct.X
					}
					switch v := a.(type) {
					case *ssa.MakeClosure:
						out = append(out, nativeFn{v.Fn.(*ssa.Function), name, ins})
					case *ssa.Function:
						out = append(out, nativeFn{v, name, ins})
					}
				}
				return
			}
			if interpreterDispatch(c.Common()) {
				return
			}
			walk(callee)
		})
		for _, a := range f.AnonFuncs {
			walk(a)
		}
	}
	walk(root)
	return out, len(seen)
}

// capReach: capability sinks reachable from fn with interpreter and native dispatch cut, traversing module functions only.
func capReach(p *Program, root *ssa.Function) (map[string][]string, map[string]bool) {
	caps := map[string][]string{}
	meta := map[string]bool{}
	seen := map[*ssa.Function]bool{}
	var visit func(f *ssa.Function, path []string)
	visit = func(f *ssa.Function, path []string) {
		if f == nil || seen[f] {
			return
		}
		seen[f] = true
		if k, ok := repoSinks(p)[f]; ok {
			if _, dup := caps[k+":"+f.String()]; !dup {
				caps[k+":"+f.String()] = append([]string{}, path...)
			}
			return
		}
		if k, ok := capSinks[f.String()]; ok {
			if _, dup := caps[k+":"+f.String()]; !dup {
				caps[k+":"+f.String()] = append([]string{}, path...)
			}
			return
		}
		if metaSinks[f.String()] {
			meta[f.String()] = true
			return
		}
		if !InRepo(f) || f.Blocks == nil {
			return
		}
		path = append(path, FnName(f))
		ForEachInstr(f, func(ins ssa.Instruction) {
			switch x := ins.(type) {
			case ssa.CallInstruction:
				cc := x.Common()
				if interpreterDispatch(cc) || nativeDispatch(cc) {
					return
				}
				if name, kind := sinkOfCall(cc); kind != "" && cc.IsInvoke() {
					if _, dup := caps[kind+":"+name]; !dup {
						caps[kind+":"+name] = append([]string{}, path...)
					}
				}
				for _, t := range p.Callees(x) {
					visit(t, path)
				}
			case *ssa.MakeClosure:
				visit(x.Fn.(*ssa.Function), path)
			}
		})
	}
	visit(root, nil)
	return caps, meta
}

func ruleSafeLibraryCapabilities(p *Program, r *Report) {
	r.Begin("S18a", "safe-library capability closure: from every Go function registered as a native in the functions reachable from SafeStdScopeTuple, no capability sink — process execution, network client calls, file content open/read/write, the unsafe library StdScope, or compilation with import resolution — is reachable in the VTA call graph with interpreter dispatch (Expr.Eval / Set.CallAll / Pattern.Bind / NativeFnBody calls) cut; registrar combinators (createFunc2/3, createNestedFunc*, newFloatFuncAttr) are resolved at their call sites", 50)
	defer r.End()
	root := p.Func("syntax", "SafeStdScopeTuple")
	if root == nil {
		r.Undecided("anchor", "syntax.SafeStdScopeTuple not found", 0)
		return
	}
	R := registrars(p)
	var rn []string
	for f := range R {
		rn = append(rn, FnName(f))
	}
	sort.Strings(rn)
	r.Notes = append(r.Notes, "registrars: "+strings.Join(rn, " "))
	natives, nreg := nativesFrom(p, root, R, nil)
	r.Notes = append(r.Notes, fmt.Sprintf("S18a: %d registration functions walked, %d natives", nreg, len(natives)))
	ord := map[string]int{}
	metaAll := map[string]bool{}
	for _, nf := range natives {
		r.Fn(FnName(nf.fn))
		caps, meta := capReach(p, nf.fn)
		for m := range meta {
			metaAll[m] = true
		}
		top := nf.fn
		for top.Parent() != nil {
			top = top.Parent()
		}
		base := fmt.Sprintf("native@%s[%s]", FnName(top), nf.name)
		ord[base]++
		if ord[base] > 1 {
			base = fmt.Sprintf("%s~%d", base, ord[base])
		}
		if len(caps) == 0 {
			r.OK(base, "reaches no capability sink", nf.fn.Pos())
			continue
		}
		kinds := map[string][]string{}
		for k, path := range caps {
			kind := k[:strings.Index(k, ":")]
			kinds[kind] = append(kinds[kind], Short(k[strings.Index(k, ":")+1:])+" via "+strings.Join(path, " → "))
		}
		for _, kind := range SortedKeys(kinds) {
			ps := kinds[kind]
			sort.Strings(ps)
			r.ViolPath(base+"#"+kind, fmt.Sprintf("the safe library's native %q can reach a %s capability: %s", nf.name, kind, firstN(ps[0], 300)), nf.fn.Pos(), ps)
		}
	}
	r.Notes = append(r.Notes, "directory-metadata functions reachable from safe natives (outside the property's wording): "+strings.Join(SortedKeys(metaAll), " "))
}

func ruleWhoMayCallStdScope(p *Program, r *Report) {
	r.Begin("S18b", "who may call StdScope: the unsafe library (os.file, net) is handed out only to the interactive host (package pkg/shell); any other caller of syntax.StdScope inside the evaluator gives sandboxed code a route to it", 2)
	defer r.End()
	std := p.Func("syntax", "StdScope")
	if std == nil {
		r.Undecided("anchor", "syntax.StdScope not found", 0)
		return
	}
	ord := map[string]int{}
	for _, fn := range p.RepoFns {
		ForEachInstr(fn, func(ins ssa.Instruction) {
			c, ok := ins.(ssa.CallInstruction)
			if !ok || c.Common().StaticCallee() != std {
				return
			}
			top := fn
			for top.Parent() != nil {
				top = top.Parent()
			}
			key := "caller@" + FnName(top)
			ord[key]++
			if ord[key] > 1 {
				key = fmt.Sprintf("%s~%d", key, ord[key])
			}
			r.Fn(FnName(fn))
			pp := PkgPathOf(fn)
			r.Check(pp == Mod+"/pkg/shell" || pp == Mod+"/cmd/arrai", key, "host-side caller", fmt.Sprintf("%s obtains the full unsafe library: code evaluated with a scope that lacks `//` (e.g. through ImportExpr or //eval.value inside a sandbox) gets //os.file and //net", FnName(top)), ins.Pos())
		})
	}
}

func ruleSandboxBindsLibrary(p *Program, r *Report) {
	r.Begin("S18c", "the sandbox always binds `//`: in contextualEval every path from entry to the evaluation of the sandboxed source passes through scope.With(\"//\", …) or scope.Update(SafeStdScope()) (otherwise PackageExpr falls back to the unsafe library), and the default (no stdlib given) derives from SafeStdScope, never StdScope", 1)
	defer r.End()
	ce := p.Func("syntax", "contextualEval")
	safe := p.Func("syntax", "SafeStdScope")
	std := p.Func("syntax", "StdScope")
	if ce == nil || safe == nil {
		r.Undecided("anchor", "syntax.contextualEval / SafeStdScope not found", 0)
		return
	}
	r.Fn(FnName(ce))
	binds := map[*ssa.BasicBlock]bool{}
	var evalCalls []*ssa.Call
	ForEachInstr(ce, func(ins ssa.Instruction) {
		c, ok := ins.(*ssa.Call)
		if !ok {
			return
		}
		callee := c.Call.StaticCallee()
		if callee == nil {
			return
		}
		switch {
		case callee.Name() == "With" && strings.HasSuffix(c.Type().String(), "rel.Scope"):
			if len(c.Call.Args) >= 2 {
				if k, ok := c.Call.Args[1].(*ssa.Const); ok && k.Value != nil && k.Value.ExactString() == `"//"` {
					binds[ins.Block()] = true
				}
			}
		case callee.Name() == "Update" && strings.HasSuffix(c.Type().String(), "rel.Scope"):
			if DependsOn(c.Call.Args[len(c.Call.Args)-1], func(v ssa.Value) bool {
				cc, ok := v.(*ssa.Call)
				return ok && cc.Call.StaticCallee() == safe
			}) {
				binds[ins.Block()] = true
			}
		case callee.Name() == "EvalWithScope" || callee.Name() == "EvaluateExpr" || callee.Name() == "Compile":
			evalCalls = append(evalCalls, c)
		}
		if std != nil && callee == std {
			r.Viol("default-unsafe", "contextualEval calls StdScope: the sandbox default would be the unsafe library", ins.Pos())
		}
	})
	if len(evalCalls) == 0 {
		r.Undecided("eval-call", "no evaluation call found in contextualEval", ce.Pos())
		return
	}
	// data-flow formulation: the scope argument of the evaluation call is, on every incoming path, derived from
	// With("//", …) or SafeStdScope()
	var bound func(v ssa.Value, seen map[ssa.Value]bool) bool
	var boundRet func(g *ssa.Function, idx int, seen map[ssa.Value]bool) bool
	bound = func(v ssa.Value, seen map[ssa.Value]bool) bool {
		if seen[v] {
			return true // loop-carried: decided by the other edges
		}
		seen[v] = true
		switch x := v.(type) {
		case *ssa.Phi:
			for _, e := range x.Edges {
				if !bound(e, seen) {
					return false
				}
			}
			return true
		case *ssa.Call:
			callee := x.Call.StaticCallee()
			if callee == nil {
				return false
			}
			switch {
			case callee == safe:
				return true
			case callee.Pkg == ce.Pkg && callee.Blocks != nil && callee.Signature.Results().Len() == 1 && callee.Signature.Recv() == nil:
				return boundRet(callee, 0, seen)
			case callee.Name() == "With" && len(x.Call.Args) >= 2:
				if k, ok := x.Call.Args[1].(*ssa.Const); ok && k.Value != nil && k.Value.ExactString() == `"//"` {
					return true
				}
				return bound(x.Call.Args[0], seen)
			case callee.Name() == "Update" || callee.Name() == "MatchedUpdate":
				for _, a := range x.Call.Args {
					if bound(a, seen) {
						return true
					}
				}
				return false
			}
		case *ssa.Extract:
			if c, ok := x.Tuple.(*ssa.Call); ok {
				if g := c.Call.StaticCallee(); g != nil && g.Pkg == ce.Pkg && g.Blocks != nil && g != safe {
					if ok, _ := errPropagated(c); !ok {
						return false
					}
					return boundRet(g, x.Index, seen)
				}
			}
			return bound(x.Tuple, seen)
		}
		return false
	}
	// a scope built by a helper of the package: every return that does not carry a non-nil error returns a bound scope
	boundRet = func(g *ssa.Function, idx int, seen map[ssa.Value]bool) bool {
		r.Fn(FnName(g))
		n := 0
		okAll := true
		ForEachInstr(g, func(ins ssa.Instruction) {
			ret, ok := ins.(*ssa.Return)
			if !ok || idx >= len(ret.Results) {
				return
			}
			last := len(ret.Results) - 1
			if last != idx && types.Identical(ret.Results[last].Type(), types.Universe.Lookup("error").Type()) && !IsNilConst(RetVal(ret, last)) {
				return // error return: the caller propagates it (checked at the call)
			}
			n++
			if !bound(RetVal(ret, idx), seen) {
				okAll = false
			}
		})
		return okAll && n > 0
	}
	for i, ec := range evalCalls {
		var scopeArg ssa.Value
		for _, a := range ec.Call.Args {
			if strings.HasSuffix(a.Type().String(), "rel.Scope") {
				scopeArg = a
			}
		}
		if scopeArg == nil {
			r.Viol(fmt.Sprintf("binds-library~%d", i+1), "contextualEval evaluates the sandboxed source without passing its scope ("+ec.Call.StaticCallee().Name()+"): the full library is used", ec.Pos())
			continue
		}
		r.Check(bound(scopeArg, map[ssa.Value]bool{}), fmt.Sprintf("binds-library~%d", i+1), "on every path the scope handed to the evaluation has `//` bound (With(\"//\", …) or SafeStdScope())", "contextualEval can evaluate the sandboxed source with a scope in which `//` is unbound: PackageExpr.Eval then substitutes the full unsafe library (//os.file, //net)", ec.Pos())
	}
	_ = binds
}

// S18d: scope threading.  Inside the evaluators of package rel, every interpreter dispatch (Expr.Eval, Pattern.Bind,
// direct Bind calls of pattern types) made from a function that itself received a scope must be handed a scope that
// derives from that parameter.  A dispatch given the global EmptyScope instead drops the caller's bindings —
// including `//`, whereupon PackageExpr.Eval substitutes the full unsafe library (S18b).  A dropped-scope dispatch
// that sits on a `param == nil` branch is reachable only if some caller can pass nil there; that is decided from the
// callers' arguments (nil constant or a phi with a nil edge).
func ruleScopeThreading(p *Program, r *Report) {
	r.Begin("S18d", "scope threading: in package rel, a function that receives a rel.Scope hands every nested interpreter dispatch (Expr.Eval / Pattern.Bind) a scope derived from it; a dispatch given the global EmptyScope (which unbinds `//` and so reaches the unsafe library through PackageExpr's fallback) is allowed only on a `value == nil` branch that no caller's argument can take", 1)
	defer r.End()
	relPkg := p.Pkg("rel")
	if relPkg == nil {
		r.Undecided("anchor", "package rel not loaded", 0)
		return
	}
	var empty *ssa.Global
	if g, ok := relPkg.Members["EmptyScope"].(*ssa.Global); ok {
		empty = g
	}
	if empty == nil {
		r.Undecided("anchor", "rel.EmptyScope not found", 0)
		return
	}
	isScope := func(t types.Type) bool { return TypeName(t) == "rel.Scope" }
	p.CG()
	for _, fn := range p.RepoFns {
		if fn.Pkg != relPkg || strings.HasSuffix(p.File(fn.Pos()), "test_helpers.go") {
			continue
		}
		var scopeParam *ssa.Parameter
		for _, q := range fn.Params {
			if isScope(q.Type()) {
				scopeParam = q
			}
		}
		if scopeParam == nil {
			continue
		}
		ord := 0
		ForEachInstr(fn, func(ins ssa.Instruction) {
			c, ok := ins.(*ssa.Call)
			if !ok {
				return
			}
			disp := interpreterDispatch(&c.Call)
			if !disp {
				if g := c.Call.StaticCallee(); g != nil && g.Pkg == relPkg && (g.Name() == "Bind" || g.Name() == "Eval") && g.Signature.Recv() != nil {
					disp = true
				}
			}
			if !disp {
				return
			}
			var sarg ssa.Value
			for _, a := range c.Call.Args {
				if isScope(a.Type()) {
					sarg = a
				}
			}
			if sarg == nil {
				return
			}
			ord++
			r.Sites++
			ld, isLoad := sarg.(*ssa.UnOp)
			if !isLoad || ld.X != ssa.Value(empty) {
				return // a scope computed from something: threading of derived scopes is not judged here
			}
			r.Fn(FnName(fn))
			key := fmt.Sprintf("dropped-scope@%s~%d", FnName(fn), ord)
			// is the site on the nil side of a test of an interface parameter?
			var nilParam *ssa.Parameter
			for d := c.Block(); d != nil && nilParam == nil; d = d.Idom() {
				id := d.Idom()
				if id == nil || len(d.Preds) != 1 {
					continue
				}
				iff, ok := id.Instrs[len(id.Instrs)-1].(*ssa.If)
				if !ok {
					continue
				}
				bo, ok := iff.Cond.(*ssa.BinOp)
				if !ok {
					continue
				}
				var q *ssa.Parameter
				if x, ok := bo.X.(*ssa.Parameter); ok && IsNilConst(bo.Y) {
					q = x
				} else if y, ok := bo.Y.(*ssa.Parameter); ok && IsNilConst(bo.X) {
					q = y
				}
				if q == nil {
					continue
				}
				if (bo.Op == token.NEQ && id.Succs[1] == d) || (bo.Op == token.EQL && id.Succs[0] == d) {
					nilParam = q
				}
			}
			if nilParam == nil {
				r.Viol(key, fmt.Sprintf("%s evaluates a sub-expression or binds a sub-pattern with the global EmptyScope instead of the scope it was given: the caller's bindings, `//` among them, are dropped, and PackageExpr.Eval then substitutes the full unsafe library inside a sandbox", FnName(fn)), c.Pos())
				return
			}
			idx := -1
			for i, q := range fn.Params {
				if q == nilParam {
					idx = i
				}
			}
			// callers that can pass nil for that parameter
			var mayNil func(v ssa.Value, d int) bool
			mayNil = func(v ssa.Value, d int) bool {
				if d > 6 {
					return false
				}
				if IsNilConst(v) {
					return true
				}
				switch x := v.(type) {
				case *ssa.Phi:
					for _, e := range x.Edges {
						if mayNil(e, d+1) {
							return true
						}
					}
				case *ssa.Parameter:
					// the argument is itself a parameter (e.g. of a local closure): look at that function's callers
					g := x.Parent()
					gi := -1
					for i, q := range g.Params {
						if q == x {
							gi = i
						}
					}
					if n := p.cg.Nodes[g]; n != nil && gi >= 0 {
						for _, e := range n.In {
							if e.Site == nil || !InRepo(e.Caller.Func) {
								continue
							}
							args := e.Site.Common().Args
							i := gi
							if e.Site.Common().IsInvoke() {
								i = gi - 1
							}
							if i >= 0 && i < len(args) && mayNil(args[i], d+1) {
								return true
							}
						}
					}
				}
				return false
			}
			node := p.cg.Nodes[fn]
			nCallers := 0
			var offender ssa.CallInstruction
			if node != nil {
				for _, e := range node.In {
					if e.Site == nil || !InRepo(e.Caller.Func) {
						continue
					}
					nCallers++
					args := e.Site.Common().Args
					i := idx
					if e.Site.Common().IsInvoke() {
						i = idx - 1
					}
					if i >= 0 && i < len(args) && mayNil(args[i], 0) {
						offender = e.Site
					}
				}
			}
			if offender != nil {
				r.Viol(key, fmt.Sprintf("%s binds a sub-pattern with the global EmptyScope on its `%s == nil` branch, and %s passes nil there: defaults nested in that sub-pattern are evaluated with `//` unbound and obtain the full unsafe library inside a sandbox", FnName(fn), nilParam.Name(), FnName(offender.Parent())), offender.Pos())
				return
			}
			r.OK(key, fmt.Sprintf("only on the `%s == nil` branch, which none of the %d module call sites can take", nilParam.Name(), nCallers), c.Pos())
		})
	}
	r.Notes = append(r.Notes, fmt.Sprintf("S18d: %d nested dispatches with a scope argument examined", r.Sites))
	if r.Sites < 40 {
		r.Undecided("sites", fmt.Sprintf("only %d nested interpreter dispatches found in package rel (more than 40 confirmed)", r.Sites), 0)
	}
}

func init() { register("C18", Rule{"S18d", ruleScopeThreading}) }

// S18e: the `safe` handle is made only of the safe library.  //std.safe is the documented way to hand "the safe
// library" to an evaluator (`(stdlib: //std.safe +> …)`).  The tuple attribute named "safe" is built in one place;
// that code must run only as part of SafeStdScopeTuple — if the function that builds it is also called while the
// full library is assembled (StdScope), //std.safe as ordinary programs see it contains the unsafe functions.
func ruleSafeHandleBuiltOnlyFromSafe(p *Program, r *Report) {
	r.Begin("S18e", "the safe handle: every construction of a tuple attribute named \"safe\" in package syntax sits in SafeStdScopeTuple or in a function all of whose call sites are in SafeStdScopeTuple (transitively) — never on the path that assembles the full library", 1)
	defer r.End()
	safe := p.Func("syntax", "SafeStdScopeTuple")
	if safe == nil {
		r.Undecided("anchor", "syntax.SafeStdScopeTuple not found", 0)
		return
	}
	p.CG()
	n := 0
	for _, fn := range p.RepoFns {
		if PkgPathOf(fn) != Mod+"/syntax" {
			continue
		}
		ForEachInstr(fn, func(ins ssa.Instruction) {
			c, ok := ins.(*ssa.Call)
			if !ok {
				return
			}
			g := c.Call.StaticCallee()
			if g == nil || !(g.Name() == "NewAttr" || g.Name() == "NewTupleAttr") || len(c.Call.Args) == 0 {
				return
			}
			k, isK := c.Call.Args[0].(*ssa.Const)
			if !isK || k.Value == nil || k.Value.Kind() != constant.String || constant.StringVal(k.Value) != "safe" {
				return
			}
			n++
			top := fn
			for top.Parent() != nil {
				top = top.Parent()
			}
			r.Fn(FnName(top))
			// every caller chain of `top` must end in SafeStdScopeTuple
			var onlyFromSafe func(f *ssa.Function, depth int, seen map[*ssa.Function]bool) (bool, string)
			onlyFromSafe = func(f *ssa.Function, depth int, seen map[*ssa.Function]bool) (bool, string) {
				if f == safe {
					return true, ""
				}
				if depth > 4 || seen[f] {
					return false, FnName(f)
				}
				seen[f] = true
				node := p.cg.Nodes[f]
				if node == nil || len(node.In) == 0 {
					return false, FnName(f) + " (no caller in SafeStdScopeTuple)"
				}
				for _, e := range node.In {
					caller := e.Caller.Func
					for caller.Parent() != nil {
						caller = caller.Parent()
					}
					if ok, who := onlyFromSafe(caller, depth+1, seen); !ok {
						if depth == 0 {
							who = FnName(caller) // name the nearest caller that is not part of the safe assembly
						}
						return false, who
					}
				}
				return true, ""
			}
			ok2, who := onlyFromSafe(top, 0, map[*ssa.Function]bool{})
			r.Check(ok2, fmt.Sprintf("safe-handle@%s", FnName(top)), "built only while assembling the safe library", fmt.Sprintf("%s builds the attribute `safe` and is also reached from %s: the tuple published as //std.safe on that path is not the safe library, so `(stdlib: //std.safe)` hands file and network functions to sandboxed source", FnName(top), who), c.Pos())
		})
	}
	if n == 0 {
		r.Undecided("sites", "no construction of a `safe` attribute found in package syntax", 0)
	}
}

func init() { register("C18", Rule{"S18e", ruleSafeHandleBuiltOnlyFromSafe}) }

// S18f: the configuration of a sandboxed evaluation comes from that evaluation's own argument.  What a sandbox may
// reach is its `scope` and `stdlib`; they are parsed from the config tuple handed to //eval.evaluator.  If the
// parsed configuration can come from package-level state (a cache shared by all evaluators), one evaluator can be
// handed another's scope — and value equality is no safe cache key here: closures compare equal by text (R02h).
func ruleEvalConfigFromArgument(p *Program, r *Report) {
	r.Begin("S18f", "sandbox configuration is not shared: no function of package syntax that returns an EvalConfig returns a value that depends on a package-level variable (a cache or registry) — the configuration is a function of the config tuple passed to this evaluator", 1)
	defer r.End()
	n := 0
	for _, fn := range p.RepoFns {
		if PkgPathOf(fn) != Mod+"/syntax" || fn.Blocks == nil {
			continue
		}
		res := fn.Signature.Results()
		idx := -1
		for i := 0; i < res.Len(); i++ {
			if nt, ok := Deref(res.At(i).Type()).(*types.Named); ok && nt.Obj().Name() == "EvalConfig" {
				idx = i
			}
		}
		if idx < 0 {
			continue
		}
		n++
		r.Fn(FnName(fn))
		var bad *ssa.Global
		var pos token.Pos
		for _, b := range fn.Blocks {
			ret, ok := b.Instrs[len(b.Instrs)-1].(*ssa.Return)
			if !ok || idx >= len(ret.Results) {
				continue
			}
			DependsOn(RetVal(ret, idx), func(x ssa.Value) bool {
				if g, ok := x.(*ssa.Global); ok && g.Pkg != nil && InRepoPkg(g.Pkg) && !initOnlyGlobal(p, g) {
					if bad == nil {
						bad, pos = g, ret.Pos()
					}
					return true
				}
				return false
			})
		}
		if bad != nil {
			r.Viol("config@"+FnName(fn), fmt.Sprintf("%s can return a sandbox configuration taken from the package-level variable %s: state shared by every evaluator in the process, so an evaluation can run with the scope / stdlib that was given to another one", FnName(fn), bad.Name()), pos)
		} else {
			r.OK("config@"+FnName(fn), "derived from the arguments only", fn.Pos())
		}
	}
	if n == 0 {
		r.Undecided("sites", "no function returning an EvalConfig found in package syntax", 0)
	}
}

func init() { register("C18", Rule{"S18f", ruleEvalConfigFromArgument}) }

// initOnlyGlobal: a package variable that is given its value by the package initialiser and never stored again, and
// whose type is not a container that is changed in place (map, sync.Map, slice): a constant in all but name.
func initOnlyGlobal(p *Program, g *ssa.Global) bool {
	switch t := Deref(g.Type()).Underlying().(type) {
	case *types.Map, *types.Slice:
		return false
	case *types.Struct:
		if strings.HasPrefix(Deref(g.Type()).String(), "sync.") {
			return false
		}
		_ = t
	}
	inInit, elsewhere := 0, 0
	for _, fn := range p.RepoFns {
		ForEachInstr(fn, func(ins ssa.Instruction) {
			if st, ok := ins.(*ssa.Store); ok && st.Addr == ssa.Value(g) {
				if fn.Name() == "init" || strings.HasPrefix(fn.Name(), "init#") {
					inInit++
				} else {
					elsewhere++
				}
			}
		})
	}
	return inInit > 0 && elsewhere == 0
}

// S18g: the options of the sandbox configuration are read independently.  `scope` and `stdlib` are separate keys of
// the config tuple; whether one is looked up must not depend on whether the other was present.  A lookup of one
// key on the not-found (or found) branch of another key's lookup silently ignores that key for some configurations,
// and a sandbox that was given a restricted library then runs with the default one.
func ruleConfigKeysIndependent(p *Program, r *Report) {
	r.Begin("S18g", "independent option reads: in every function of package syntax that returns an EvalConfig, no lookup of a constant config key (Get(\"…\")) is control-dependent on the found-flag of the lookup of a different key", 2)
	defer r.End()
	n := 0
	for _, fn := range p.RepoFns {
		if PkgPathOf(fn) != Mod+"/syntax" || fn.Blocks == nil {
			continue
		}
		res := fn.Signature.Results()
		isCfg := false
		for i := 0; i < res.Len(); i++ {
			if nt, ok := Deref(res.At(i).Type()).(*types.Named); ok && nt.Obj().Name() == "EvalConfig" {
				isCfg = true
			}
		}
		if !isCfg {
			continue
		}
		r.Fn(FnName(fn))
		type getT struct {
			call *ssa.Call
			key  string
		}
		var gets []getT
		ForEachInstr(fn, func(ins ssa.Instruction) {
			c, ok := ins.(*ssa.Call)
			if !ok {
				return
			}
			name := ""
			if c.Call.IsInvoke() {
				name = c.Call.Method.Name()
			} else if g := c.Call.StaticCallee(); g != nil {
				name = g.Name()
			}
			if name != "Get" {
				return
			}
			for _, a := range c.Call.Args {
				if k, ok := a.(*ssa.Const); ok && k.Value != nil && k.Value.Kind() == constant.String {
					gets = append(gets, getT{c, constant.StringVal(k.Value)})
				}
			}
		})
		if len(gets) == 0 {
			continue
		}
		pd := NewPostDom(fn)
		for _, g := range gets {
			n++
			other := ""
			for _, d := range pd.TransitiveControlDeps(g.call.Block()) {
				cond := IfCond(d.Br)
				if cond == nil {
					continue
				}
				for _, h := range gets {
					if h.key == g.key || h.call == g.call {
						continue
					}
					if DependsOn(cond, func(x ssa.Value) bool {
						ex, ok := x.(*ssa.Extract)
						return ok && ex.Tuple == ssa.Value(h.call) && ex.Index == 1
					}) {
						other = h.key
					}
				}
			}
			r.Check(other == "", fmt.Sprintf("key@%s#%s", FnName(fn), g.key), "looked up whatever other keys are present", fmt.Sprintf("%s looks up the config key %q only depending on whether the key %q was present: a configuration that carries both (or neither) has %q silently ignored, so the sandbox runs with a default instead of what it was given", FnName(fn), g.key, other, g.key), g.call.Pos())
		}
	}
	if n == 0 {
		r.Undecided("sites", "no constant-key lookup found in a function returning an EvalConfig", 0)
	}
}

func init() { register("C18", Rule{"S18g", ruleConfigKeysIndependent}) }
