package main

import (
	"fmt"
	"go/constant"
	"go/token"
	"go/types"
	"sort"
	"strings"

	"golang.org/x/tools/go/ssa"
)

func init() {
	register("C16",
		Rule{"R16a", ruleImportSanitiser},
		Rule{"R16b", ruleRootPrefix},
		Rule{"R16c", func(p *Program, r *Report) { ruleCondProtocolNamed(p, r, "R16c") }},
		Rule{"R16d", ruleReentrantWait},
	)
}

// evalStringPred evaluates a boolean SSA value that is a combination of string predicates over the value x
// (strings.HasPrefix/HasSuffix/Contains(x, const), x == const, !, phi of short-circuit && / ||) with x := w.
func evalStringPred(v ssa.Value, x ssa.Value, w string, depth int) (bool, bool) {
	if depth > 6 {
		return false, false
	}
	switch c := v.(type) {
	case *ssa.Const:
		if b, ok := BoolConst(c); ok {
			return b, true
		}
	case *ssa.UnOp:
		if c.Op == token.NOT {
			b, ok := evalStringPred(c.X, x, w, depth+1)
			return !b, ok
		}
	case *ssa.BinOp:
		if c.Op == token.EQL || c.Op == token.NEQ {
			var k *ssa.Const
			if c.X == x {
				k, _ = c.Y.(*ssa.Const)
			} else if c.Y == x {
				k, _ = c.X.(*ssa.Const)
			}
			if k != nil && k.Value != nil && k.Value.Kind() == constant.String {
				eq := constant.StringVal(k.Value) == w
				if c.Op == token.NEQ {
					eq = !eq
				}
				return eq, true
			}
		}
	case *ssa.Call:
		callee := c.Call.StaticCallee()
		if callee == nil || len(c.Call.Args) != 2 || c.Call.Args[0] != x {
			return false, false
		}
		k, ok := c.Call.Args[1].(*ssa.Const)
		if !ok || k.Value == nil || k.Value.Kind() != constant.String {
			return false, false
		}
		s := constant.StringVal(k.Value)
		switch callee.String() {
		case "strings.HasPrefix":
			return strings.HasPrefix(w, s), true
		case "strings.HasSuffix":
			return strings.HasSuffix(w, s), true
		case "strings.Contains":
			return strings.Contains(w, s), true
		}
	case *ssa.Phi:
		// short-circuit: edges are constants or sub-conditions; the selecting conditions are the predecessors' Ifs.
		// a || b : phi [true from A-true, b]; evaluate as: any constant-true edge whose pred cond evaluates true …
		// conservative: evaluate every non-constant edge and every predecessor condition; result = OR for a phi with a
		// constant true edge, AND for a phi with a constant false edge.
		hasTrue, hasFalse := false, false
		var subs []ssa.Value
		for i, e := range c.Edges {
			if b, ok := BoolConst(e); ok {
				if b {
					hasTrue = true
				} else {
					hasFalse = true
				}
				if cond := IfCond(c.Block().Preds[i]); cond != nil {
					subs = append(subs, cond)
				}
				continue
			}
			subs = append(subs, e)
		}
		if hasTrue == hasFalse {
			return false, false
		}
		res := hasFalse // AND starts true, OR starts false
		for _, sv := range subs {
			b, ok := evalStringPred(sv, x, w, depth+1)
			if !ok {
				return false, false
			}
			if hasTrue {
				res = res || b
			} else {
				res = res && b
			}
		}
		return res, true
	}
	return false, false
}

func ruleImportSanitiser(p *Program, r *Report) {
	r.Begin("R16a", "sanitiser presence and coverage: in compilePackage the import path text reaches importLocalFile only after a lexical normaliser (path.Clean / filepath.Clean) and a rejecting branch on the normalised value that dominates the call; the rejecting condition, evaluated symbolically on the witness set of every shape an escaping normalised relative path can take (\"..\", \"../x\", \"../../x\"), rejects each of them", 4)
	defer r.End()
	cp := p.Method("syntax", "ParseContext", "compilePackage")
	ilf := p.Func("syntax", "importLocalFile")
	if cp == nil || ilf == nil {
		r.Undecided("anchor", "compilePackage / importLocalFile not found", 0)
		return
	}
	r.Fn(FnName(cp))
	calls := callsTo(cp, ilf)
	if len(calls) == 0 {
		r.Undecided("call", "compilePackage does not call importLocalFile", cp.Pos())
		return
	}
	for i, c := range calls {
		pathArg := c.Call.Args[4]
		// cleaners on the def-use path
		var cleans []*ssa.Call
		DependsOn(pathArg, func(v ssa.Value) bool {
			if cc, ok := v.(*ssa.Call); ok {
				if callee := cc.Call.StaticCallee(); callee != nil && (callee.String() == "path.Clean" || callee.String() == "path/filepath.Clean") {
					cleans = append(cleans, cc)
				}
			}
			return false
		})
		key := fmt.Sprintf("import-call~%d", i+1)
		if !r.Check(len(cleans) > 0, key+"#normalised", "the path is lexically normalised before use", "the import path reaches importLocalFile without passing path.Clean / filepath.Clean: `a/../../x` style paths are not reduced before the escape test", c.Pos()) {
			continue
		}
		// a rejecting branch on a cleaned value (or on a phi carrying it) dominating the call
		type guard struct {
			iff  *ssa.If
			x    ssa.Value
			succ int // successor that rejects
		}
		var guards []guard
		for _, b := range cp.Blocks {
			iff, ok := b.Instrs[len(b.Instrs)-1].(*ssa.If)
			if !ok || !InstrDominates(iff, c) {
				continue
			}
			for _, cl := range cleans {
				cl := cl
				if !DependsOn(iff.Cond, func(v ssa.Value) bool { return v == ssa.Value(cl) }) {
					continue
				}
				for s, succ := range b.Succs {
					if ok, _ := endsInErrorReturn(succ); ok {
						// which value does the predicate test?  the clean result or a phi of it
						var x ssa.Value = cl
						DependsOn(iff.Cond, func(v ssa.Value) bool {
							// the operand the string predicate is applied to (the clean result or a value carrying it)
							if pc, ok := v.(*ssa.Call); ok && len(pc.Call.Args) == 2 {
								if callee := pc.Call.StaticCallee(); callee != nil && strings.HasPrefix(callee.String(), "strings.") {
									if DependsOn(pc.Call.Args[0], func(y ssa.Value) bool { return y == ssa.Value(cl) }) {
										x = pc.Call.Args[0]
									}
								}
							}
							return false
						})
						guards = append(guards, guard{iff, x, s})
					}
				}
			}
		}
		if !r.Check(len(guards) > 0, key+"#rejecting-branch", "a branch on the normalised path with an error successor dominates the import", "no branch that can reject the normalised import path stands between the path text and importLocalFile: `//{./../../x}` is read from outside the module", c.Pos()) {
			continue
		}
		for _, w := range []string{"..", "../x", "../../x"} {
			rejected, decided := false, false
			for _, g := range guards {
				v, ok := evalStringPred(g.iff.Cond, g.x, w, 0)
				if !ok {
					continue
				}
				decided = true
				if (v && g.succ == 0) || (!v && g.succ == 1) {
					rejected = true
				}
			}
			wk := fmt.Sprintf("%s#rejects[%s]", key, w)
			if !decided {
				r.Info(wk, "the rejecting condition is outside the evaluable fragment (strings.HasPrefix/HasSuffix/Contains, ==, !, &&, ||); presence only", c.Pos())
				continue
			}
			r.Check(rejected, wk, "escaping shape rejected", fmt.Sprintf("the rejecting test lets the normalised path %q through: a relative import that cleans to it is read from outside the importing script's directory", w), c.Pos())
		}
	}
}

func ruleRootPrefix(p *Program, r *Report) {
	r.Begin("R16b", "root prefixing: for root imports (fromRoot) the path importLocalFile reads is built by prefixing the module root found by findRootFromModule; the read (fileValue) and the recorder both receive that value", 2)
	defer r.End()
	ilf := p.Func("syntax", "importLocalFile")
	frm := p.Func("syntax", "findRootFromModule")
	fv := p.Func("syntax", "fileValue")
	if ilf == nil || frm == nil || fv == nil {
		r.Undecided("anchor", "importLocalFile / findRootFromModule / fileValue not found", 0)
		return
	}
	r.Fn(FnName(ilf))
	// the root lookup: a call of findRootFromModule, or of a package-local helper that calls it and returns the
	// prefixed path (resolution extracted into a function)
	isRootExtract := func(fn *ssa.Function) func(ssa.Value) bool {
		return func(y ssa.Value) bool {
			if ex, ok := y.(*ssa.Extract); ok {
				if c, ok := ex.Tuple.(*ssa.Call); ok && c.Call.StaticCallee() == frm {
					return true
				}
			}
			return false
		}
	}
	concatIn := func(fn *ssa.Function, v ssa.Value) bool {
		return DependsOn(v, func(x ssa.Value) bool {
			bo, ok := x.(*ssa.BinOp)
			if !ok || bo.Op != token.ADD {
				return false
			}
			return DependsOn(bo.X, isRootExtract(fn))
		})
	}
	helperPrefixes := func(h *ssa.Function) bool {
		if h == nil || h.Pkg != ilf.Pkg || h.Blocks == nil || len(callsTo(h, frm)) == 0 {
			return false
		}
		r.Fn(FnName(h))
		found := false
		ForEachInstr(h, func(ins ssa.Instruction) {
			if ret, ok := ins.(*ssa.Return); ok && len(ret.Results) > 0 && concatIn(h, RetVal(ret, 0)) {
				found = true
			}
		})
		return found
	}
	var lookups []*ssa.Call
	viaHelper := map[*ssa.Call]bool{}
	ForEachInstr(ilf, func(ins ssa.Instruction) {
		c, ok := ins.(*ssa.Call)
		if !ok {
			return
		}
		g := c.Call.StaticCallee()
		switch {
		case g == frm:
			lookups = append(lookups, c)
		case g != nil && g != fv && helperPrefixes(g):
			lookups = append(lookups, c)
			viaHelper[c] = true
		}
	})
	if len(lookups) == 0 {
		r.Viol("finds-root", "importLocalFile no longer asks findRootFromModule for the module root", ilf.Pos())
		return
	}
	// the fromRoot parameter
	var fromRoot *ssa.Parameter
	for _, prm := range ilf.Params {
		if prm.Type().String() == "bool" {
			fromRoot = prm
		}
	}
	if fromRoot == nil {
		r.Undecided("fromRoot", "no boolean parameter", ilf.Pos())
		return
	}
	r.Check(!reachableWhen(ilf, fromRoot, false)[lookups[0].Block()], "root-only-for-root-imports", "the root lookup happens only for root imports", "findRootFromModule is consulted for relative imports as well", lookups[0].Pos())
	fromLookup := func(v ssa.Value) bool {
		if ex, ok := v.(*ssa.Extract); ok {
			return ex.Tuple == ssa.Value(lookups[0])
		}
		return v == ssa.Value(lookups[0])
	}
	for i, c := range callsTo(ilf, fv) {
		arg := c.Call.Args[len(c.Call.Args)-1]
		// the value read depends on the root found (through the phi of the fromRoot branch)
		dep := DependsOn(arg, fromLookup)
		// and it is a concatenation root + "/" + … (in importLocalFile, or inside the helper)
		concat := viaHelper[lookups[0]] || concatIn(ilf, arg)
		r.Check(dep && concat, fmt.Sprintf("read-under-root~%d", i+1), "the file read for a root import is rootPath + \"/\" + …", "for a root import the path handed to fileValue is not built by prefixing the module root returned by findRootFromModule: the import is resolved against something else (cwd / importer's directory)", c.Pos())
	}
}

func ruleReentrantWait(p *Program, r *Report) {
	r.Begin("R16d", "import cycles fail fast: getOrAdd marks a key in flight and runs its callback without the lock; the callback reaches getOrAdd again (call-graph cycle through Compile → import → GetOrAddFromCache); unless the in-flight test can tell the waiting goroutine from the owner (an owner / import-stack carried in the context and compared in the wait loop), a cyclic import waits on its own marker forever", 1)
	defer r.End()
	goa := p.Method("pkg/importcache", "importCache", "getOrAdd")
	gofc := p.Func("pkg/importcache", "GetOrAddFromCache")
	if goa == nil || gofc == nil {
		r.Undecided("anchor", "importcache.getOrAdd / GetOrAddFromCache not found", 0)
		return
	}
	r.Fn(FnName(goa))
	// 1. re-entrancy: from the `add` callbacks passed to GetOrAddFromCache, is GetOrAddFromCache reachable?
	reentrant := false
	var path []string
	for _, fn := range p.RepoFns {
		for _, c := range callsTo(fn, gofc) {
			for _, a := range c.Call.Args {
				var cb *ssa.Function
				switch v := a.(type) {
				case *ssa.MakeClosure:
					cb = v.Fn.(*ssa.Function)
				case *ssa.Function:
					cb = v
				}
				if cb == nil {
					continue
				}
				seen := map[*ssa.Function]bool{}
				type item struct {
					f *ssa.Function
					p []string
				}
				work := []item{{cb, []string{FnName(cb)}}}
				for len(work) > 0 && !reentrant {
					it := work[0]
					work = work[1:]
					if seen[it.f] {
						continue
					}
					seen[it.f] = true
					ForEachInstr(it.f, func(ins ssa.Instruction) {
						ci, ok := ins.(ssa.CallInstruction)
						if !ok || interpreterDispatch(ci.Common()) {
							return
						}
						for _, t := range p.Callees(ci) {
							if t == gofc {
								reentrant = true
								path = append(append([]string{}, it.p...), FnName(t))
							}
							if t != nil && InRepo(t) && t.Blocks != nil && !seen[t] {
								work = append(work, item{t, append(append([]string{}, it.p...), FnName(t))})
							}
						}
					})
				}
			}
		}
	}
	if !reentrant {
		r.OK("reentrancy", "the add callbacks cannot reach the import cache again", goa.Pos())
		return
	}
	// 2. owner test: the wait loop's controlling conditions depend on something other than the map lookup of the key
	//    (e.g. a context value / owner id parameter)
	hasCtx := false
	for _, prm := range goa.Params {
		if strings.Contains(prm.Type().String(), "context.Context") {
			hasCtx = true
		}
	}
	ownerTest := false
	if hasCtx {
		// some branch dominating the Wait depends on the context parameter
		for _, b := range goa.Blocks {
			cond := IfCond(b)
			if cond == nil {
				continue
			}
			if DependsOn(cond, func(v ssa.Value) bool {
				prm, ok := v.(*ssa.Parameter)
				return ok && strings.Contains(prm.Type().String(), "context.Context")
			}) {
				ownerTest = true
			}
		}
	}
	if ownerTest {
		r.OK("cycle-detection", "the wait loop consults an owner/stack carried in the context", goa.Pos())
	} else {
		r.ViolPath("cycle-detection", "getOrAdd waits for an in-flight marker without being able to tell that the marker is its own goroutine's (no owner or import stack is compared): a.arrai importing b.arrai importing a.arrai never returns instead of reporting an import cycle", goa.Pos(), path)
	}
}

// R16e: the module-root cache only remembers roots where they were found.  findRootFromModule answers from
// ctxrootcache before it walks the directories, so a wrong entry silently changes which tree a root import
// `//{/x}` resolves against (a nested module's scripts would read the outer module's files).  Every StoreRoot call
// must therefore sit on the true branch of a sentinel-existence test (FileExists of <root>/go.mod) of the very root
// value it stores.
func ruleRootCacheSoundness(p *Program, r *Report) {
	r.Begin("R16e", "module-root cache soundness: every ctxrootcache.StoreRoot(ctx, dir, root) call in the module is dominated by the true branch of a test of tools.FileExists(join(root, ModuleRootSentinel)) on the same root value — a root is cached only where its sentinel was just found; any other store (e.g. the importer's root for an imported file's directory) makes nested modules resolve root imports against the wrong tree", 1)
	defer r.End()
	store := p.Func("pkg/ctxrootcache", "StoreRoot")
	if store == nil {
		r.Undecided("anchor", "ctxrootcache.StoreRoot not found", 0)
		return
	}
	n := 0
	for _, fn := range p.RepoFns {
		for _, c := range callsTo(fn, store) {
			n++
			r.Fn(FnName(fn))
			key := fmt.Sprintf("store@%s~%d", FnName(fn), n)
			if len(c.Call.Args) < 3 {
				r.Undecided(key, "unexpected StoreRoot signature", c.Pos())
				continue
			}
			// judge(site, root): the site is dominated by the true branch of the sentinel test of that root value; when the
			// root is a parameter of the enclosing function (a store extracted into a helper), every call site of that
			// function is judged instead
			var judge func(site *ssa.Call, root ssa.Value, depth int) bool
			judge = func(site *ssa.Call, root ssa.Value, depth int) bool {
				if prm, isParam := root.(*ssa.Parameter); isParam && depth < 3 {
					h := prm.Parent()
					idx := -1
					for i, q := range h.Params {
						if q == prm {
							idx = i
						}
					}
					var callers []*ssa.Call
					all := true
					if n := p.CG().Nodes[h]; n != nil {
						for _, e := range n.In {
							if cs, isCall := e.Site.(*ssa.Call); isCall && cs.Call.StaticCallee() == h {
								callers = append(callers, cs)
							} else {
								all = false
							}
						}
					}
					if idx >= 0 && all && len(callers) > 0 {
						for _, cs := range callers {
							if !judge(cs, cs.Call.Args[idx], depth+1) {
								return false
							}
						}
						return true
					}
				}
				for d := site.Block(); d != nil; d = d.Idom() {
					id := d.Idom()
					if id == nil {
						break
					}
					iff, isIf := id.Instrs[len(id.Instrs)-1].(*ssa.If)
					if !isIf || id.Succs[0] != d || len(d.Preds) != 1 {
						continue
					}
					// the condition is exactly the bool result of an existence test (not a disjunction with something
					// else) whose path argument contains root and the sentinel
					var condCall ssa.Value = iff.Cond
					if ex, isEx := iff.Cond.(*ssa.Extract); isEx {
						condCall = ex.Tuple
					}
					fc, isCall := condCall.(*ssa.Call)
					if !isCall {
						continue
					}
					g := fc.Call.StaticCallee()
					if g == nil || !(strings.Contains(g.Name(), "Exists") || g.Name() == "Stat") {
						continue
					}
					for _, a := range fc.Call.Args {
						usesRoot := DependsOn(a, func(y ssa.Value) bool { return y == root })
						usesSentinel := DependsOn(a, func(y ssa.Value) bool {
							k, isK := y.(*ssa.Const)
							return isK && k.Value != nil && k.Value.Kind() == constant.String && constant.StringVal(k.Value) == "go.mod"
						})
						if usesRoot && usesSentinel {
							return true
						}
					}
				}
				return false
			}
			ok := judge(c, c.Call.Args[2], 0)
			r.Check(ok, key, "stores a root whose sentinel was just found", fmt.Sprintf("%s stores a module root in the root cache without having found the sentinel at that root: findRootFromModule answers from the cache first, so scripts in that directory resolve `//{/…}` imports against this root even when a nearer go.mod makes them part of another module", FnName(fn)), c.Pos())
		}
	}
	if n == 0 {
		r.Undecided("sites", "no StoreRoot call found", 0)
	}
}

func init() { register("C16", Rule{"R16e", ruleRootCacheSoundness}) }

// R16f: nothing rewrites the import path after the confinement check.  compilePackage cleans the path text and
// rejects one that leaves the module (R16a) before it calls importLocalFile; from there to the read the path may
// only be trimmed, prefixed/joined, cleaned or have text removed.  A step that can put new separators or `..`
// segments into it (a replacement with non-empty text, separator conversion, unescaping, formatting) re-opens what
// the check closed: `./sub\..\..\secret` is one harmless segment for the check and three after `\` became `/`.
func ruleNoRewriteAfterCheck(p *Program, r *Report) {
	r.Begin("R16f", "no rewriting after the confinement check: between importLocalFile's path parameter and the file read / recorder, the path flows only through operations that cannot introduce separators or `..` segments (trimming, removal, prefixing, Join, Clean, Ext/Dir/Base); any other transformation of the path text (replacement with non-empty text, ToSlash/FromSlash, unescaping, Sprintf …) is a violation, and so is trimming separators off a path that already carries the module root", 2)
	defer r.End()
	ilf := p.Func("syntax", "importLocalFile")
	fv := p.Func("syntax", "fileValue")
	if ilf == nil || fv == nil {
		r.Undecided("anchor", "syntax.importLocalFile / fileValue not found", 0)
		return
	}
	var pathParam *ssa.Parameter
	for _, q := range ilf.Params {
		if b, ok := q.Type().Underlying().(*types.Basic); ok && b.Kind() == types.String {
			pathParam = q // the first string parameter is the import path
			break
		}
	}
	if pathParam == nil {
		r.Undecided("param", "importLocalFile has no string parameter", ilf.Pos())
		return
	}
	harmless := func(g *ssa.Function, c *ssa.Call) bool {
		if g == nil || g.Pkg == nil {
			return false
		}
		pp, nm := g.Pkg.Pkg.Path(), g.Name()
		switch pp {
		case "strings":
			switch {
			case strings.HasPrefix(nm, "Trim"):
				// trimming separators off a path that already carries the module root can fuse the root with what
				// follows (`<root>/` → `<root>` + `.arrai` names a sibling of the root directory)
				cutsSep := false
				for _, a := range c.Call.Args[1:] {
					if k, ok := a.(*ssa.Const); ok && k.Value != nil && k.Value.Kind() == constant.String && strings.ContainsAny(constant.StringVal(k.Value), "/\\") {
						cutsSep = true
					}
				}
				if cutsSep && len(c.Call.Args) > 0 && DependsOn(c.Call.Args[0], func(y ssa.Value) bool {
					cc, ok := y.(*ssa.Call)
					if !ok {
						return false
					}
					g2 := cc.Call.StaticCallee()
					return g2 != nil && InRepo(g2) && strings.Contains(strings.ToLower(g2.Name()), "root")
				}) {
					return false
				}
				return true
			case strings.HasPrefix(nm, "Has"), strings.HasPrefix(nm, "Contains"), strings.HasPrefix(nm, "Index"), nm == "Count", nm == "EqualFold", nm == "Split", nm == "Fields":
				return true
			case nm == "ReplaceAll" || nm == "Replace":
				// removal only
				if len(c.Call.Args) >= 3 {
					if k, ok := c.Call.Args[2].(*ssa.Const); ok && k.Value != nil && k.Value.Kind() == constant.String && constant.StringVal(k.Value) == "" {
						return true
					}
				}
				return false
			}
			return false
		case "path", "path/filepath":
			switch nm {
			case "Join", "Clean", "Ext", "Dir", "Base", "IsAbs", "Abs", "Rel", "VolumeName", "Split":
				return true
			}
			return false
		}
		return InRepo(g) // module helpers are followed / judged by the other rules
	}
	n := 0
	seenStep := map[*ssa.Call]bool{}
	ordStep := map[string]int{}
	var pathOf ssa.Value = pathParam
	check := func(fn *ssa.Function, sink *ssa.Call, arg ssa.Value) {
		pathParam := pathOf
		DependsOn(arg, func(x ssa.Value) bool {
			c, ok := x.(*ssa.Call)
			if !ok || seenStep[c] {
				return false
			}
			// does this call transform the import path?
			touches := false
			for _, a := range c.Call.Args {
				if DependsOn(a, func(y ssa.Value) bool { return y == ssa.Value(pathParam) }) {
					touches = true
				}
			}
			if !touches {
				return false
			}
			n++
			seenStep[c] = true
			g := c.Call.StaticCallee()
			name := "a dynamic call"
			if g != nil {
				name = g.String()
			}
			ordStep[name]++
			key := fmt.Sprintf("step@%s#%s~%d", FnName(fn), name, ordStep[name])
			r.Check(harmless(g, c), key, "cannot introduce separators or `..` segments", fmt.Sprintf("%s rewrites the import path with %s after compilePackage has checked it against leaving the module: text that was one harmless segment for the check (backslashes, escapes) can become `..` segments before the file is read", FnName(fn), name), c.Pos())
			return false
		})
	}
	// the path is followed into the package-local helpers it is handed to (the body moved into a helper)
	seenFn := map[*ssa.Function]bool{}
	var analyse func(fn *ssa.Function, prm ssa.Value, depth int)
	analyse = func(fn *ssa.Function, prm ssa.Value, depth int) {
		if seenFn[fn] || depth > 2 {
			return
		}
		seenFn[fn] = true
		r.Fn(FnName(fn))
		ForEachInstr(fn, func(ins ssa.Instruction) {
			c, ok := ins.(*ssa.Call)
			if !ok {
				return
			}
			g := c.Call.StaticCallee()
			if g == nil || !InRepo(g) {
				return
			}
			for i, a := range c.Call.Args {
				if b, isB := a.Type().Underlying().(*types.Basic); isB && b.Kind() == types.String && DependsOn(a, func(y ssa.Value) bool { return y == prm }) {
					pathOf = prm
					check(fn, c, a)
					if g.Pkg == ilf.Pkg && g != fv && g.Blocks != nil && i < len(g.Params) {
						analyse(g, g.Params[i], depth+1)
					}
				}
			}
		})
	}
	analyse(ilf, pathParam, 0)
	if n == 0 {
		r.Undecided("steps", "no operation on the import path found in importLocalFile (Trim and the root prefixing were confirmed by hand)", ilf.Pos())
	}
}

func init() { register("C16", Rule{"R16f", ruleNoRewriteAfterCheck}) }

// R16g: an import-cache key names everything the cached content depends on.  GetOrAddFromCache(ctx, key, add)
// returns the first value computed under `key` to every later caller.  If the add callback's result depends on a
// string input of the enclosing function (a path, a source directory, a URL) that the key does not depend on, two
// imports that differ only in that input share one entry — a nested module's `//{/util}` is answered with the outer
// module's file.
func ruleCacheKeyCoversInputs(p *Program, r *Report) {
	r.Begin("R16g", "cache key covers the inputs: at every call of importcache.GetOrAddFromCache in the module, every string-typed parameter of the enclosing function that the add callback captures (directly or through what it captures) is also an input of the key expression — otherwise imports that differ only in that parameter (the importing script's directory, hence its module root) are served one another's content", 2)
	defer r.End()
	goa := p.Func("pkg/importcache", "GetOrAddFromCache")
	if goa == nil {
		r.Undecided("anchor", "importcache.GetOrAddFromCache not found", 0)
		return
	}
	strParams := func(fn *ssa.Function, v ssa.Value) map[string]bool {
		out := map[string]bool{}
		top := fn
		for top.Parent() != nil {
			top = top.Parent()
		}
		DependsOn(v, func(x ssa.Value) bool {
			var prm *ssa.Parameter
			switch y := x.(type) {
			case *ssa.Parameter:
				prm = y
			case *ssa.Alloc:
				if q, ok := paramCell(y); ok {
					prm = q
				}
			}
			if prm != nil {
				if b, ok := prm.Type().Underlying().(*types.Basic); ok && b.Kind() == types.String {
					out[prm.Name()] = true
				}
			}
			return false
		})
		return out
	}
	n := 0
	for _, fn := range p.RepoFns {
		for i, c := range callsTo(fn, goa) {
			if len(c.Call.Args) < 3 {
				continue
			}
			n++
			r.Fn(FnName(fn))
			key := fmt.Sprintf("key@%s~%d", FnName(fn), i+1)
			keyIn := strParams(fn, c.Call.Args[1])
			cbIn := map[string]bool{}
			if mc, ok := c.Call.Args[2].(*ssa.MakeClosure); ok {
				for _, b := range mc.Bindings {
					for k := range strParams(fn, b) {
						cbIn[k] = true
					}
				}
			} else {
				for k := range strParams(fn, c.Call.Args[2]) {
					cbIn[k] = true
				}
			}
			var missing []string
			for k := range cbIn {
				if !keyIn[k] {
					missing = append(missing, k)
				}
			}
			sort.Strings(missing)
			r.Check(len(missing) == 0, key, "the key depends on every string input the callback uses", fmt.Sprintf("%s caches under a key that does not depend on %v although the cached content does: two imports that differ only there (e.g. the same root-relative spelling from scripts of two different modules) share one cache entry", FnName(fn), missing), c.Pos())
		}
	}
	if n < 2 {
		r.Undecided("sites", fmt.Sprintf("only %d GetOrAddFromCache call sites found", n), 0)
	}
}

func init() { register("C16", Rule{"R16g", ruleCacheKeyCoversInputs}) }

// R16h: every spelling of an import gets the same file name.  An import path without an extension means
// `<path>.arrai`.  The reader (fileValue), the recorder (bundleLocalFile) and the module bundler each apply that
// rule themselves; they agree only as long as each appends the extension under the same condition — the path has no
// extension — and under nothing else (what happens to exist on disk, the importing mode …).
func ruleExtensionRuleAgrees(p *Program, r *Report) {
	r.Begin("R16h", "one extension rule: every place in package syntax that appends the script extension (arraiExt / \".arrai\") to an import path does so under a condition that depends only on filepath.Ext / path.Ext of that path — not on a file-system test or other state — so that the reader, the recorder and the bundle run resolve one spelling to one file", 2)
	defer r.End()
	n := 0
	for _, fn := range p.RepoFns {
		if PkgPathOf(fn) != Mod+"/syntax" {
			continue
		}
		pd := (*PostDom)(nil)
		ord := 0
		ForEachInstr(fn, func(ins ssa.Instruction) {
			bo, ok := ins.(*ssa.BinOp)
			if !ok || bo.Op != token.ADD {
				return
			}
			k, isK := bo.Y.(*ssa.Const)
			if !isK || k.Value == nil || k.Value.Kind() != constant.String || constant.StringVal(k.Value) != ".arrai" {
				return
			}
			n++
			ord++
			r.Fn(FnName(fn))
			if pd == nil {
				pd = NewPostDom(fn)
			}
			key := fmt.Sprintf("append@%s~%d", FnName(fn), ord)
			other := ""
			for _, cd := range pd.ControlDeps(bo.Block()) {
				cond := IfCond(cd.Br)
				if cond == nil {
					continue
				}
				// walk the condition's operands; the extension query is a leaf (whatever path it is asked about)
				seen := map[ssa.Value]bool{}
				var walk func(x ssa.Value)
				walk = func(x ssa.Value) {
					if x == nil || seen[x] {
						return
					}
					seen[x] = true
					if c, ok := x.(*ssa.Call); ok && !strings.HasPrefix(CalleeName(&c.Call), "builtin ") {
						name := CalleeName(&c.Call)
						if strings.HasSuffix(name, "filepath.Ext") || strings.HasSuffix(name, "path.Ext") {
							return
						}
						// a package-local predicate that itself only asks about the text of the path
						if g := c.Call.StaticCallee(); g != nil && len(g.Blocks) > 0 && PkgPathOf(g) == Mod+"/syntax" {
							pure := true
							ForEachInstr(g, func(i2 ssa.Instruction) {
								if c2, ok := i2.(*ssa.Call); ok {
									n2 := CalleeName(&c2.Call)
									if !(strings.HasSuffix(n2, "filepath.Ext") || strings.HasSuffix(n2, "path.Ext") || strings.HasPrefix(n2, "strings.")) {
										pure = false
									}
								}
							})
							if pure {
								return
							}
						}
						if other == "" {
							other = name
						}
						return
					}
					if ph, ok := x.(*ssa.Phi); ok {
						for _, pb := range ph.Block().Preds {
							if c := IfCond(pb); c != nil {
								walk(c)
							}
						}
					}
					if ins, ok := x.(ssa.Instruction); ok {
						var ops []*ssa.Value
						for _, o := range ins.Operands(ops) {
							walk(*o)
						}
					}
				}
				walk(cond)
			}
			r.Check(other == "", key, "appended exactly when the path has no extension", fmt.Sprintf("%s appends the script extension under a condition that also depends on %s: another place that resolves the same import (the recorder, the bundle run) applies the plain rule, so one spelling names two different files", FnName(fn), other), bo.Pos())
		})
	}
	if n < 2 {
		r.Undecided("sites", fmt.Sprintf("only %d places append the script extension (fileValue, bundleLocalFile, bundleModule confirmed)", n), 0)
	}
}

func init() {
	register("C16", Rule{"R16h", ruleExtensionRuleAgrees})
	register("C15", Rule{"R16h", ruleExtensionRuleAgrees})
}

// R16i: whether a path names a file or a directory is not decided from its spelling.  Directory names may contain
// dots (`lib@v1.2.3`, `api.v2`): stepping to the parent because `filepath.Ext` is non-empty starts the module-root
// walk one level too high and resolves `//{/x}` against an enclosing module.
func ruleNoDirByExtension(p *Program, r *Report) {
	r.Begin("R16i", "file-or-directory is not guessed from the name: in package syntax no filepath.Dir / path.Dir application is control-dependent on a test of filepath.Ext / path.Ext (a directory whose name contains a dot would be taken for a file and the module-root search would start at its parent)", 0)
	defer r.End()
	n := 0
	for _, fn := range p.RepoFns {
		if PkgPathOf(fn) != Mod+"/syntax" || fn.Blocks == nil {
			continue
		}
		var pd *PostDom
		ord := 0
		ForEachInstr(fn, func(ins ssa.Instruction) {
			c, ok := ins.(*ssa.Call)
			if !ok {
				return
			}
			nm := CalleeName(&c.Call)
			if nm != "path/filepath.Dir" && nm != "path.Dir" {
				return
			}
			if pd == nil {
				pd = NewPostDom(fn)
			}
			for _, cd := range pd.ControlDeps(c.Block()) {
				cond := IfCond(cd.Br)
				if cond == nil {
					continue
				}
				if DependsOn(cond, func(x ssa.Value) bool {
					cc, ok := x.(*ssa.Call)
					if !ok {
						return false
					}
					m := CalleeName(&cc.Call)
					return m == "path/filepath.Ext" || m == "path.Ext"
				}) {
					n++
					ord++
					r.Fn(FnName(fn))
					r.Viol(fmt.Sprintf("dir-by-ext@%s~%d", FnName(fn), ord), fmt.Sprintf("%s takes the parent directory of a path when the path has an extension: a directory named like `lib@v1.2.3` or `api.v2` is mistaken for a file, the search for the module root starts above it and root imports resolve against the enclosing module", FnName(fn)), c.Pos())
					return
				}
			}
		})
	}
	if n == 0 {
		r.OK("dir-by-ext", "no Dir() under an Ext() test in package syntax", 0)
	}
}

func init() { register("C16", Rule{"R16i", ruleNoDirByExtension}) }
