package main

import (
	"fmt"
	"go/types"
	"sort"
	"strings"

	"golang.org/x/tools/go/ssa"
)

func init() {
	register("C05", Rule{"R05a", ruleKeyedDispatchTotality}, Rule{"R05c", ruleOffsetAccounted}, Rule{"R05b", ruleHoleDiscipline})
}

func ruleKeyedDispatchTotality(p *Program, r *Report) {
	r.Begin("R05a", "keyed-collection dispatch totality: TS-SCCP of every set representation's CallAll under every argument type, and of Concatenate and the evaluators behind >>, >>> and n\\seq under every keyed representation: no cell definitely panics for all values of those types (function representations are reported under C10)", 150)
	defer r.End()
	s := relSCCP(p, r)
	sets := setImplementers(p)
	vts := p.ValueTypes()
	check := func(key string, fn *ssa.Function, args []AVal) {
		if fn == nil {
			return
		}
		res := s.Analyze(fn, args)
		if res == nil {
			r.Info(key, "not analysable", fn.Pos())
			return
		}
		r.Fn(FnName(fn))
		r.Check(!res.Panics, key, "not definitely panicking", fmt.Sprintf("%s definitely panics for all operands of these representations: %s", key, s.PanicDesc(res)), fn.Pos())
	}
	for _, A := range sets {
		if isFunctionRepr(p, s, A) {
			continue
		}
		ca := p.MethodOf(A, "CallAll")
		if ca == nil {
			continue
		}
		for _, V := range vts {
			args := []AVal{RecvCtx(A), VTop, DynCtx(V), VTop}
			check(fmt.Sprintf("cell@%s.CallAll(%s)", shortT(A), shortT(V)), ca, args)
		}
	}
	conc := p.Func("rel", "Concatenate")
	for _, A := range sets {
		for _, B := range sets {
			if isFunctionRepr(p, s, A) || isFunctionRepr(p, s, B) {
				continue
			}
			check(fmt.Sprintf("cell@Concatenate(%s,%s)", shortT(A), shortT(B)), conc, []AVal{DynCtx(A), DynCtx(B)})
		}
	}
}

var seqStoreFields = map[string]string{"rel.String": "s", "rel.Bytes": "b", "rel.Array": "values"}
var seqConstructors = map[string]bool{"NewString": true, "NewOffsetString": true, "NewArray": true, "NewOffsetArray": true, "NewBytes": true, "NewOffsetBytes": true}

// ruleOffsetAccounted: building a sequence out of another sequence's store requires looking at that sequence's offset.
func ruleOffsetAccounted(p *Program, r *Report) {
	r.Begin("R05c", "offsets are accounted for: a function that reads the backing store (String.s, Bytes.b, Array.values) of an operand other than its receiver and builds a new sequence value from it (NewString/NewOffset*/New{Array,Bytes} or a composite literal of those types) must also read that same operand's offset field — otherwise every index of the operand is silently shifted to the store position (`\"ab\" ++ (1\\\"cd\")` keys)", 0)
	defer r.End()
	n := 0
	for _, fn := range p.RepoFns {
		pp := PkgPathOf(fn)
		if pp != Mod+"/rel" && pp != Mod+"/syntax" {
			continue
		}
		// does the function construct a sequence value?
		constructs := false
		ForEachInstr(fn, func(ins ssa.Instruction) {
			switch x := ins.(type) {
			case ssa.CallInstruction:
				if c := x.Common().StaticCallee(); c != nil && InRepo(c) && seqConstructors[c.Name()] {
					constructs = true
				}
			case *ssa.Store:
				if fa, ok := x.Addr.(*ssa.FieldAddr); ok {
					if _, is := seqStoreFields[TypeName(Deref(fa.X.Type()))]; is {
						if _, fresh := fa.X.(*ssa.Alloc); fresh {
							constructs = true
						}
					}
				}
			}
		})
		if !constructs {
			continue
		}
		// per base value of a sequence type: which fields are read
		type rd struct{ store, offset bool }
		reads := map[ssa.Value]*rd{}
		baseOf := func(v ssa.Value) ssa.Value { return stripLoads(v) }
		note := func(x ssa.Value, t types.Type, field int) {
			tn := TypeName(Deref(t))
			sf, ok := seqStoreFields[tn]
			if !ok {
				return
			}
			st := structOf(t)
			b := baseOf(x)
			if reads[b] == nil {
				reads[b] = &rd{}
			}
			switch st.Field(field).Name() {
			case sf:
				reads[b].store = true
			case "offset":
				reads[b].offset = true
			}
		}
		ForEachInstr(fn, func(ins ssa.Instruction) {
			switch x := ins.(type) {
			case *ssa.Field:
				note(x.X, x.X.Type(), x.Field)
			case *ssa.FieldAddr:
				// loads only
				for _, ref := range *x.Referrers() {
					if _, isLoad := ref.(*ssa.UnOp); isLoad {
						note(x.X, x.X.Type(), x.Field)
					}
				}
			}
		})
		// an operand handed to a module function that reads its offset counts as read
		ForEachInstr(fn, func(ins ssa.Instruction) {
			ci, ok := ins.(ssa.CallInstruction)
			if !ok {
				return
			}
			callee := ci.Common().StaticCallee()
			if callee == nil || !InRepo(callee) || callee.Blocks == nil {
				return
			}
			for i, a := range ci.Common().Args {
				if _, is := seqStoreFields[TypeName(Deref(a.Type()))]; !is || i >= len(callee.Params) {
					continue
				}
				prm := callee.Params[i]
				readsOffset := false
				ForEachInstr(callee, func(i2 ssa.Instruction) {
					switch y := i2.(type) {
					case *ssa.Field:
						if stripLoads(y.X) == ssa.Value(prm) {
							if st := structOf(y.X.Type()); st != nil && st.Field(y.Field).Name() == "offset" {
								readsOffset = true
							}
						}
					case *ssa.FieldAddr:
						if stripLoads(y.X) == ssa.Value(prm) {
							if st := structOf(y.X.Type()); st != nil && st.Field(y.Field).Name() == "offset" {
								readsOffset = true
							}
						}
					}
				})
				if readsOffset {
					b := baseOf(a)
					if reads[b] == nil {
						reads[b] = &rd{}
					}
					reads[b].offset = true
				}
			}
		})
		var recv ssa.Value
		if fn.Signature.Recv() != nil && len(fn.Params) > 0 {
			recv = fn.Params[0]
		}
		var bases []ssa.Value
		for b := range reads {
			bases = append(bases, b)
		}
		sort.Slice(bases, func(i, j int) bool { return bases[i].Name() < bases[j].Name() })
		k := 0
		for _, b := range bases {
			rdv := reads[b]
			if !rdv.store {
				continue
			}
			if b == recv {
				continue // a method may legitimately work in store coordinates of its own receiver and re-attach the offset
			}
			if al, isAlloc := b.(*ssa.Alloc); isAlloc {
				copied := false
				for _, ref := range *al.Referrers() {
					if st, ok := ref.(*ssa.Store); ok && st.Addr == ssa.Value(al) {
						if _, fromCall := st.Val.(*ssa.Call); fromCall {
							continue // the result of a constructor/clone: still this function's own value
						}
						copied = true // holds a copy of an existing value (parameter, assertion result, …)
					}
				}
				if !copied {
					continue // a value under construction in this function
				}
			}
			n++
			k++
			r.Fn(FnName(fn))
			r.Check(rdv.offset, fmt.Sprintf("operand@%s~%d", FnName(fn), k), "reads both the store and the offset of the operand", fmt.Sprintf("%s builds a sequence from the backing store of an operand (%s) without ever reading that operand's offset: the operand's indices are taken to start where its store starts", FnName(fn), strings.TrimPrefix(b.Name(), "t")), fn.Pos())
		}
	}
	if n == 0 {
		r.Info("sites", "no function builds a sequence from another operand's store", 0)
	}
}

// ruleHoleDiscipline: elements read from holey stores are tested before use.
func ruleHoleDiscipline(p *Program, r *Report) {
	r.Begin("R05b", "hole discipline (sibling contradiction): in SeqArrowExpr.Eval, each branch that maps a user function over the elements of a holey store (String.s: negative rune, Array.values: nil) must skip holes — if one branch guards its element before calling the function and its sibling does not, the sibling feeds holes to the user function", 2)
	defer r.End()
	fn := p.Method("rel", "SeqArrowExpr", "Eval")
	if fn == nil {
		r.Undecided("anchor", "rel.SeqArrowExpr.Eval not found", 0)
		return
	}
	// closures included, and helpers the branches were extracted into: static callees in package rel that are
	// methods of SeqArrowExpr or take the per-item function as a parameter
	fns := append([]*ssa.Function{fn}, Closures(fn)...)
	seenFn := map[*ssa.Function]bool{fn: true}
	for i := 0; i < len(fns); i++ {
		ForEachInstr(fns[i], func(ins ssa.Instruction) {
			c, ok := ins.(ssa.CallInstruction)
			if !ok {
				return
			}
			g := c.Common().StaticCallee()
			if g == nil || seenFn[g] || g.Pkg != fn.Pkg || g.Blocks == nil {
				return
			}
			helper := false
			if rc := g.Signature.Recv(); rc != nil && TypeName(Deref(rc.Type())) == "rel.SeqArrowExpr" {
				helper = true
			}
			for j := 0; j < g.Signature.Params().Len(); j++ {
				if _, isFn := g.Signature.Params().At(j).Type().Underlying().(*types.Signature); isFn {
					helper = true
				}
			}
			if helper {
				seenFn[g] = true
				fns = append(fns, g)
				fns = append(fns, Closures(g)...)
			}
		})
	}
	for _, f := range fns {
		ForEachInstr(f, func(ins ssa.Instruction) {
			// a range over x.s (String) or x.values (Array): element loads via IndexAddr on the field load
			ia, ok := ins.(*ssa.IndexAddr)
			if !ok {
				return
			}
			ld, ok := ia.X.(*ssa.UnOp)
			if !ok {
				return
			}
			var field, tname string
			switch a := ld.X.(type) {
			case *ssa.FieldAddr:
				if st := structOf(a.X.Type()); st != nil {
					field, tname = st.Field(a.Field).Name(), TypeName(Deref(a.X.Type()))
				}
			}
			if f2, ok := ia.X.(*ssa.Field); ok {
				if st := structOf(f2.X.Type()); st != nil {
					field, tname = st.Field(f2.Field).Name(), TypeName(f2.X.Type())
				}
			}
			if !(tname == "rel.String" && field == "s" || tname == "rel.Array" && field == "values") {
				return
			}
			// the element value
			for _, ref := range *ia.Referrers() {
				el, ok := ref.(*ssa.UnOp)
				if !ok {
					continue
				}
				// is there a branch on the element (el >= 0 / el != nil) dominating its use in a call?
				guarded := false
				for _, r2 := range *el.Referrers() {
					if bo, ok := r2.(*ssa.BinOp); ok {
						for _, r3 := range *bo.Referrers() {
							if _, isIf := r3.(*ssa.If); isIf {
								guarded = true
							}
						}
					}
				}
				usedInCall := false
				var visit func(v ssa.Value, d int)
				visit = func(v ssa.Value, d int) {
					if d > 5 || v.Referrers() == nil {
						return
					}
					for _, r2 := range *v.Referrers() {
						switch u := r2.(type) {
						case ssa.CallInstruction:
							usedInCall = true
						case ssa.Value:
							if _, isBin := u.(*ssa.BinOp); !isBin {
								visit(u, d+1)
							}
						}
					}
				}
				visit(el, 0)
				if !usedInCall {
					continue
				}
				r.Fn(FnName(f))
				r.Check(guarded, fmt.Sprintf("element@%s#%s.%s", FnName(f), strings.TrimPrefix(tname, "rel."), field), "holes are tested before the element is used", fmt.Sprintf("%s maps over %s.%s and hands each element to the function without testing for the hole marker: a hole is turned into a bogus element (the sibling branch for the other sequence type does test)", FnName(f), tname, field), el.Pos())
			}
		})
	}
}

// R05d: a dict is assembled from entries without losing duplicates of a key.  A Dict maps a key to one value or to a
// multipleValues set; enumerating it yields one DictEntryTuple per (key, value) pair.  Code that rebuilds a dict map
// from such entries with `builder.Put(entry.at, …)` overwrites the earlier values of a key unless it first looks
// the key up in the builder (as NewDict does).  Every Put into a frozen.MapBuilder[Value, any] whose key comes from
// the `at` field of a DictEntryTuple must be accompanied, in the same function, by a Get/Has on that builder.
func ruleDictEntriesKeepDuplicates(p *Program, r *Report) {
	r.Begin("R05d", "dict entries keep their duplicates: in the module, every Put into a frozen.MapBuilder[rel.Value, any] whose key is the `at` field of a DictEntryTuple sits in a function that also looks keys up in that builder (Get / Has) — the merge into multipleValues that NewDict performs; a bare Put keeps the last value of a key only", 1)
	defer r.End()
	isDictBuilder := func(t types.Type) bool {
		s := strings.ReplaceAll(Deref(t).String(), " ", "")
		return strings.Contains(s, "frozen.MapBuilder[") && strings.HasSuffix(s, "rel.Value,any]")
	}
	n := 0
	ord := map[string]int{}
	for _, fn := range p.RepoFns {
		if fn.Blocks == nil {
			continue
		}
		type putT struct {
			call *ssa.Call
			recv ssa.Value
		}
		var puts []putT
		looked := map[ssa.Value]bool{}
		ForEachInstr(fn, func(ins ssa.Instruction) {
			c, ok := ins.(*ssa.Call)
			if !ok {
				return
			}
			g := c.Call.StaticCallee()
			if g == nil || g.Signature.Recv() == nil || len(c.Call.Args) == 0 {
				return
			}
			if !isDictBuilder(g.Signature.Recv().Type()) {
				return
			}
			switch baseName(g) {
			case "Put":
				if len(c.Call.Args) >= 2 && DependsOn(c.Call.Args[1], func(x ssa.Value) bool {
					switch f := x.(type) {
					case *ssa.Field:
						if nt, ok := Deref(f.X.Type()).(*types.Named); ok && nt.Obj().Name() == "DictEntryTuple" {
							return structOf(f.X.Type()).Field(f.Field).Name() == "at"
						}
					case *ssa.FieldAddr:
						if nt, ok := Deref(f.X.Type()).(*types.Named); ok && nt.Obj().Name() == "DictEntryTuple" {
							return structOf(f.X.Type()).Field(f.Field).Name() == "at"
						}
					}
					return false
				}) {
					puts = append(puts, putT{c, c.Call.Args[0]})
				}
			case "Get", "Has":
				looked[c.Call.Args[0]] = true
			}
		})
		for _, pt := range puts {
			n++
			top := fn
			for top.Parent() != nil {
				top = top.Parent()
			}
			r.Fn(FnName(top))
			key := "put@" + FnName(top)
			ord[key]++
			if ord[key] > 1 {
				key = fmt.Sprintf("%s~%d", key, ord[key])
			}
			ok := looked[pt.recv]
			if !ok {
				// the same builder reached through another load of the same cell
				for v := range looked {
					if sameValue(v, pt.recv, 0) {
						ok = true
					}
				}
			}
			r.Check(ok, key, "existing values of the key are consulted before the Put", fmt.Sprintf("%s rebuilds a dict map with Put(entry.at, …) and never looks the key up in the builder: when a key has several values (a dict made from a set of (@, @value) tuples) only the last one enumerated survives — the result silently loses members", FnName(fn)), pt.call.Pos())
		}
	}
	if n == 0 {
		r.Undecided("sites", "no Put of a dict entry into a dict map builder found (NewDict is expected)", 0)
	}
}

func init() {
	register("C05", Rule{"R05d", ruleDictEntriesKeepDuplicates})
	register("C01", Rule{"R05d", ruleDictEntriesKeepDuplicates})
}
