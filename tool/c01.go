package main

import (
	"fmt"
	"go/token"
	"go/types"
	"sort"
	"strings"

	"golang.org/x/tools/go/ssa"
)

func init() {
	register("C01", Rule{"R01a", ruleSetDispatchTotality}, Rule{"R01b", ruleBucketRouting}, Rule{"R01c", ruleWithForeign})
}

// setImplementers returns the concrete rel.Set implementers declared in package rel.
func setImplementers(p *Program) []types.Type {
	var out []types.Type
	for _, t := range p.Implementers("rel", "Set") {
		if strings.Contains(t.String(), Mod+"/rel.") {
			out = append(out, t)
		}
	}
	return out
}

// isFunctionRepr: a Set implementer that is a function representation (Closure, ExprClosure, *NativeFunction):
// recognised structurally as "Enumerator() definitely panics" — it cannot be enumerated as data.
func isFunctionRepr(p *Program, s *SCCP, t types.Type) bool {
	m := p.MethodOf(t, "Enumerator")
	if m == nil {
		return false
	}
	res := s.Analyze(m, []AVal{RecvCtx(t)})
	return res != nil && res.Panics
}

func ruleSetDispatchTotality(p *Program, r *Report) {
	r.Begin("R01a", "dispatch totality: TS-SCCP of Intersect, Union, Difference, SymmetricDifference under every ordered pair of rel.Set representations, of PowerSet under each, and of each representation's With/Without/Has under every element type: no cell definitely panics for all values of those types, and UnionSet.unionSetSubsetBucket (whose body is a panic) is never executable", 400)
	defer r.End()
	s := relSCCP(p, r)
	sets := setImplementers(p)
	if len(sets) < 10 {
		r.Undecided("sets", fmt.Sprintf("only %d rel.Set implementers found", len(sets)), 0)
		return
	}
	funcRepr := map[string]bool{}
	for _, t := range sets {
		if isFunctionRepr(p, s, t) {
			funcRepr[shortT(t)] = true
		}
	}
	forbidden := p.Method("rel", "UnionSet", "unionSetSubsetBucket")
	agg := map[string][]string{} // function representation -> panicking cells
	cell := func(op string, fn *ssa.Function, names []string, args []AVal) {
		if fn == nil {
			r.Undecided("anchor@"+op, "function not found", 0)
			return
		}
		res := s.Analyze(fn, args)
		key := fmt.Sprintf("cell@%s(%s)", op, strings.Join(names, ","))
		if res == nil {
			r.Info(key, "not analysable (recover/recursion)", fn.Pos())
			return
		}
		r.Fn(FnName(fn))
		fr := ""
		for _, n := range names {
			if funcRepr[n] {
				fr = n
				break
			}
		}
		bad := ""
		if res.Panics {
			bad = "definitely panics for all operands of these representations: " + s.PanicDesc(res)
		} else if forbidden != nil && res.Reached[forbidden] {
			bad = "reaches UnionSet.unionSetSubsetBucket, whose body is panic(…)"
		}
		if bad == "" {
			r.OK(key, "not definitely panicking", fn.Pos())
			return
		}
		if fr != "" {
			agg[fr] = append(agg[fr], fmt.Sprintf("%s(%s)", op, strings.Join(names, ",")))
			return
		}
		r.Viol(key, fmt.Sprintf("%s over (%s) %s", op, strings.Join(names, ", "), bad), fn.Pos())
	}
	for _, op := range []string{"Intersect", "Union", "Difference", "SymmetricDifference"} {
		fn := p.Func("rel", op)
		for _, A := range sets {
			for _, B := range sets {
				cell(op, fn, []string{shortT(A), shortT(B)}, []AVal{DynCtx(A), DynCtx(B)})
			}
		}
	}
	ps := p.Func("rel", "PowerSet")
	for _, A := range sets {
		cell("PowerSet", ps, []string{shortT(A)}, []AVal{DynCtx(A)})
	}
	vts := p.ValueTypes()
	for _, A := range sets {
		for _, m := range []string{"With", "Without", "Has"} {
			fn := p.MethodOf(A, m)
			for _, V := range vts {
				cell(shortT(A)+"."+m, fn, []string{shortT(A), shortT(V)}, []AVal{RecvCtx(A), DynCtx(V)})
			}
		}
	}
	var frs []string
	for k := range funcRepr {
		frs = append(frs, k)
	}
	sort.Strings(frs)
	for _, k := range frs {
		cells := agg[k]
		sort.Strings(cells)
		if len(cells) == 0 {
			r.OK("function-repr@"+k, "no definitely panicking cell", 0)
			continue
		}
		ex := cells
		if len(ex) > 6 {
			ex = ex[:6]
		}
		r.Viol("function-repr@"+k, fmt.Sprintf("%s is a rel.Set whose set-algebra methods are panic stubs: %d dispatch cells definitely panic, e.g. %s", k, len(cells), strings.Join(ex, " ")), 0)
	}
	r.Notes = append(r.Notes, fmt.Sprintf("R01a: %d set representations (%d function representations: %v), %d value types, %d SCCP contexts so far", len(sets), len(frs), frs, len(vts), s.Contexts))
}

// bucketSym computes a symbolic description of the bucket a function returns:
// "G:<global>" (the fmt.Stringer stored in a package variable, or its String()), "names" (derived from
// attribute names at run time), or "" when not understood.
func bucketSym(p *Program, fn *ssa.Function, depth int) string {
	if fn == nil || fn.Blocks == nil || depth > 3 {
		return ""
	}
	syms := map[string]bool{}
	var symOf func(v ssa.Value) string
	symOf = func(v ssa.Value) string {
		switch x := v.(type) {
		case *ssa.UnOp:
			if g, ok := x.X.(*ssa.Global); ok {
				return "G:" + g.Name()
			}
			if fa, ok := x.X.(*ssa.FieldAddr); ok {
				_ = fa
				return "names"
			}
		case *ssa.MakeInterface:
			return symOf(x.X)
		case *ssa.ChangeInterface:
			return symOf(x.X)
		case *ssa.Call:
			if x.Call.IsInvoke() && x.Call.Method.Name() == "String" {
				return symOf(x.Call.Value)
			}
			if c := x.Call.StaticCallee(); c != nil {
				switch c.Name() {
				case "getBucket":
					return bucketSym(p, c, depth+1)
				case "String":
					if len(x.Call.Args) > 0 {
						return symOf(x.Call.Args[0])
					}
				case "GetSorted", "newHashableNamesSlice", "OrderedNames":
					return "names"
				}
			}
		case *ssa.Phi:
			set := map[string]bool{}
			for _, e := range x.Edges {
				set[symOf(e)] = true
			}
			var ks []string
			for k := range set {
				ks = append(ks, k)
			}
			sort.Strings(ks)
			return strings.Join(ks, "|")
		}
		return ""
	}
	ForEachInstr(fn, func(ins ssa.Instruction) {
		if ret, ok := ins.(*ssa.Return); ok && len(ret.Results) == 1 {
			syms[symOf(ret.Results[0])] = true
		}
	})
	var ks []string
	for k := range syms {
		ks = append(ks, k)
	}
	sort.Strings(ks)
	return strings.Join(ks, "|")
}

// finishTargets: for a tuple type E, the set types its set builder's finish function can construct.
func finishTargets(p *Program, E types.Type) (string, []types.Type) {
	gsb := p.MethodOf(E, "getSetBuilder")
	if gsb == nil {
		return "", nil
	}
	var finishG *ssa.Global
	var finDirect *ssa.Function // the finisher given as a named function or literal instead of a function variable
	generic := false
	ForEachInstr(gsb, func(ins ssa.Instruction) {
		switch x := ins.(type) {
		case *ssa.Store:
			if fa, ok := x.Addr.(*ssa.FieldAddr); ok {
				st := Deref(fa.X.Type()).Underlying().(*types.Struct)
				if _, isSig := st.Field(fa.Field).Type().Underlying().(*types.Signature); isSig {
					switch v := x.Val.(type) {
					case *ssa.UnOp:
						if g, ok := v.X.(*ssa.Global); ok {
							finishG = g
						}
					case *ssa.Function:
						finDirect = v
					case *ssa.MakeClosure:
						finDirect, _ = v.Fn.(*ssa.Function)
					}
				}
			}
		case *ssa.Call:
			if c := x.Call.StaticCallee(); c != nil && c.Name() == "newGenericTypeSetBuilder" {
				generic = true
			}
		}
	})
	if generic || (finishG == nil && finDirect == nil) {
		return "generic", nil
	}
	// the function stored in the finish global by the package initialiser
	fin := finDirect
	finName := ""
	if fin != nil {
		finName = fin.Name()
	} else {
		finName = finishG.Name()
	}
	if init := (*ssa.Function)(nil); finishG != nil {
		init = finishG.Pkg.Func("init")
		if init == nil {
			return finName, nil
		}
		ForEachInstr(init, func(ins ssa.Instruction) {
			if st, ok := ins.(*ssa.Store); ok && st.Addr == finishG {
				switch v := st.Val.(type) {
				case *ssa.Function:
					fin = v
				case *ssa.MakeClosure:
					fin = v.Fn.(*ssa.Function)
				}
			}
		})
	}
	if fin == nil {
		return finName, nil
	}
	// types converted to an interface on return paths of fin and of the as*/New* function it calls
	seen := map[string]types.Type{}
	var collect func(f *ssa.Function, depth int)
	collect = func(f *ssa.Function, depth int) {
		if f == nil || f.Blocks == nil || depth > 2 {
			return
		}
		ForEachInstr(f, func(ins ssa.Instruction) {
			ret, ok := ins.(*ssa.Return)
			if !ok || len(ret.Results) == 0 {
				return
			}
			var visit func(v ssa.Value, d int)
			visit = func(v ssa.Value, d int) {
				if d > 6 {
					return
				}
				switch x := v.(type) {
				case *ssa.MakeInterface:
					seen[x.X.Type().String()] = x.X.Type()
				case *ssa.Phi:
					for _, e := range x.Edges {
						visit(e, d+1)
					}
				case *ssa.Call:
					if c := x.Call.StaticCallee(); c != nil && InRepo(c) {
						collect(c, depth+1)
					}
				case *ssa.Extract:
					visit(x.Tuple, d+1)
				case *ssa.ChangeInterface:
					visit(x.X, d+1)
				case *ssa.UnOp:
					if g, ok := x.X.(*ssa.Global); ok && g.Name() == "None" {
						// the empty set
					}
				}
			}
			visit(ret.Results[0], 0)
		})
	}
	collect(fin, 0)
	var out []types.Type
	for _, t := range seen {
		out = append(out, t)
	}
	sort.Slice(out, func(i, j int) bool { return out[i].String() < out[j].String() })
	return finName, out
}

func ruleBucketRouting(p *Program, r *Report) {
	r.Begin("R01b", "bucket-routing agreement: for every element type E whose set builder has a specialised finish, the set type S that finish constructs answers unionSetSubsetBucket() with the same bucket symbol as E.getBucket(); every rel.Set representation's own getBucket() is the generic bucket; every other value type routes to the generic bucket or to an attribute-names bucket (Relation ⇔ GenericTuple)", 15)
	defer r.End()
	valueTs := p.ValueTypes()
	sets := map[string]types.Type{}
	for _, t := range setImplementers(p) {
		sets[t.String()] = t
	}
	generic := ""
	// generic symbol = what Number.getBucket returns
	if m := p.Method("rel", "Number", "getBucket"); m != nil {
		generic = bucketSym(p, m, 0)
	}
	if !strings.HasPrefix(generic, "G:") {
		r.Undecided("generic", "cannot determine the generic bucket symbol from Number.getBucket", 0)
		return
	}
	special := 0
	for _, E := range valueTs {
		name := shortT(E)
		gb := p.MethodOf(E, "getBucket")
		if gb == nil {
			r.Undecided("getBucket@"+name, "no getBucket method", 0)
			continue
		}
		r.Fn(FnName(gb))
		es := bucketSym(p, gb, 0)
		if _, isSet := sets[E.String()]; isSet {
			r.Check(es == generic, "set-own-bucket@"+name, "a set, as an element, routes to the generic bucket", fmt.Sprintf("%s.getBucket() is %q, not the generic bucket %q: sets of sets containing it are split from the generic subset", name, es, generic), gb.Pos())
			sb := p.MethodOf(E, "unionSetSubsetBucket")
			if sb != nil {
				ss := bucketSym(p, sb, 0)
				if ss == "" && !isPanicOnly(sb) {
					r.Undecided("subset-bucket@"+name, "unionSetSubsetBucket has a form the symbolic evaluator does not know", sb.Pos())
				}
			}
			continue
		}
		fname, targets := finishTargets(p, E)
		switch {
		case fname == "generic":
			// routed by getBucket: generic or names
			if es == generic {
				r.OK("route@"+name, "generic bucket, generic finish", gb.Pos())
			} else if strings.Contains(es, "names") {
				// GenericTuple: non-empty tuples go to a names bucket whose set type is Relation
				rb := bucketSym(p, p.Method("rel", "Relation", "unionSetSubsetBucket"), 0)
				r.Check(strings.Contains(rb, "names"), "route@"+name, "names bucket ⇔ Relation.unionSetSubsetBucket (both derived from sorted attribute names)", "tuple names bucket has no counterpart in Relation.unionSetSubsetBucket: "+rb, gb.Pos())
			} else {
				r.Viol("route@"+name, fmt.Sprintf("%s has the generic finish but routes to bucket %q", name, es), gb.Pos())
			}
		case fname == "":
			r.Undecided("finish@"+name, "getSetBuilder not understood", gb.Pos())
		default:
			special++
			if len(targets) == 0 {
				r.Undecided("finish-target@"+name, "cannot determine the set type constructed by "+fname, gb.Pos())
				continue
			}
			for _, S := range targets {
				if _, isSet := sets[S.String()]; !isSet {
					continue
				}
				if isEmptyOrTrue(S) {
					continue
				}
				sb := p.MethodOf(S, "unionSetSubsetBucket")
				ss := bucketSym(p, sb, 0)
				r.Check(ss == es && es != "", fmt.Sprintf("pair@%s⇔%s", name, shortT(S)),
					fmt.Sprintf("both sides use bucket %s (finish %s)", es, fname),
					fmt.Sprintf("%s elements are routed to bucket %q but the %s built from them claims subset bucket %q: UnionSet lookups (Has, Intersect, Difference, With) miss the subset", name, es, shortT(S), ss), gb.Pos())
			}
		}
	}
	if special < 4 {
		r.Undecided("special", fmt.Sprintf("only %d specialised element types found (4 confirmed by hand)", special), 0)
	}
}

func isPanicOnly(fn *ssa.Function) bool {
	if fn == nil || len(fn.Blocks) != 1 {
		return false
	}
	_, ok := fn.Blocks[0].Instrs[len(fn.Blocks[0].Instrs)-1].(*ssa.Panic)
	return ok
}

func isEmptyOrTrue(t types.Type) bool {
	n := shortT(t)
	return n == "EmptySet" || n == "TrueSet"
}

// ruleWithForeign: adding an element of a foreign kind to a specialised set must go through toUnionSetWithItem.
func ruleWithForeign(p *Program, r *Report) {
	r.Begin("R01c", "no silent drop on With: for each specialised representation S (String, Bytes, Array, Dict) and every value type V that is not S's element type, every executable return of S.With(dyn V) (TS-SCCP) is the result of toUnionSetWithItem — never the receiver unchanged", 60)
	defer r.End()
	s := relSCCP(p, r)
	tu := p.Func("rel", "toUnionSetWithItem")
	if tu == nil {
		r.Undecided("anchor", "rel.toUnionSetWithItem not found", 0)
		return
	}
	vts := p.ValueTypes()
	for _, E := range vts {
		fname, targets := finishTargets(p, E)
		if fname == "generic" || fname == "" {
			continue
		}
		for _, S := range targets {
			if isEmptyOrTrue(S) {
				continue
			}
			with := p.MethodOf(S, "With")
			if with == nil {
				continue
			}
			r.Fn(FnName(with))
			for _, V := range vts {
				if types.Identical(V, E) {
					continue
				}
				res := s.Analyze(with, []AVal{RecvCtx(S), DynCtx(V)})
				key := fmt.Sprintf("with@%s+%s", shortT(S), shortT(V))
				if res == nil {
					r.Undecided(key, "not analysable", with.Pos())
					continue
				}
				if res.Panics {
					r.Viol(key, fmt.Sprintf("%s.With(%s) definitely panics: %s", shortT(S), shortT(V), s.PanicDesc(res)), with.Pos())
					continue
				}
				tupleI := p.NamedType("rel", "Tuple").Underlying().(*types.Interface)
				if types.Implements(V, tupleI) {
					// a tuple of another shape may or may not match S's element shape by value: require only that
					// the union-set path exists
					r.Check(res.Reached[tu], key, "union-set path reachable (element shape decided by value)", fmt.Sprintf("%s.With(v) for a %s never creates a union set", shortT(S), shortT(V)), with.Pos())
					continue
				}
				ok := true
				for _, b := range with.Blocks {
					if !res.Exec[b] {
						continue
					}
					if ret, isRet := b.Instrs[len(b.Instrs)-1].(*ssa.Return); isRet {
						c, isCall := ret.Results[0].(*ssa.Call)
						if !isCall || c.Call.StaticCallee() != tu {
							ok = false
						}
					}
				}
				r.Check(ok, key, "goes through toUnionSetWithItem", fmt.Sprintf("%s.With(v) for v of type %s can return without creating a union set: the foreign element is dropped", shortT(S), shortT(V)), with.Pos())
			}
		}
	}
}

// rowsBase walks back from v to the Relation value whose positional rows it derives from ("" if none).
func rowsBase(v ssa.Value, depth int) (ssa.Value, bool) {
	if depth > 12 || v == nil {
		return nil, false
	}
	isRowsField := func(t types.Type, idx int) (bool, bool) {
		st, ok := Deref(t).Underlying().(*types.Struct)
		if !ok {
			return false, false
		}
		n := st.Field(idx).Name()
		tn := TypeName(Deref(t))
		if tn == "rel.Relation" && n == "rows" {
			return true, true // reached the relation
		}
		if tn == "rel.positionalRelation" && n == "set" {
			return true, false // still inside the rows
		}
		return false, false
	}
	switch x := v.(type) {
	case *ssa.UnOp:
		return rowsBase(x.X, depth+1)
	case *ssa.ChangeType:
		return rowsBase(x.X, depth+1)
	case *ssa.Phi:
		for _, e := range x.Edges {
			if b, ok := rowsBase(e, depth+1); ok {
				return b, true
			}
		}
	case *ssa.Field:
		is, top := isRowsField(x.X.Type(), x.Field)
		if is && top {
			return stripLoads(x.X), true
		}
		if is {
			return rowsBase(x.X, depth+1)
		}
	case *ssa.FieldAddr:
		is, top := isRowsField(x.X.Type(), x.Field)
		if is && top {
			return stripLoads(x.X), true
		}
		if is {
			return rowsBase(x.X, depth+1)
		}
	}
	return nil, false
}

func stripLoads(v ssa.Value) ssa.Value {
	for i := 0; i < 6; i++ {
		switch x := v.(type) {
		case *ssa.UnOp:
			v = x.X
			continue
		case *ssa.Alloc:
			// a spilled parameter / local: identify by the single stored value when there is one
			var stored ssa.Value
			n := 0
			for _, ref := range *x.Referrers() {
				if st, ok := ref.(*ssa.Store); ok && st.Addr == x {
					stored = st.Val
					n++
				}
			}
			if n == 1 {
				if _, isParam := stored.(*ssa.Parameter); isParam {
					return stored
				}
			}
			return x
		}
		break
	}
	return v
}

// ruleRowsMixing: rows of two different relations meet only under explicit projectors.
func ruleRowsMixing(p *Program, r *Report) {
	r.Begin("R01d", "positional rows are never combined across relations without projectors: a call whose operands derive from the `rows` (or rows.set) of two different Relation values must be a projector-parameterised callee ((*positionalRelation).Join); everything else must go through tuples (Has/Where/With) or canonicalRelation(), because two relations over the same names may store their columns in different orders", 1)
	defer r.End()
	sp := p.Pkg("rel")
	if sp == nil {
		r.Undecided("anchor", "package rel not loaded", 0)
		return
	}
	n := 0
	for _, fn := range p.RepoFns {
		if PkgPathOf(fn) != Mod+"/rel" {
			continue
		}
		ForEachInstr(fn, func(ins ssa.Instruction) {
			c, ok := ins.(ssa.CallInstruction)
			if !ok {
				return
			}
			cc := c.Common()
			var ops []ssa.Value
			if cc.IsInvoke() {
				ops = append(ops, cc.Value)
			}
			ops = append(ops, cc.Args...)
			var bases []ssa.Value
			for _, o := range ops {
				if b, ok := rowsBase(o, 0); ok {
					dup := false
					for _, e := range bases {
						if e == b {
							dup = true
						}
					}
					if !dup {
						bases = append(bases, b)
					}
				}
			}
			if len(bases) < 2 {
				return
			}
			n++
			callee := cc.StaticCallee()
			key := fmt.Sprintf("rows-meet@%s→%s", FnName(fn), CalleeName(cc))
			hasProj := false
			if callee != nil {
				for _, prm := range callee.Params {
					if strings.HasSuffix(prm.Type().String(), "rel.valueProjector") {
						hasProj = true
					}
				}
			}
			r.Fn(FnName(fn))
			r.Check(hasProj, key, "rows of two relations meet in a projector-parameterised callee", fmt.Sprintf("%s combines the stored rows of two different relations with %s, which takes no column projectors: relations over the same attribute names can store columns in different orders (join results keep join order), so equal tuples are compared as different rows", FnName(fn), CalleeName(cc)), ins.Pos())
		})
	}
	if n == 0 {
		r.Undecided("sites", "no site where rows of two relations meet was found (Relation.Join confirmed by hand)", 0)
	}
}

func init() { register("C01", Rule{"R01d", ruleRowsMixing}) }

// R01e: a member count is not a slot position.  Array.count is the number of non-hole members; positions in
// Array.values run to len(values) and differ from the count as soon as the array has a hole.  A value derived from
// `count` must therefore never index or bound a slice of `values`, nor be compared with a slot position (a value
// derived from an item's `at` or from `offset`).
func ruleCountIsNotAPosition(p *Program, r *Report) {
	r.Begin("R01e", "count ≠ position: in package rel no value derived from Array.count indexes or slices Array.values, and none is compared with a slot position (a value derived from Array.offset or from an ArrayItemTuple's index); for an array with a hole the two differ, so such code cuts or misplaces members", 0)
	defer r.End()
	relPkg := p.Pkg("rel")
	fieldLoad := func(x ssa.Value, tname, fname string) bool {
		switch y := x.(type) {
		case *ssa.Field:
			if st := structOf(y.X.Type()); st != nil && TypeName(y.X.Type()) == tname {
				return st.Field(y.Field).Name() == fname
			}
		case *ssa.UnOp:
			if fa, ok := y.X.(*ssa.FieldAddr); ok {
				if st := structOf(fa.X.Type()); st != nil && TypeName(Deref(fa.X.Type())) == tname {
					return st.Field(fa.Field).Name() == fname
				}
			}
		}
		return false
	}
	fromCount := func(v ssa.Value) bool {
		return DependsOn(v, func(x ssa.Value) bool { return fieldLoad(x, "rel.Array", "count") })
	}
	fromPosition := func(v ssa.Value) bool {
		return DependsOn(v, func(x ssa.Value) bool {
			return fieldLoad(x, "rel.Array", "offset") || fieldLoad(x, "rel.ArrayItemTuple", "at")
		})
	}
	isValues := func(v ssa.Value) bool {
		return DependsOn(v, func(x ssa.Value) bool { return fieldLoad(x, "rel.Array", "values") })
	}
	n := 0
	for _, fn := range p.RepoFns {
		if fn.Pkg != relPkg {
			continue
		}
		ord := 0
		report := func(pos token.Pos, what string) {
			n++
			ord++
			r.Fn(FnName(fn))
			r.Viol(fmt.Sprintf("count-as-position@%s~%d", FnName(fn), ord), fmt.Sprintf("%s %s: Array.count is the number of members, not a position in the store — with a hole in the array the member at that position is an interior one and everything after it is cut off or misplaced", FnName(fn), what), pos)
		}
		ForEachInstr(fn, func(ins ssa.Instruction) {
			switch x := ins.(type) {
			case *ssa.IndexAddr:
				if isValues(x.X) && fromCount(x.Index) {
					report(x.Pos(), "indexes Array.values with a value derived from Array.count")
				}
			case *ssa.Slice:
				if isValues(x.X) {
					for _, b := range []ssa.Value{x.Low, x.High} {
						if b != nil && fromCount(b) {
							report(x.Pos(), "slices Array.values at a bound derived from Array.count")
						}
					}
				}
			case *ssa.BinOp:
				switch x.Op {
				case token.EQL, token.NEQ, token.LSS, token.LEQ, token.GTR, token.GEQ:
					if (fromCount(x.X) && fromPosition(x.Y) && !fromCount(x.Y)) || (fromCount(x.Y) && fromPosition(x.X) && !fromCount(x.X)) {
						report(x.Pos(), "compares a slot position with a value derived from Array.count")
					}
				}
			}
		})
	}
	if n == 0 {
		r.OK("count-as-position", "no use of Array.count as a position", 0)
	}
}

func init() {
	register("C01", Rule{"R01e", ruleCountIsNotAPosition})
	register("C05", Rule{"R01e", ruleCountIsNotAPosition})
}

// R01f: every operation of Dict sees all values of a key.  Dict.m maps a key to one value or to a multipleValues set;
// Enumerator, With, CallAll, Equal and Less treat the second case.  A method that takes a value out of the map
// (Get, or the value side of a Range) and never considers multipleValues is blind to the members stored under keys
// with several values; a Count that is the map's key count is short by the same members.  (Sibling cross-check: the
// implementations of one interface over one field must agree on its cases.)
func ruleDictSeesAllValues(p *Program, r *Report) {
	r.Begin("R01f", "Dict operations see every value of a key: each method of rel.Dict that takes a value out of the dict map (Map.Get / MustGet, or the value of a Range entry) or returns the map's Count reaches — itself or through package-local callees — a type test for multipleValues; audited exception: Export (hands the raw map to the host)", 6)
	defer r.End()
	dict := p.NamedType("rel", "Dict")
	if dict == nil {
		r.Undecided("anchor", "rel.Dict not found", 0)
		return
	}
	audited := map[string]string{"Export": "hands the raw map to the host program"}
	handles := func(fn *ssa.Function) bool {
		seen := map[*ssa.Function]bool{}
		var walk func(f *ssa.Function, d int) bool
		walk = func(f *ssa.Function, d int) bool {
			if f == nil || f.Blocks == nil || seen[f] || d > 2 {
				return false
			}
			seen[f] = true
			found := false
			ForEachInstr(f, func(ins ssa.Instruction) {
				switch x := ins.(type) {
				case *ssa.TypeAssert:
					if strings.HasSuffix(x.AssertedType.String(), "rel.multipleValues") {
						found = true
					}
				case *ssa.Call:
					if g := x.Call.StaticCallee(); g != nil && g.Pkg == fn.Pkg && walk(g, d+1) {
						found = true
					}
				case *ssa.MakeClosure:
					if walk(x.Fn.(*ssa.Function), d+1) {
						found = true
					}
				}
			})
			return found
		}
		return walk(fn, 0)
	}
	n := 0
	for _, fn := range p.RepoFns {
		if fn.Signature.Recv() == nil || fn.Parent() != nil || fn.Synthetic != "" {
			continue
		}
		if nt, ok := Deref(fn.Signature.Recv().Type()).(*types.Named); !ok || nt.Obj() != dict.Obj() {
			continue
		}
		reads := ""
		ForEachInstr(fn, func(ins ssa.Instruction) {
			c, ok := ins.(*ssa.Call)
			if !ok {
				return
			}
			g := c.Call.StaticCallee()
			if g == nil || g.Signature.Recv() == nil {
				return
			}
			rt := strings.ReplaceAll(Deref(g.Signature.Recv().Type()).String(), " ", "")
			if !strings.Contains(rt, "arr-ai/frozen.Map") || !strings.HasSuffix(rt, "rel.Value,any]") {
				return
			}
			switch baseName(g) {
			case "Get", "MustGet", "GetElse", "GetElseFunc":
				reads = "takes a value out of the map (" + baseName(g) + ")"
			case "Value", "Entry":
				reads = "reads the values of the map's entries"
			case "Count":
				// the key count as a result
				for _, b := range fn.Blocks {
					if ret, ok := b.Instrs[len(b.Instrs)-1].(*ssa.Return); ok {
						for i := range ret.Results {
							if DependsOn(RetVal(ret, i), func(x ssa.Value) bool { return x == ssa.Value(c) }) && reads == "" {
								reads = "returns a result derived from the number of keys"
							}
						}
					}
				}
			}
		})
		if reads == "" {
			continue
		}
		n++
		r.Fn(FnName(fn))
		key := "all-values@" + FnName(fn)
		if why, ok := audited[fn.Name()]; ok {
			r.OK(key, "audited: "+why, fn.Pos())
			continue
		}
		r.Check(handles(fn), key, "considers the multipleValues case", fmt.Sprintf("%s %s but never considers multipleValues: the members stored under a key with several values are invisible to it (`count` short, `<:` false for a member, `without` a no-op), while Enumerator, With and CallAll see them", FnName(fn), reads), fn.Pos())
	}
	if n < 3 {
		r.Undecided("sites", fmt.Sprintf("only %d Dict methods read values out of the map", n), 0)
	}
}

func init() {
	register("C01", Rule{"R01f", ruleDictSeesAllValues})
	register("C05", Rule{"R01f", ruleDictSeesAllValues})
}

// R01g: removing one member removes one member.  The sequence representations (String, Array, Bytes) implement
// `Without` of an end element by re-slicing their store.  A re-slice that drops a suffix (`store[:h]`) is right only
// when the removed element is the last one: either the cut is expressed relative to the end (h derives from
// len(store)) or an equality test involving len(store) controls it.  A cut at the index of the removed element under
// nothing but bounds tests truncates everything behind an inner element.
func ruleWithoutCutsOnlyAtTheEnd(p *Program, r *Report) {
	r.Begin("R01g", "Without cuts only at the end: in the Without methods of String, Array and Bytes every re-slice of the receiver's store that drops a suffix (store[:h]) either takes h from len(store) or is control-dependent on an equality test that involves len(store)", 3)
	defer r.End()
	n := 0
	for _, tn := range []string{"String", "Array", "Bytes"} {
		fn := p.Method("rel", tn, "Without")
		if fn == nil {
			r.Undecided("anchor@"+tn, "rel."+tn+".Without not found", 0)
			continue
		}
		r.Fn(FnName(fn))
		var body []*ssa.Function
		body = append(body, fn)
		ForEachInstr(fn, func(ins ssa.Instruction) {
			if c, ok := ins.(*ssa.Call); ok {
				if g := c.Call.StaticCallee(); g != nil && g.Pkg == fn.Pkg && g.Blocks != nil && g.Signature.Recv() != nil && g.Name() != "Without" {
					if nt, ok := Deref(g.Signature.Recv().Type()).(*types.Named); ok && nt.Obj().Name() == tn && strings.HasPrefix(strings.ToLower(g.Name()), "without") {
						body = append(body, g) // a helper the method was split into
					}
				}
			}
		})
		ord := 0
		for _, f := range body {
			pd := NewPostDom(f)
			isStoreLen := func(x ssa.Value) bool {
				c, ok := x.(*ssa.Call)
				if !ok {
					return false
				}
				b, ok := c.Call.Value.(*ssa.Builtin)
				if !ok || b.Name() != "len" || len(c.Call.Args) != 1 {
					return false
				}
				return isRecvStore(c.Call.Args[0], tn)
			}
			ForEachInstr(f, func(ins ssa.Instruction) {
				sl, ok := ins.(*ssa.Slice)
				if !ok || sl.High == nil || !isRecvStore(sl.X, tn) {
					return
				}
				n++
				ord++
				key := fmt.Sprintf("cut@%s.Without~%d", tn, ord)
				okCut := DependsOn(sl.High, isStoreLen)
				if !okCut {
					for _, d := range pd.TransitiveControlDeps(sl.Block()) {
						cond := IfCond(d.Br)
						if cond == nil {
							continue
						}
						// the cut must sit on the side where the equality holds
						if bo, ok := cond.(*ssa.BinOp); ok && (bo.Op == token.EQL || bo.Op == token.NEQ) && (DependsOn(bo.X, isStoreLen) || DependsOn(bo.Y, isStoreLen)) {
							if (bo.Op == token.EQL && d.Succ == 0) || (bo.Op == token.NEQ && d.Succ == 1) {
								okCut = true
							}
						}
					}
				}
				r.Check(okCut, key, "the suffix is dropped only when the last element is removed", fmt.Sprintf("%s.Without re-slices its store up to the removed element under nothing but bounds tests: removing an inner (or the first) element drops every element after it — the result is missing members that were not removed", tn), sl.Pos())
			})
		}
	}
	if n == 0 {
		r.Undecided("sites", "no suffix-dropping re-slice found in the Without methods (String, Array and Bytes each have one)", 0)
	}
}

// isRecvStore: v is (a load of) the slice field of a value of the named sequence type.
func isRecvStore(v ssa.Value, tn string) bool {
	check := func(t types.Type) bool {
		nt, ok := Deref(t).(*types.Named)
		return ok && nt.Obj().Name() == tn
	}
	switch x := v.(type) {
	case *ssa.UnOp:
		if fa, ok := x.X.(*ssa.FieldAddr); ok {
			_, isSlice := x.Type().Underlying().(*types.Slice)
			return isSlice && check(fa.X.Type())
		}
	case *ssa.Field:
		_, isSlice := x.Type().Underlying().(*types.Slice)
		return isSlice && check(x.X.Type())
	}
	return false
}

func init() { register("C01", Rule{"R01g", ruleWithoutCutsOnlyAtTheEnd}) }
