package main

// Units of text positions (DESIGN.md §3 C10, R10g): a position in a Go string counts bytes, a position in a
// []rune — and every offset of an arr.ai String — counts characters.  The two agree on ASCII and differ as soon as
// the text holds one multi-byte character, which no test in the suite does where it matters.  This is a dimension
// analysis: each integer SSA value gets a unit (byte, rune or none) from where it comes from; adding or subtracting
// values of different units, or using a position of one unit to index or slice text of the other, is a violation.

import (
	"fmt"
	"go/token"
	"go/types"
	"strings"

	"golang.org/x/tools/go/ssa"
)

type unit int

const (
	uNone unit = iota
	uByte
	uRune
	uMixed
)

func (u unit) String() string {
	return [...]string{"no unit", "byte offset", "character offset", "mixed"}[u]
}

func isStringType(t types.Type) bool {
	b, ok := t.Underlying().(*types.Basic)
	return ok && b.Info()&types.IsString != 0
}

func isRuneSlice(t types.Type) bool {
	s, ok := t.Underlying().(*types.Slice)
	if !ok {
		return false
	}
	b, ok := s.Elem().Underlying().(*types.Basic)
	return ok && b.Kind() == types.Int32
}

func isByteSlice(t types.Type) bool {
	s, ok := t.Underlying().(*types.Slice)
	if !ok {
		return false
	}
	b, ok := s.Elem().Underlying().(*types.Basic)
	return ok && b.Kind() == types.Uint8
}

type unitEnv struct {
	memo map[ssa.Value]unit
	busy map[ssa.Value]bool
}

// byteIndexFuncs return byte positions in (or byte lengths of) a string / []byte.
func byteIndexCall(name string) bool {
	switch {
	case strings.HasPrefix(name, "strings.Index"), strings.HasPrefix(name, "strings.LastIndex"),
		strings.HasPrefix(name, "bytes.Index"), strings.HasPrefix(name, "bytes.LastIndex"):
		return true
	}
	return false
}

func (e *unitEnv) of(v ssa.Value) unit {
	if u, ok := e.memo[v]; ok {
		return u
	}
	if e.busy[v] {
		return uNone
	}
	e.busy[v] = true
	u := e.compute(v)
	delete(e.busy, v)
	e.memo[v] = u
	return u
}

func (e *unitEnv) compute(v ssa.Value) unit {
	switch x := v.(type) {
	case *ssa.Call:
		if b, ok := x.Call.Value.(*ssa.Builtin); ok && b.Name() == "len" && len(x.Call.Args) == 1 {
			t := x.Call.Args[0].Type()
			switch {
			case isStringType(t), isByteSlice(t):
				return uByte
			case isRuneSlice(t):
				return uRune
			}
			return uNone
		}
		name := CalleeName(&x.Call)
		switch {
		case strings.HasSuffix(name, "utf8.RuneCountInString"), strings.HasSuffix(name, "utf8.RuneCount"):
			return uRune
		case byteIndexCall(name):
			return uByte
		}
		return uNone
	case *ssa.UnOp:
		if x.Op == token.MUL {
			// element of an index table produced by regexp's …Index functions
			if ia, ok := x.X.(*ssa.IndexAddr); ok && e.regexIndexTable(ia.X, 0) {
				return uByte
			}
			// a local cell: the join of what is stored
			if al, ok := x.X.(*ssa.Alloc); ok {
				u := uNone
				for _, ref := range *al.Referrers() {
					if st, ok := ref.(*ssa.Store); ok && st.Addr == ssa.Value(al) {
						u = joinUnit(u, e.of(st.Val))
					}
				}
				return u
			}
		}
		return uNone
	case *ssa.Extract:
		// k, r := range string  → k is a byte position
		if nx, ok := x.Tuple.(*ssa.Next); ok && nx.IsString && x.Index == 1 {
			return uByte
		}
		return uNone
	case *ssa.BinOp:
		switch x.Op {
		case token.ADD, token.SUB:
			a, b := e.of(x.X), e.of(x.Y)
			if a == uNone {
				return b
			}
			if b == uNone || a == b {
				return a
			}
			return uMixed
		}
		return uNone
	case *ssa.Phi:
		u := uNone
		for _, ed := range x.Edges {
			u = joinUnit(u, e.of(ed))
		}
		return u
	case *ssa.Convert:
		if _, ok := x.Type().Underlying().(*types.Basic); ok && !isStringType(x.Type()) {
			return e.of(x.X)
		}
	case *ssa.ChangeType:
		return e.of(x.X)
	}
	return uNone
}

// joinUnit: what a value that may come from either source carries; a unit-less alternative (a constant) is neutral.
func joinUnit(a, b unit) unit {
	if a == uNone {
		return b
	}
	if b == uNone || a == b {
		return a
	}
	return uNone // genuinely either: give no verdict rather than a false alarm
}

// regexIndexTable: v is (an element of) the result of a regexp Find…Index call.
func (e *unitEnv) regexIndexTable(v ssa.Value, depth int) bool {
	if depth > 4 {
		return false
	}
	switch x := v.(type) {
	case *ssa.Call:
		name := CalleeName(&x.Call)
		return strings.Contains(name, "regexp.Regexp).Find") && strings.HasSuffix(name, "Index")
	case *ssa.UnOp:
		if x.Op == token.MUL {
			if ia, ok := x.X.(*ssa.IndexAddr); ok {
				return e.regexIndexTable(ia.X, depth+1)
			}
		}
	case *ssa.Extract:
		// for _, m := range table  → Extract #2 of Next over … (slices are ranged by index in go/ssa, so rarely seen)
		return false
	case *ssa.Phi:
		for _, ed := range x.Edges {
			if e.regexIndexTable(ed, depth+1) {
				return true
			}
		}
	}
	return false
}

func ruleTextPositionUnits(p *Program, r *Report) {
	r.Begin("R10g", "units of text positions (dimension analysis over go/ssa): a byte position (len of a string or []byte, strings/bytes Index results, regexp …Index tables, the key of a range over a string) and a character position (len of a []rune, utf8.RuneCount…) are never added or subtracted, a []rune is never indexed or sliced by a byte position, and a string never by a character position — they agree on ASCII and index out of range (or cut a character) on anything else", 0)
	defer r.End()
	sites, viol := 0, 0
	for _, fn := range p.RepoFns {
		if fn.Blocks == nil {
			continue
		}
		env := &unitEnv{memo: map[ssa.Value]unit{}, busy: map[ssa.Value]bool{}}
		ord := 0
		top := fn
		for top.Parent() != nil {
			top = top.Parent()
		}
		report := func(pos token.Pos, what string) {
			viol++
			ord++
			r.Fn(FnName(top))
			r.Viol(fmt.Sprintf("units@%s~%d", FnName(top), ord), what+": the two units agree only while the text is ASCII; with one multi-byte character the position is wrong (index out of range, or a character cut in half)", pos)
		}
		ForEachInstr(fn, func(ins ssa.Instruction) {
			switch x := ins.(type) {
			case *ssa.BinOp:
				if (x.Op == token.ADD || x.Op == token.SUB) && env.of(x) == uMixed {
					a, b := env.of(x.X), env.of(x.Y)
					if a != uMixed && b != uMixed {
						sites++
						report(x.Pos(), fmt.Sprintf("%s combines a %s with a %s", FnName(fn), a, b))
					}
				}
			case *ssa.Slice:
				t := x.X.Type()
				if pt, ok := t.Underlying().(*types.Pointer); ok {
					t = pt.Elem()
				}
				var want unit
				switch {
				case isRuneSlice(t):
					want = uRune
				case isStringType(t), isByteSlice(t):
					want = uByte
				default:
					return
				}
				for _, bound := range []ssa.Value{x.Low, x.High} {
					if bound == nil {
						continue
					}
					sites++
					if u := env.of(bound); u != uNone && u != want && u != uMixed {
						report(x.Pos(), fmt.Sprintf("%s slices a %s with a %s", FnName(fn), map[unit]string{uRune: "[]rune", uByte: "string / []byte"}[want], u))
					}
				}
			case *ssa.IndexAddr:
				t := x.X.Type()
				if pt, ok := t.Underlying().(*types.Pointer); ok {
					t = pt.Elem()
				}
				if isRuneSlice(t) {
					sites++
					if u := env.of(x.Index); u == uByte {
						report(x.Pos(), fmt.Sprintf("%s indexes a []rune with a %s", FnName(fn), u))
					}
				}
			case *ssa.Index:
				if isStringType(x.X.Type()) {
					sites++
					if u := env.of(x.Index); u == uRune {
						report(x.Pos(), fmt.Sprintf("%s indexes a string with a %s", FnName(fn), u))
					}
				}
			}
		})
	}
	if viol == 0 {
		r.OK("units", fmt.Sprintf("%d slicing / indexing / offset-arithmetic sites of text examined, no byte/character mix", sites), 0)
	}
}

func init() {
	register("C10", Rule{"R10g", ruleTextPositionUnits})
}

// R02j: an index belongs to the slice it was computed on.  After `s2 := s[lo:]` every position of s is lo further to
// the left in s2.  A value that was used to index (or was compared while scanning) the longer slice and is then used,
// unadjusted, as a bound of a re-slice of the shorter one cuts at the wrong place — invisible while lo is 0, which is
// the only case the tests build (holes at one end only).
func ruleIndexBase(p *Program, r *Report) {
	r.Begin("R02j", "index base: in packages rel and syntax, a bound of a re-slice `t[:h]` / `t[l:]`, where t is (possibly through a reassigned variable) `s[lo:]` with a non-constant-zero lo, is not a value that was used to index s itself — an index computed on the longer slice is off by lo on the shorter one", 0)
	defer r.End()
	sites, viol := 0, 0
	for _, fn := range p.RepoFns {
		pp := PkgPathOf(fn)
		if (pp != Mod+"/rel" && pp != Mod+"/syntax") || fn.Blocks == nil {
			continue
		}
		// shorter[t] = the slice it was cut from with a low bound that is not the constant 0
		longerOf := map[ssa.Value]ssa.Value{}
		ForEachInstr(fn, func(ins ssa.Instruction) {
			sl, ok := ins.(*ssa.Slice)
			if !ok || sl.Low == nil {
				return
			}
			if k, isK := sl.Low.(*ssa.Const); isK && k.Value != nil && k.Value.String() == "0" {
				return
			}
			if _, isSlice := sl.X.Type().Underlying().(*types.Slice); isSlice {
				longerOf[sl] = sl.X
			}
		})
		if len(longerOf) == 0 {
			continue
		}
		// values used to index a given slice value: s[i], s[i-1] … (the index operand and what it derives from)
		indexedBy := map[ssa.Value]map[ssa.Value]bool{}
		ForEachInstr(fn, func(ins ssa.Instruction) {
			ia, ok := ins.(*ssa.IndexAddr)
			if !ok {
				return
			}
			if indexedBy[ia.X] == nil {
				indexedBy[ia.X] = map[ssa.Value]bool{}
			}
			DependsOn(ia.Index, func(x ssa.Value) bool {
				if _, isC := x.(*ssa.Const); !isC {
					indexedBy[ia.X][x] = true
				}
				return false
			})
		})
		// a slice value may be a phi of the original and its re-slice (a reassigned variable)
		var cutFrom func(v ssa.Value, depth int) []ssa.Value
		cutFrom = func(v ssa.Value, depth int) []ssa.Value {
			if depth > 3 {
				return nil
			}
			if l, ok := longerOf[v]; ok {
				return []ssa.Value{l}
			}
			if ph, ok := v.(*ssa.Phi); ok {
				var out []ssa.Value
				for _, e := range ph.Edges {
					out = append(out, cutFrom(e, depth+1)...)
				}
				return out
			}
			return nil
		}
		ord := 0
		ForEachInstr(fn, func(ins ssa.Instruction) {
			sl, ok := ins.(*ssa.Slice)
			if !ok {
				return
			}
			longer := cutFrom(sl.X, 0)
			if len(longer) == 0 {
				return
			}
			for _, bound := range []ssa.Value{sl.Low, sl.High} {
				if bound == nil {
					continue
				}
				if _, isC := bound.(*ssa.Const); isC {
					continue
				}
				sites++
				if indexedBy[sl.X][bound] {
					continue // computed on the very slice that is being cut: the right base
				}
				for _, l := range longer {
					// the longer slice itself may be a phi/param; indexes recorded on it or on phis that contain it
					hit := indexedBy[l][bound]
					if !hit {
						for base, idx := range indexedBy {
							if ph, ok := base.(*ssa.Phi); ok && idx[bound] {
								for _, e := range ph.Edges {
									if e == l {
										hit = true
									}
								}
							}
						}
					}
					// but not if the same bound also indexes the shorter slice only
					if hit {
						viol++
						ord++
						r.Fn(FnName(fn))
						r.Viol(fmt.Sprintf("base@%s~%d", FnName(fn), ord), fmt.Sprintf("%s re-slices a slice that was already cut at the front, with a bound that was computed by indexing the uncut slice: the position is off by the number of elements cut (a trailing hole survives, or a real element is cut off) whenever something was cut at both ends", FnName(fn)), sl.Pos())
						return
					}
				}
			}
		})
	}
	if viol == 0 {
		r.OK("base", fmt.Sprintf("%d re-slices of front-cut slices examined, none bounded by an index of the uncut slice", sites), 0)
	}
}

func init() { register("C02", Rule{"R02j", ruleIndexBase}) }
