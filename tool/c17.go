package main

import (
	"fmt"
	"go/token"
	"go/types"
	"sort"
	"strings"

	"golang.org/x/tools/go/ssa"
)

func init() {
	register("C17",
		Rule{"R17a", ruleActorNoSelfComm},
		Rule{"R17b", ruleActorAnswersOnce},
		Rule{"R17c", ruleActorInstallThenNotify},
		Rule{"R17d", ruleMapMissDeref},
		Rule{"R17e", ruleActorRecover},
		Rule{"R17f", ruleActorNoClientHandoff},
		Rule{"R17g", ruleActorSerialDelivery},
	)
}

// interpreterDispatch reports whether a call site is an interpreter dispatch edge (evaluating an existing
// expression/value): invoke of Eval / CallAll / Bind on the rel interfaces.
func interpreterDispatch(cc *ssa.CallCommon) bool {
	if !cc.IsInvoke() {
		return false
	}
	switch cc.Method.Name() {
	case "Eval", "CallAll", "Bind":
		return strings.Contains(cc.Value.Type().String(), Mod+"/rel.")
	}
	return false
}

type actorInfo struct {
	root  *ssa.Function
	start *ssa.Function
	reach map[*ssa.Function][]string // function -> call path from the actor root
	order []*ssa.Function
}

// actorOf computes the functions that execute on the engine's actor goroutine: the call-graph closure (VTA,
// module functions only, interpreter dispatch cut) of the function literal started with `go` in engine.Start.
func actorOf(p *Program) (*actorInfo, error) {
	start := p.Func("engine", "Start")
	if start == nil {
		return nil, fmt.Errorf("engine.Start not found")
	}
	var root *ssa.Function
	ForEachInstr(start, func(ins ssa.Instruction) {
		if g, ok := ins.(*ssa.Go); ok {
			switch v := g.Call.Value.(type) {
			case *ssa.MakeClosure:
				root = v.Fn.(*ssa.Function)
			case *ssa.Function:
				root = v
			}
		}
	})
	if root == nil {
		return nil, fmt.Errorf("no `go` statement starting the actor found in engine.Start")
	}
	ai := &actorInfo{root: root, start: start, reach: map[*ssa.Function][]string{root: {FnName(root)}}}
	work := []*ssa.Function{root}
	for len(work) > 0 {
		fn := work[0]
		work = work[1:]
		ai.order = append(ai.order, fn)
		ForEachInstr(fn, func(ins ssa.Instruction) {
			var targets []*ssa.Function
			switch x := ins.(type) {
			case ssa.CallInstruction:
				if interpreterDispatch(x.Common()) {
					return
				}
				targets = p.Callees(x)
			case *ssa.MakeClosure:
				// closures created on the actor may be called by it (deferred/local function values)
				if _, isGo := ins.(*ssa.Go); !isGo {
					targets = []*ssa.Function{x.Fn.(*ssa.Function)}
				}
			}
			for _, t := range targets {
				if t == nil || t.Blocks == nil || !InRepo(t) {
					continue
				}
				if _, seen := ai.reach[t]; seen {
					continue
				}
				ai.reach[t] = append(append([]string{}, ai.reach[fn]...), FnName(t))
				work = append(work, t)
			}
		})
	}
	return ai, nil
}

// chanOrigin describes where a channel value comes from: "field:T.f", "captured:x", "local:x", "param:x".
func chanOrigin(v ssa.Value) string {
	for i := 0; i < 6; i++ {
		switch x := v.(type) {
		case *ssa.UnOp:
			v = x.X
			continue
		case *ssa.FieldAddr:
			if st := structOf(x.X.Type()); st != nil {
				return "field:" + TypeName(Deref(x.X.Type())) + "." + st.Field(x.Field).Name()
			}
		case *ssa.Field:
			if st := structOf(x.X.Type()); st != nil {
				return "field:" + TypeName(x.X.Type()) + "." + st.Field(x.Field).Name()
			}
		case *ssa.FreeVar:
			return "captured:" + x.Name()
		case *ssa.Parameter:
			return "param:" + x.Name()
		case *ssa.MakeChan:
			return "local:make(chan)"
		case *ssa.Alloc:
			return "local:" + x.Comment
		case *ssa.ChangeType:
			v = x.X
			continue
		}
		break
	}
	return "value"
}

type chanOp struct {
	ins  ssa.Instruction
	ch   ssa.Value
	kind string // send | recv | select-send | select-recv
}

func chanOps(fn *ssa.Function) []chanOp {
	var out []chanOp
	ForEachInstr(fn, func(ins ssa.Instruction) {
		switch x := ins.(type) {
		case *ssa.Send:
			out = append(out, chanOp{ins, x.Chan, "send"})
		case *ssa.UnOp:
			if x.Op == token.ARROW {
				out = append(out, chanOp{ins, x.X, "recv"})
			}
		case *ssa.Select:
			for _, st := range x.States {
				k := "select-recv"
				if st.Dir == types.SendOnly {
					k = "select-send"
				}
				out = append(out, chanOp{ins, st.Chan, k})
			}
		}
	})
	return out
}

func ruleActorNoSelfComm(p *Program, r *Report) {
	r.Begin("R17a", "the actor never talks to its own mailbox: no function that executes on the engine goroutine (VTA call-graph closure of the `go` literal in engine.Start, interpreter dispatch cut) sends on or receives from a channel field of Engine, except the actor's own select", 3)
	defer r.End()
	ai, err := actorOf(p)
	if err != nil {
		r.Undecided("actor", err.Error(), 0)
		return
	}
	var names []string
	for _, fn := range ai.order {
		names = append(names, FnName(fn))
		r.Fn(FnName(fn))
	}
	r.Notes = append(r.Notes, "functions on the actor goroutine: "+strings.Join(names, " "))
	for _, fn := range ai.order {
		ord := map[string]int{}
		for _, op := range chanOps(fn) {
			org := chanOrigin(op.ch)
			if !strings.HasPrefix(org, "field:engine.Engine.") {
				continue
			}
			key := fmt.Sprintf("mailbox-%s@%s#%s", strings.TrimPrefix(op.kind, "select-"), FnName(fn), strings.TrimPrefix(org, "field:engine.Engine."))
			ord[key]++
			if ord[key] > 1 {
				key = fmt.Sprintf("%s~%d", key, ord[key])
			}
			if fn == ai.root && strings.HasPrefix(op.kind, "select-") {
				r.OK(key, "the actor's own select", op.ins.Pos())
				continue
			}
			r.ViolPath(key, fmt.Sprintf("%s runs on the engine goroutine and performs a blocking %s on Engine.%s, which only that same goroutine serves: the engine deadlocks (no later request is ever answered)", FnName(fn), op.kind, strings.TrimPrefix(org, "field:engine.Engine.")), op.ins.Pos(), ai.reach[fn])
		}
	}
}

// actorLoop finds the select of the actor and, for each select state, the block where its case body starts.
type actorCase struct {
	index int
	chanF string // Engine field name
	body  *ssa.BasicBlock
	recv  ssa.Value // received value (Extract), if any
}

func actorCases(ai *actorInfo) (*ssa.Select, []actorCase, *ssa.BasicBlock) {
	var sel *ssa.Select
	ForEachInstr(ai.root, func(ins ssa.Instruction) {
		if s, ok := ins.(*ssa.Select); ok && sel == nil {
			sel = s
		}
	})
	if sel == nil {
		return nil, nil, nil
	}
	// index value = extract #0; cases are chains of `index == k`
	var idx ssa.Value
	recvs := map[int]ssa.Value{}
	for _, ref := range *sel.Referrers() {
		if ex, ok := ref.(*ssa.Extract); ok {
			if ex.Index == 0 {
				idx = ex
			} else if ex.Index >= 2 {
				recvs[ex.Index-2] = ex
			}
		}
	}
	var cases []actorCase
	if idx != nil {
		for _, ref := range *idx.Referrers() {
			bo, ok := ref.(*ssa.BinOp)
			if !ok || bo.Op != token.EQL {
				continue
			}
			k, ok := bo.Y.(*ssa.Const)
			if !ok || k.Value == nil {
				continue
			}
			var n int
			fmt.Sscan(k.Value.ExactString(), &n)
			for _, r2 := range *bo.Referrers() {
				if iff, ok := r2.(*ssa.If); ok && n < len(sel.States) {
					c := actorCase{index: n, body: iff.Block().Succs[0]}
					c.chanF = strings.TrimPrefix(chanOrigin(sel.States[n].Chan), "field:engine.Engine.")
					// the receive extract index counts only receive states
					ri := 0
					for j := 0; j < n; j++ {
						if sel.States[j].Dir == types.RecvOnly {
							ri++
						}
					}
					c.recv = recvs[ri]
					cases = append(cases, c)
				}
			}
		}
	}
	sort.Slice(cases, func(i, j int) bool { return cases[i].index < cases[j].index })
	return sel, cases, sel.Block()
}

// requestValues: the received request and every parameter of an actor function that receives a value derived from
// it (the case body extracted into a method, the request handed on to helpers), to a fixpoint.
func requestValues(p *Program, ai *actorInfo, recv ssa.Value) map[ssa.Value]bool {
	vals := map[ssa.Value]bool{recv: true}
	isReq := func(v ssa.Value) bool { return vals[v] }
	for round := 0; round < 6; round++ {
		changed := false
		for _, fn := range ai.order {
			ForEachInstr(fn, func(ins ssa.Instruction) {
				c, ok := ins.(ssa.CallInstruction)
				if !ok {
					return
				}
				g := c.Common().StaticCallee()
				if g == nil || !InRepo(g) || g.Blocks == nil {
					return
				}
				for i, a := range c.Common().Args {
					if i < len(g.Params) && !vals[g.Params[i]] && DependsOn(a, isReq) {
						vals[g.Params[i]] = true
						changed = true
					}
				}
			})
		}
		if !changed {
			break
		}
	}
	return vals
}

type replyCount struct{ min, max int }

// replySummary: min/max number of sends on a channel derived from a request value over all paths through fn
// (entry to exit), counting calls of module functions that receive the request by their own summary.
func replySummary(fn *ssa.Function, vals map[ssa.Value]bool, memo map[*ssa.Function]*replyCount, stack map[*ssa.Function]bool) replyCount {
	if m, ok := memo[fn]; ok {
		return *m
	}
	if stack[fn] || fn.Blocks == nil {
		return replyCount{0, 0}
	}
	stack[fn] = true
	res, _ := replyPaths(fn, fn.Blocks[0], nil, vals, memo, stack)
	stack[fn] = false
	memo[fn] = &res
	return res
}

func replyEvents(ins ssa.Instruction, vals map[ssa.Value]bool, memo map[*ssa.Function]*replyCount, stack map[*ssa.Function]bool) replyCount {
	isReq := func(v ssa.Value) bool { return vals[v] }
	switch x := ins.(type) {
	case *ssa.Send:
		if DependsOn(x.Chan, isReq) {
			return replyCount{1, 1}
		}
	case ssa.CallInstruction:
		if _, isGo := ins.(*ssa.Go); isGo {
			return replyCount{}
		}
		g := x.Common().StaticCallee()
		if g == nil || !InRepo(g) || g.Blocks == nil {
			return replyCount{}
		}
		passes := false
		for _, a := range x.Common().Args {
			if DependsOn(a, isReq) {
				passes = true
			}
		}
		if passes {
			return replySummary(g, vals, memo, stack)
		}
	}
	return replyCount{}
}

// replyPaths: min/max reply events from block `from` to `stop` (or to the function's exits when stop is nil);
// the bool reports whether a non-panicking exit is reachable.
func replyPaths(fn *ssa.Function, from, stop *ssa.BasicBlock, vals map[ssa.Value]bool, fmemo map[*ssa.Function]*replyCount, stack map[*ssa.Function]bool) (replyCount, bool) {
	memo := map[*ssa.BasicBlock]*replyCount{}
	onStack := map[*ssa.BasicBlock]bool{}
	exits := false
	const inf = 1 << 20
	var walk func(b *ssa.BasicBlock) replyCount
	walk = func(b *ssa.BasicBlock) replyCount {
		if b == stop {
			return replyCount{0, 0}
		}
		if m, ok := memo[b]; ok {
			return *m
		}
		if onStack[b] {
			return replyCount{0, 0} // inner loop back edge
		}
		onStack[b] = true
		here := replyCount{}
		for _, ins := range b.Instrs {
			e := replyEvents(ins, vals, fmemo, stack)
			here.min += e.min
			here.max += e.max
		}
		res := replyCount{inf, 0}
		if len(b.Succs) == 0 {
			if _, isPanic := b.Instrs[len(b.Instrs)-1].(*ssa.Panic); !isPanic {
				exits = true
			}
			res = replyCount{0, 0}
		}
		for _, s := range b.Succs {
			m := walk(s)
			if m.min < res.min {
				res.min = m.min
			}
			if m.max > res.max {
				res.max = m.max
			}
		}
		res.min += here.min
		res.max += here.max
		// a reply inside an inner loop (a cycle through b that avoids stop) would be unbounded
		if here.max > 0 {
			seen := map[*ssa.BasicBlock]bool{}
			if stop != nil {
				seen[stop] = true
			}
			work := append([]*ssa.BasicBlock{}, b.Succs...)
			for len(work) > 0 {
				x := work[len(work)-1]
				work = work[:len(work)-1]
				if seen[x] {
					continue
				}
				seen[x] = true
				if x == b {
					res.max = inf
					break
				}
				work = append(work, x.Succs...)
			}
		}
		if res.max > inf {
			res.max = inf
		}
		onStack[b] = false
		memo[b] = &res
		return res
	}
	r := walk(from)
	return r, exits
}

func ruleActorAnswersOnce(p *Program, r *Report) {
	r.Begin("R17b", "every update request is answered exactly once: on every control-flow path from the select case that receives an updateRequest back to the select, exactly one send on that request's reply channel occurs (min = max = 1 over all paths), and the update branch cannot leave the loop", 1)
	defer r.End()
	ai, err := actorOf(p)
	if err != nil {
		r.Undecided("actor", err.Error(), 0)
		return
	}
	sel, cases, loopHead := actorCases(ai)
	if sel == nil {
		r.Undecided("select", "no select in the actor", ai.root.Pos())
		return
	}
	found := false
	for _, c := range cases {
		if c.recv == nil || !strings.Contains(c.recv.Type().String(), "updateRequest") {
			continue
		}
		found = true
		r.Fn(FnName(ai.root))
		vals := requestValues(p, ai, c.recv)
		for v := range vals {
			if prm, ok := v.(*ssa.Parameter); ok {
				r.Fn(FnName(prm.Parent()))
			}
		}
		m, exits := replyPaths(ai.root, c.body, loopHead, vals, map[*ssa.Function]*replyCount{}, map[*ssa.Function]bool{})
		key := "reply-once@" + c.chanF
		switch {
		case m.min == 1 && m.max == 1 && !exits:
			r.OK(key, "exactly one reply on every path back to the select", c.body.Instrs[0].Pos())
		case m.min == 0:
			r.Viol(key, "some path from receiving an update request back to the select sends no reply: the client's Update call blocks forever", c.body.Instrs[0].Pos())
		case m.max > 1:
			r.Viol(key, "some path answers an update request more than once: the second send blocks the engine forever (the client receives only once)", c.body.Instrs[0].Pos())
		default:
			r.Viol(key, "the update branch can leave the actor loop", c.body.Instrs[0].Pos())
		}
	}
	if !found {
		r.Undecided("update-case", "no select case receiving an updateRequest found", sel.Pos())
	}
}

func ruleActorInstallThenNotify(p *Program, r *Report) {
	r.Begin("R17c", "install then notify: in the update branch the scope handed to every watcher is the one produced by installing the new value (global.With(Root, value) with value = the request's Eval result), the loop variable `global` takes that same scope, the failing branch leaves `global` unchanged, and a newly added watcher is first sent the current `global`", 3)
	defer r.End()
	ai, err := actorOf(p)
	if err != nil {
		r.Undecided("actor", err.Error(), 0)
		return
	}
	sel, cases, loopHead := actorCases(ai)
	if sel == nil {
		r.Undecided("select", "no select in the actor", ai.root.Pos())
		return
	}
	upd := p.Method("engine", "watcher", "update")
	if upd == nil {
		r.Undecided("anchor", "(*watcher).update not found", 0)
		return
	}
	r.Fn(FnName(ai.root))
	// the loop-carried scope: a Phi in the loop head (or a block dominating it) of type rel.Scope
	var globalPhi *ssa.Phi
	for _, b := range ai.root.Blocks {
		for _, ins := range b.Instrs {
			if ph, ok := ins.(*ssa.Phi); ok && strings.HasSuffix(ph.Type().String(), "rel.Scope") && b.Dominates(loopHead) && Reaches(b, b, false) {
				if globalPhi == nil || ph.Comment == "global" {
					globalPhi = ph
				}
			}
		}
	}
	if globalPhi == nil {
		// the state may live in a struct field owned by the actor instead of a loop variable
		if !installThenNotifyField(p, r, ai, upd) {
			r.Undecided("global", "neither a loop-carried scope variable nor a scope-typed state field found in the actor", ai.root.Pos())
		}
		return
	}
	for _, c := range cases {
		inCase := func(b *ssa.BasicBlock) bool { return b == c.body || c.body.Dominates(b) }
		switch {
		case c.recv != nil && strings.Contains(c.recv.Type().String(), "updateRequest"):
			// Eval result and With call
			var evalCall, withCall *ssa.Call
			for _, b := range ai.root.Blocks {
				if !inCase(b) {
					continue
				}
				for _, ins := range b.Instrs {
					call, ok := ins.(*ssa.Call)
					if !ok {
						continue
					}
					if call.Call.IsInvoke() && call.Call.Method.Name() == "Eval" && DependsOn(call.Call.Value, func(v ssa.Value) bool { return v == c.recv }) {
						evalCall = call
					}
					if callee := call.Call.StaticCallee(); callee != nil && InRepo(callee) && evalCall == nil {
						// an evaluation helper: takes the request's expression, returns (Value, error)
						res := callee.Signature.Results()
						if res.Len() == 2 && isErrorType(res.At(1).Type()) && strings.HasSuffix(res.At(0).Type().String(), "rel.Value") {
							for _, a := range call.Call.Args {
								if DependsOn(a, func(v ssa.Value) bool { return v == c.recv }) {
									evalCall = call
								}
							}
						}
					}
					if callee := call.Call.StaticCallee(); callee != nil && callee.Name() == "With" && strings.HasSuffix(call.Type().String(), "rel.Scope") {
						withCall = call
					}
				}
			}
			if evalCall == nil || withCall == nil {
				// the update step may be a function that takes the state and the request and returns the new state
				if transformerInstallThenNotify(p, r, ai, upd, globalPhi, c.recv, inCase) {
					continue
				}
				r.Undecided("install", "request Eval call or Scope.With call not found in the update branch", c.body.Instrs[0].Pos())
				continue
			}
			r.Check(DependsOn(withCall, func(v ssa.Value) bool { return v == ssa.Value(evalCall) }) && DependsOn(withCall.Call.Args[0], func(v ssa.Value) bool { return v == ssa.Value(globalPhi) }),
				"installs-eval-result", "the installed scope is global.With(…, value of this request)", "the scope installed by the update branch is not built from the previous scope and this request's value", withCall.Pos())
			// notifications
			n := 0
			for _, b := range ai.root.Blocks {
				if !inCase(b) {
					continue
				}
				for _, ins := range b.Instrs {
					call, ok := ins.(*ssa.Call)
					if !ok || call.Call.StaticCallee() != upd {
						continue
					}
					n++
					arg := call.Call.Args[len(call.Call.Args)-1]
					r.Check(arg == ssa.Value(withCall), fmt.Sprintf("notify-new-state~%d", n), "watchers are sent the newly installed scope", "a watcher is notified with a scope that is not the newly installed one (stale or not yet installed state)", call.Pos())
					r.Check(InstrDominates(withCall, call), fmt.Sprintf("notify-after-install~%d", n), "notification follows installation", "a watcher is notified before the new state is installed", call.Pos())
				}
			}
			if n == 0 {
				r.Viol("notifies", "the update branch does not notify the watchers", c.body.Instrs[0].Pos())
			}
			// loop-carried value: edges of globalPhi from blocks in this case
			for i, e := range globalPhi.Edges {
				pred := globalPhi.Block().Preds[i]
				if !inCase(pred) {
					continue
				}
				// error path: pred reached without passing withCall's block
				if withCall.Block() == pred || withCall.Block().Dominates(pred) {
					r.Check(e == ssa.Value(withCall), "carries-installed", "the next iteration sees the installed scope", "after a successful update the loop continues with a scope other than the one shown to the watchers", withCall.Pos())
				} else {
					r.Check(e == ssa.Value(globalPhi), "failed-update-unchanged", "a failed update leaves the state unchanged", "the failing path of the update branch changes the database state", pred.Instrs[len(pred.Instrs)-1].Pos())
				}
			}
		case c.recv != nil && strings.Contains(c.recv.Type().String(), "watcher"):
			n := 0
			for _, b := range ai.root.Blocks {
				if !inCase(b) {
					continue
				}
				for _, ins := range b.Instrs {
					call, ok := ins.(*ssa.Call)
					if !ok || call.Call.StaticCallee() != upd {
						continue
					}
					n++
					arg := call.Call.Args[len(call.Call.Args)-1]
					r.Check(arg == ssa.Value(globalPhi), "initial-state", "a new watcher is first sent the current state", "a newly added watcher is not sent the current state", call.Pos())
				}
			}
			if n == 0 {
				r.Viol("initial-state", "a newly added watcher is never sent the state it subscribed on", c.body.Instrs[0].Pos())
			}
		}
	}
}

func ruleMapMissDeref(p *Program, r *Report) {
	r.Begin("R17d", "map-miss dereference: in package engine and the serve front ends, a pointer obtained by indexing a map without the comma-ok form is not used as a method receiver or dereferenced unless a nil test dominates the use (a missing key — e.g. cancelling an observer twice — yields nil)", 0)
	defer r.End()
	n := 0
	for _, fn := range p.RepoFns {
		pp := PkgPathOf(fn)
		if pp != Mod+"/engine" && pp != Mod+"/cmd/arrai" {
			continue
		}
		ForEachInstr(fn, func(ins ssa.Instruction) {
			lk, ok := ins.(*ssa.Lookup)
			if !ok || lk.CommaOk {
				return
			}
			if _, isMap := lk.X.Type().Underlying().(*types.Map); !isMap {
				return
			}
			if _, isPtr := lk.Type().Underlying().(*types.Pointer); !isPtr {
				return
			}
			n++
			r.Fn(FnName(fn))
			for _, ref := range *lk.Referrers() {
				use := false
				desc := ""
				switch u := ref.(type) {
				case ssa.CallInstruction:
					if !u.Common().IsInvoke() && len(u.Common().Args) > 0 && u.Common().Args[0] == ssa.Value(lk) {
						if callee := u.Common().StaticCallee(); callee != nil && callee.Signature.Recv() != nil {
							use, desc = true, "method call "+FnName(callee)
						}
					}
				case *ssa.FieldAddr:
					use, desc = true, "field access"
				case *ssa.UnOp:
					use, desc = u.Op == token.MUL, "dereference"
				}
				if !use {
					continue
				}
				// nil test dominating the use?
				guarded := false
				for _, r2 := range *lk.Referrers() {
					if bo, ok := r2.(*ssa.BinOp); ok && (bo.Op == token.NEQ || bo.Op == token.EQL) && (IsNilConst(bo.X) || IsNilConst(bo.Y)) {
						for _, r3 := range *bo.Referrers() {
							if iff, ok := r3.(*ssa.If); ok {
								s := 0
								if bo.Op == token.EQL {
									s = 1
								}
								if iff.Block().Succs[s].Dominates(ref.Block()) {
									guarded = true
								}
							}
						}
					}
				}
				key := fmt.Sprintf("map-miss@%s#%s", FnName(fn), strings.ReplaceAll(desc, " ", "_"))
				r.Check(guarded, key, "nil test dominates the use", fmt.Sprintf("%s indexes a map without checking presence and immediately performs a %s on the result: a missing key gives a nil pointer and the goroutine panics", FnName(fn), desc), ref.Pos())
			}
		})
	}
	if n == 0 {
		r.Info("sites", "no unchecked pointer-valued map lookups in engine / cmd/arrai", 0)
	}
}

// hasRecoverDefer reports whether fn defers a function that calls recover().
func hasRecoverDefer(fn *ssa.Function) bool {
	found := false
	ForEachInstr(fn, func(ins ssa.Instruction) {
		d, ok := ins.(*ssa.Defer)
		if !ok {
			return
		}
		var callee *ssa.Function
		switch v := d.Call.Value.(type) {
		case *ssa.MakeClosure:
			callee = v.Fn.(*ssa.Function)
		case *ssa.Function:
			callee = v
		}
		if callee == nil {
			return
		}
		ForEachInstr(callee, func(i2 ssa.Instruction) {
			if c, ok := i2.(*ssa.Call); ok {
				if b, ok := c.Call.Value.(*ssa.Builtin); ok && b.Name() == "recover" {
					found = true
				}
			}
		})
	})
	return found
}

func ruleActorRecover(p *Program, r *Report) {
	r.Begin("R17e", "recover coverage on the actor: every interpreter dispatch (Expr.Eval / Set.CallAll invoke) executed on the engine goroutine happens in a function that — itself or through every caller up to the actor root — has a deferred recover; a panic in user-supplied code otherwise kills the server process", 2)
	defer r.End()
	ai, err := actorOf(p)
	if err != nil {
		r.Undecided("actor", err.Error(), 0)
		return
	}
	// covered(fn): fn has a recover defer, or all paths (we use the recorded BFS path) pass a function that has one
	for _, fn := range ai.order {
		ord := map[string]int{}
		ForEachInstr(fn, func(ins ssa.Instruction) {
			c, ok := ins.(ssa.CallInstruction)
			if !ok {
				return
			}
			kind := "eval"
			if !interpreterDispatch(c.Common()) {
				// a client callback: a call through a function-typed field (watcher.onupdate / onclose) runs code the
				// engine does not own, on the engine goroutine
				cb := false
				if c.Common().StaticCallee() == nil && !c.Common().IsInvoke() {
					if ld, isLd := c.Common().Value.(*ssa.UnOp); isLd {
						if fa, isFA := ld.X.(*ssa.FieldAddr); isFA && strings.HasPrefix(TypeName(Deref(fa.X.Type())), "engine.") {
							// only callbacks that are handed an evaluated value: rendering an arbitrary value is where client
							// code can panic (an encoder meeting +Inf or a function); close notifications carry just an error
							for _, a := range c.Common().Args {
								if strings.HasSuffix(a.Type().String(), "rel.Value") {
									cb = true
								}
							}
						}
					}
				}
				if !cb {
					return
				}
				kind = "callback"
			}
			key := fmt.Sprintf("%s@%s", kind, FnName(fn))
			ord[key]++
			if ord[key] > 1 {
				key = fmt.Sprintf("%s~%d", key, ord[key])
			}
			covered := false
			// walk the BFS path: any function on it with a recover defer
			for _, name := range ai.reach[fn] {
				for _, f2 := range ai.order {
					if FnName(f2) == name && hasRecoverDefer(f2) {
						covered = true
					}
				}
			}
			r.Fn(FnName(fn))
			if covered {
				r.OK(key, "under a deferred recover", ins.Pos())
			} else {
				r.ViolPath(key, fmt.Sprintf("%s evaluates a client-supplied expression or calls a client callback on the engine goroutine with no deferred recover on the way from the actor loop: a panic there (an observer's encoder meeting a value it cannot render) brings the whole server down", FnName(fn)), ins.Pos(), ai.reach[fn])
			}
		})
	}
}

func ruleActorNoClientHandoff(p *Program, r *Report) {
	r.Begin("R17f", "no blocking hand-off to a client from the actor: code on the engine goroutine blocks only on its own select and on the reply channel of the request it is serving; any other send on a channel (e.g. a front end's per-call result channel that is received from only once) can park the engine forever", 1)
	defer r.End()
	ai, err := actorOf(p)
	if err != nil {
		r.Undecided("actor", err.Error(), 0)
		return
	}
	_, cases, _ := actorCases(ai)
	var req ssa.Value
	for _, c := range cases {
		if c.recv != nil && strings.Contains(c.recv.Type().String(), "updateRequest") {
			req = c.recv
		}
	}
	reqVals := map[ssa.Value]bool{}
	if req != nil {
		reqVals = requestValues(p, ai, req)
	}
	n := 0
	for _, fn := range ai.order {
		ord := map[string]int{}
		for _, op := range chanOps(fn) {
			if op.kind == "select-send" {
				// a send inside a select is a hand-off only when the select can block (no default case)
				if sel, ok := op.ins.(*ssa.Select); !ok || !sel.Blocking || fn == ai.root {
					continue
				}
			} else if op.kind != "send" {
				continue
			}
			org := chanOrigin(op.ch)
			if strings.HasPrefix(org, "field:engine.Engine.") {
				continue // R17a
			}
			n++
			key := fmt.Sprintf("handoff@%s#%s", FnName(fn), org)
			ord[key]++
			if ord[key] > 1 {
				key = fmt.Sprintf("%s~%d", key, ord[key])
			}
			r.Fn(FnName(fn))
			if req != nil && DependsOn(op.ch, func(v ssa.Value) bool { return reqVals[v] }) {
				r.OK(key, "reply channel of the request being served (its sender is parked on the receive; R17b: exactly one reply)", op.ins.Pos())
				continue
			}
			r.ViolPath(key, fmt.Sprintf("%s runs on the engine goroutine and sends on %s: unless a receiver is guaranteed for every such send the engine parks forever and serves no later request", FnName(fn), org), op.ins.Pos(), ai.reach[fn])
		}
	}
	if n == 0 {
		r.Undecided("sends", "no send found on the actor goroutine (the reply send was confirmed by hand)", 0)
	}
}

func ruleActorSerialDelivery(p *Program, r *Report) {
	r.Begin("R17g", "serial, ordered delivery: no function of package engine that executes on the actor goroutine starts another goroutine (a `go` statement would let deliveries to one observer overtake each other and run its callback concurrently)", 1)
	defer r.End()
	ai, err := actorOf(p)
	if err != nil {
		r.Undecided("actor", err.Error(), 0)
		return
	}
	for _, fn := range ai.order {
		if PkgPathOf(fn) != Mod+"/engine" {
			continue
		}
		r.Fn(FnName(fn))
		n := 0
		ForEachInstr(fn, func(ins ssa.Instruction) {
			if g, ok := ins.(*ssa.Go); ok {
				n++
				r.ViolPath(fmt.Sprintf("go@%s~%d", FnName(fn), n), fmt.Sprintf("%s starts a goroutine from the engine loop (%s): deliveries are no longer serial and in installation order", FnName(fn), CalleeName(g.Common())), ins.Pos(), ai.reach[fn])
			}
		})
		if n == 0 {
			r.OK("go@"+FnName(fn), "starts no goroutine", fn.Pos())
		}
	}
}

// R17h / R10g: a recovered panic becomes the function's error.  For every module function that has an error result
// and a deferred handler calling recover(): on the recovered branch the handler stores a non-nil value into the
// function's named error result (captured, or passed as &err), on every path to the handler's return.  With unnamed
// results the Return's operands are evaluated before the deferred calls run, so a handler that assigns a local
// makes the function return (zero, nil): the failed update is acknowledged and a nil value is installed.
func ruleRecoverToError(p *Program, r *Report) {
	r.Begin("R17h", "recover-to-error: every function with an error result and a deferred recover() handler has the handler store, on every path of its recovered branch, a non-nil value into the function's named error result (the cell every Return reads after the deferred calls have run) — otherwise a recovered panic returns (zero value, nil) and is treated as success", 4)
	defer r.End()
	errT := types.Universe.Lookup("error").Type()
	for _, fn := range p.RepoFns {
		res := fn.Signature.Results()
		if res.Len() == 0 || !types.Identical(res.At(res.Len()-1).Type(), errT) {
			continue
		}
		ForEachInstr(fn, func(ins ssa.Instruction) {
			d, ok := ins.(*ssa.Defer)
			if !ok {
				return
			}
			var h *ssa.Function
			var mc *ssa.MakeClosure
			switch v := d.Call.Value.(type) {
			case *ssa.MakeClosure:
				h, mc = v.Fn.(*ssa.Function), v
			case *ssa.Function:
				h = v
			}
			if h == nil || h.Blocks == nil {
				return
			}
			var rec *ssa.Call
			ForEachInstr(h, func(i2 ssa.Instruction) {
				if c, ok := i2.(*ssa.Call); ok {
					if b, ok := c.Call.Value.(*ssa.Builtin); ok && b.Name() == "recover" {
						rec = c
					}
				}
			})
			if rec == nil {
				return
			}
			r.Fn(FnName(fn))
			key := "recover@" + FnName(fn)
			// the function's error result cell: named result Alloc that every Return loads after RunDefers
			var cell *ssa.Alloc
			okCell := true
			nRet := 0
			ForEachInstr(fn, func(i2 ssa.Instruction) {
				ret, ok := i2.(*ssa.Return)
				if !ok {
					return
				}
				nRet++
				ld, ok := ret.Results[len(ret.Results)-1].(*ssa.UnOp)
				if !ok {
					okCell = false
					return
				}
				al, ok := ld.X.(*ssa.Alloc)
				if !ok || ld.Block() != ret.Block() {
					okCell = false
					return
				}
				afterDefers := ret.Block() == fn.Recover // the recover block runs after the deferred calls
				for _, i3 := range ret.Block().Instrs {
					if _, is := i3.(*ssa.RunDefers); is {
						afterDefers = true
					}
					if i3 == ssa.Instruction(ld) && !afterDefers {
						okCell = false
					}
				}
				if cell != nil && cell != al {
					okCell = false
				}
				cell = al
			})
			if !okCell || cell == nil || nRet == 0 {
				r.Viol(key, fmt.Sprintf("%s recovers a panic in a deferred handler but its error result is not a named result read after the deferred calls run: whatever the handler assigns, the function returns the values computed before the panic (zero value, nil error) — the failure is reported as success", FnName(fn)), d.Pos())
				return
			}
			// pointers to the cell inside the handler
			isCellPtr := func(v ssa.Value) bool {
				switch x := v.(type) {
				case *ssa.FreeVar:
					if mc == nil {
						return false
					}
					for i, fv := range h.FreeVars {
						if fv == x && i < len(mc.Bindings) && mc.Bindings[i] == ssa.Value(cell) {
							return true
						}
					}
				case *ssa.Parameter:
					for i, q := range h.Params {
						if q == x && i < len(d.Call.Args) && d.Call.Args[i] == ssa.Value(cell) {
							return true
						}
					}
				}
				return false
			}
			storeBlocks := map[*ssa.BasicBlock]bool{}
			ForEachInstr(h, func(i2 ssa.Instruction) {
				if st, ok := i2.(*ssa.Store); ok && isCellPtr(st.Addr) && !IsNilConst(st.Val) {
					storeBlocks[st.Block()] = true
				}
			})
			// recovered branch: the successor taken when recover() != nil
			var start *ssa.BasicBlock
			for _, ref := range *rec.Referrers() {
				bo, ok := ref.(*ssa.BinOp)
				if !ok {
					continue
				}
				for _, r2 := range *bo.Referrers() {
					if iff, ok := r2.(*ssa.If); ok {
						switch bo.Op {
						case token.NEQ:
							start = iff.Block().Succs[0]
						case token.EQL:
							start = iff.Block().Succs[1]
						}
					}
				}
			}
			if start == nil {
				// type switch / assertion forms: take the handler's entry as the start (every path must store)
				start = h.Blocks[0]
			}
			escapes := false
			seen := map[*ssa.BasicBlock]bool{}
			var dfs func(b *ssa.BasicBlock)
			dfs = func(b *ssa.BasicBlock) {
				if seen[b] || storeBlocks[b] {
					return
				}
				seen[b] = true
				if _, isRet := b.Instrs[len(b.Instrs)-1].(*ssa.Return); isRet {
					escapes = true
				}
				for _, s := range b.Succs {
					dfs(s)
				}
			}
			dfs(start)
			r.Check(len(storeBlocks) > 0 && !escapes, key, "the handler sets the named error result on every recovered path", fmt.Sprintf("%s recovers a panic but its handler does not store an error into the function's error result on every recovered path: the function then returns (zero value, nil) and the failure is treated as success", FnName(fn)), rec.Pos())
		})
	}
}

func init() {
	register("C17", Rule{"R17h", ruleRecoverToError})
	register("C10", Rule{"R17h", ruleRecoverToError})
}

// installThenNotifyField is R17c for an actor whose state lives in a struct field (e.g. engineState.global) instead
// of a loop variable:
//   - every watcher.update call on the actor is handed a load of the state field (watchers only ever see the state
//     that is installed at that moment; a new watcher gets the current state);
//   - the field is written, apart from initialisation before the loop, only as <load of the field>.With(…, value)
//     where value is this request's evaluation result, on the branch where that evaluation's error is nil (a failed
//     update leaves the state unchanged);
//   - in the installing function every call that reaches watcher.update is dominated by the installing store.
func installThenNotifyField(p *Program, r *Report, ai *actorInfo, upd *ssa.Function) bool {
	scopeField := func(addr ssa.Value) (string, bool) {
		fa, ok := addr.(*ssa.FieldAddr)
		if !ok {
			return "", false
		}
		k, _, ok := cellKeyOfAddr(fa)
		if !ok || !strings.HasSuffix(Deref(fa.Type()).String(), "rel.Scope") {
			return "", false
		}
		return k, true
	}
	loadOf := func(v ssa.Value) (string, bool) {
		ld, ok := v.(*ssa.UnOp)
		if !ok || ld.Op != token.MUL {
			return "", false
		}
		return scopeField(ld.X)
	}
	// the state cell: the scope field handed to watcher.update
	cell := ""
	for _, fn := range ai.order {
		for _, c := range callsTo(fn, upd) {
			if k, ok := loadOf(c.Call.Args[len(c.Call.Args)-1]); ok {
				cell = k
			}
		}
	}
	if cell == "" {
		return false
	}
	r.Notes = append(r.Notes, "R17c: actor state lives in field "+cell)
	// functions from which watcher.update is reachable (static calls)
	reachesUpd := map[*ssa.Function]bool{upd: true}
	for changed := true; changed; {
		changed = false
		for _, fn := range ai.order {
			if reachesUpd[fn] {
				continue
			}
			ForEachInstr(fn, func(ins ssa.Instruction) {
				if c, ok := ins.(ssa.CallInstruction); ok {
					if g := c.Common().StaticCallee(); g != nil && reachesUpd[g] && !reachesUpd[fn] {
						reachesUpd[fn] = true
						changed = true
					}
				}
			})
		}
	}
	n := 0
	for _, fn := range ai.order {
		for i, c := range callsTo(fn, upd) {
			n++
			r.Fn(FnName(fn))
			k, ok := loadOf(c.Call.Args[len(c.Call.Args)-1])
			r.Check(ok && k == cell, fmt.Sprintf("notify-current-state@%s~%d", FnName(fn), i+1), "watchers are sent the installed state (a load of "+cell+")", "a watcher is sent a scope that is not the actor's installed state: it can observe a stale or not yet installed database", c.Pos())
		}
	}
	if n == 0 {
		r.Viol("notifies", "no watcher is ever notified on the actor", ai.root.Pos())
	}
	installs := 0
	for _, fn := range ai.order {
		ord := 0
		ForEachInstr(fn, func(ins ssa.Instruction) {
			st, ok := ins.(*ssa.Store)
			if !ok {
				return
			}
			k, ok := scopeField(st.Addr)
			if !ok || k != cell {
				return
			}
			ord++
			key := fmt.Sprintf("state-write@%s~%d", FnName(fn), ord)
			r.Fn(FnName(fn))
			w, isWith := st.Val.(*ssa.Call)
			fromState := false
			if isWith {
				if g := w.Call.StaticCallee(); g == nil || g.Name() != "With" || !strings.HasSuffix(w.Type().String(), "rel.Scope") {
					isWith = false
				} else {
					fromState = DependsOn(w.Call.Args[0], func(v ssa.Value) bool { k2, ok := loadOf(v); return ok && k2 == cell })
				}
			}
			if !isWith || !fromState {
				// initialisation: allowed in the actor root, outside every loop
				if fn == ai.root && !Reaches(st.Block(), st.Block(), false) {
					r.OK(key, "initialisation before the loop", st.Pos())
					return
				}
				r.Viol(key, fmt.Sprintf("%s overwrites the actor's state with something other than <current state>.With(…): updates are not applied on top of one another", FnName(fn)), st.Pos())
				return
			}
			installs++
			// the installed value is an evaluation result of this function, and the store is on its nil-error branch
			var evalCall *ssa.Call
			DependsOn(w.Call.Args[len(w.Call.Args)-1], func(v ssa.Value) bool {
				ex, ok := v.(*ssa.Extract)
				if !ok || ex.Index != 0 {
					return false
				}
				if c, ok := ex.Tuple.(*ssa.Call); ok && c.Parent() == fn {
					res := c.Call.Signature().Results()
					if res.Len() == 2 && isErrorType(res.At(1).Type()) {
						evalCall = c
					}
				}
				return false
			})
			if evalCall == nil {
				r.Viol(key, fmt.Sprintf("%s installs a value that is not the result of an evaluation made in this step", FnName(fn)), st.Pos())
				return
			}
			errV := extractOf(evalCall, 1)
			onNil := false
			for d := st.Block(); d != nil && !onNil; d = d.Idom() {
				id := d.Idom()
				if id == nil {
					break
				}
				if iff, ok := id.Instrs[len(id.Instrs)-1].(*ssa.If); ok && errV != nil {
					if e, nonNil, is := ErrNonNilBranch(iff.Cond); is && e == ssa.Value(errV) {
						other := id.Succs[1-nonNil]
						if other == d || other.Dominates(d) {
							onNil = true
						}
					}
				}
			}
			r.Check(onNil, "failed-update-unchanged@"+FnName(fn), "the state is written only where the evaluation's error is nil", "the actor's state is overwritten on a path where the update's evaluation failed: a failed update changes the database", st.Pos())
			// notifications follow the installation
			m := 0
			ForEachInstr(fn, func(i2 ssa.Instruction) {
				c, ok := i2.(ssa.CallInstruction)
				if !ok {
					return
				}
				g := c.Common().StaticCallee()
				if g == nil || !reachesUpd[g] {
					return
				}
				m++
				r.Check(InstrDominates(st, i2), fmt.Sprintf("notify-after-install@%s~%d", FnName(fn), m), "notification follows installation", "watchers are notified before the new state is installed", i2.Pos())
			})
			if m == 0 {
				r.Viol("notifies@"+FnName(fn), "the update step does not notify the watchers after installing the new state", st.Pos())
			}
		})
	}
	if installs == 0 {
		r.Viol("installs", "no function on the actor installs <state>.With(…, value): updates never take effect", ai.root.Pos())
	}
	return true
}

// R17i: the engine's mailboxes are rendezvous channels.  Observe, cancel, Update, Hangup and Stop each hand one
// message to the actor over their own channel and return when the actor has *taken* it; the order of two calls made
// one after the other (Observe then cancel, Observe then Update) is kept only because neither returns earlier.  A
// buffered mailbox lets the call return while the message is still queued, and select then picks among the ready
// mailboxes at random: a cancel can overtake the registration it cancels (the observer is never removed), an update
// can overtake a registration (the observer misses the state it subscribed at).
func ruleMailboxesUnbuffered(p *Program, r *Report) {
	r.Begin("R17i", "rendezvous mailboxes: every channel stored into a channel-typed field of engine.Engine is made with capacity 0, so that a client call returns only once the actor has taken its message and calls made in sequence are served in sequence", 3)
	defer r.End()
	n := 0
	for _, fn := range p.RepoFns {
		if PkgPathOf(fn) != Mod+"/engine" {
			continue
		}
		ForEachInstr(fn, func(ins ssa.Instruction) {
			st, ok := ins.(*ssa.Store)
			if !ok {
				return
			}
			fa, ok := st.Addr.(*ssa.FieldAddr)
			if !ok || TypeName(Deref(fa.X.Type())) != "engine.Engine" {
				return
			}
			if _, isChan := Deref(fa.Type()).Underlying().(*types.Chan); !isChan {
				return
			}
			sto := structOf(fa.X.Type())
			fname := sto.Field(fa.Field).Name()
			n++
			r.Fn(FnName(fn))
			key := "mailbox@" + fname
			var mk *ssa.MakeChan
			DependsOn(st.Val, func(x ssa.Value) bool {
				if m, ok := x.(*ssa.MakeChan); ok && mk == nil {
					mk = m
				}
				return false
			})
			if mk == nil {
				r.Undecided(key, "the channel stored into Engine."+fname+" is not made here", st.Pos())
				return
			}
			k, isK := mk.Size.(*ssa.Const)
			r.Check(isK && k.Value != nil && k.Int64() == 0, key, "unbuffered", fmt.Sprintf("Engine.%s is a buffered channel: the client call returns while its message is still queued, so a later call on another mailbox (cancel after Observe, Update after Observe) can be served first — the cancelled observer is then registered after its removal and stays forever", fname), mk.Pos())
		})
	}
	if n == 0 {
		r.Undecided("sites", "no channel field of engine.Engine is initialised in package engine", 0)
	}
}

func init() { register("C17", Rule{"R17i", ruleMailboxesUnbuffered}) }

// transformerInstallThenNotify is R17c for an update step extracted into a function U(state, request, …) that
// returns the new state: the loop variable's edge from the update case is U's result; inside U the installed scope is
// <state parameter>.With(…, this request's evaluation result); watchers are notified with that scope after it is
// built; every return after the installation returns it and every other return hands the state parameter back.
func transformerInstallThenNotify(p *Program, r *Report, ai *actorInfo, upd *ssa.Function, globalPhi *ssa.Phi, recv ssa.Value, inCase func(*ssa.BasicBlock) bool) bool {
	var step *ssa.Call
	stateIdx := -1
	for _, b := range ai.root.Blocks {
		if !inCase(b) {
			continue
		}
		for _, ins := range b.Instrs {
			c, ok := ins.(*ssa.Call)
			if !ok {
				continue
			}
			g := c.Call.StaticCallee()
			if g == nil || !InRepo(g) || g.Blocks == nil || !strings.HasSuffix(c.Type().String(), "rel.Scope") {
				continue
			}
			usesReq := false
			si := -1
			for i, a := range c.Call.Args {
				if a == ssa.Value(globalPhi) {
					si = i
				}
				if DependsOn(a, func(v ssa.Value) bool { return v == recv }) {
					usesReq = true
				}
			}
			if usesReq && si >= 0 {
				step, stateIdx = c, si
			}
		}
	}
	if step == nil {
		return false
	}
	U := step.Call.StaticCallee()
	r.Fn(FnName(U))
	state := U.Params[stateIdx]
	// the loop continues with U's result
	for i, e := range globalPhi.Edges {
		pred := globalPhi.Block().Preds[i]
		if inCase(pred) {
			r.Check(e == ssa.Value(step), "carries-installed", "the next iteration sees the state returned by the update step", "after an update the loop continues with a scope other than the one the update step returned", step.Pos())
		}
	}
	var evalCall, withCall *ssa.Call
	ForEachInstr(U, func(ins ssa.Instruction) {
		call, ok := ins.(*ssa.Call)
		if !ok {
			return
		}
		if call.Call.IsInvoke() && call.Call.Method.Name() == "Eval" {
			evalCall = call
		}
		if callee := call.Call.StaticCallee(); callee != nil && InRepo(callee) && evalCall == nil {
			res := callee.Signature.Results()
			if res.Len() == 2 && isErrorType(res.At(1).Type()) && strings.HasSuffix(res.At(0).Type().String(), "rel.Value") {
				evalCall = call
			}
		}
		if callee := call.Call.StaticCallee(); callee != nil && callee.Name() == "With" && strings.HasSuffix(call.Type().String(), "rel.Scope") {
			withCall = call
		}
	})
	if evalCall == nil || withCall == nil {
		return false
	}
	r.Check(DependsOn(withCall, func(v ssa.Value) bool { return v == ssa.Value(evalCall) }) && DependsOn(withCall.Call.Args[0], func(v ssa.Value) bool { return v == ssa.Value(state) }),
		"installs-eval-result", "the installed scope is state.With(…, value of this request)", "the scope installed by the update step is not built from the previous scope and this request's value", withCall.Pos())
	n := 0
	for _, call := range callsTo(U, upd) {
		n++
		arg := call.Call.Args[len(call.Call.Args)-1]
		r.Check(arg == ssa.Value(withCall), fmt.Sprintf("notify-new-state~%d", n), "watchers are sent the newly installed scope", "a watcher is notified with a scope that is not the newly installed one (stale or not yet installed state)", call.Pos())
		r.Check(InstrDominates(withCall, call), fmt.Sprintf("notify-after-install~%d", n), "notification follows installation", "a watcher is notified before the new state is installed", call.Pos())
	}
	if n == 0 {
		r.Viol("notifies", "the update step does not notify the watchers", U.Pos())
	}
	ForEachInstr(U, func(ins ssa.Instruction) {
		ret, ok := ins.(*ssa.Return)
		if !ok || len(ret.Results) != 1 || ret.Block() == U.Recover {
			return
		}
		rv := RetVal(ret, 0)
		if withCall.Block() == ret.Block() || withCall.Block().Dominates(ret.Block()) {
			r.Check(rv == ssa.Value(withCall), "returns-installed", "the step returns the installed scope", "after a successful update the step returns a scope other than the one shown to the watchers", ret.Pos())
		} else {
			r.Check(rv == ssa.Value(state), "failed-update-unchanged", "a failed update hands the state back unchanged", "the failing path of the update step changes the database state", ret.Pos())
		}
	})
	return true
}

// R17j: every request taken from an update stream is answered.  The gRPC front end reads requests in a loop; the
// acknowledgement carries no id, so a client can match answers to requests only by counting.  On every path from a
// successful Recv back to the next Recv the handler must have sent an acknowledgement; any other way out of the
// iteration is a return (the stream ends with that error).  A `continue` after a failed engine.Update leaves a
// request unanswered: the client waits forever or miscounts.
func ruleStreamRequestsAnswered(p *Program, r *Report) {
	r.Begin("R17j", "every streamed request is answered: in each module function that receives requests from a gRPC server stream in a loop (invoke Recv on a …Server stream), every path from the Recv back to the Recv passes through a Send on that stream — the only other ways out of an iteration are returns", 1)
	defer r.End()
	n := 0
	for _, fn := range p.RepoFns {
		var recv *ssa.Call
		ForEachInstr(fn, func(ins ssa.Instruction) {
			if c, ok := ins.(*ssa.Call); ok && c.Call.IsInvoke() && c.Call.Method.Name() == "Recv" && strings.HasSuffix(c.Call.Value.Type().String(), "Server") {
				recv = c
			}
		})
		if recv == nil || !Reaches(recv.Block(), recv.Block(), false) {
			continue
		}
		n++
		r.Fn(FnName(fn))
		sends := map[*ssa.BasicBlock]bool{}
		ForEachInstr(fn, func(ins ssa.Instruction) {
			if c, ok := ins.(*ssa.Call); ok && c.Call.IsInvoke() && c.Call.Method.Name() == "Send" && c.Call.Value == recv.Call.Value {
				sends[c.Block()] = true
			}
		})
		// package-local helpers that are handed the stream and send on it: a call is an answering step unless the
		// helper can return without having sent; those returns' constant results decide where the caller goes next
		type stepT struct {
			call   *ssa.Call
			tuples [][]streamKonst
		}
		steps := map[*ssa.BasicBlock]stepT{}
		ForEachInstr(fn, func(ins ssa.Instruction) {
			c, ok := ins.(*ssa.Call)
			if !ok {
				return
			}
			h := c.Call.StaticCallee()
			if h == nil || h.Pkg != fn.Pkg || h.Blocks == nil {
				return
			}
			for i, a := range c.Call.Args {
				if a != recv.Call.Value || i >= len(h.Params) {
					continue
				}
				hs := map[*ssa.BasicBlock]bool{}
				ForEachInstr(h, func(i2 ssa.Instruction) {
					if c2, ok := i2.(*ssa.Call); ok && c2.Call.IsInvoke() && c2.Call.Method.Name() == "Send" && c2.Call.Value == ssa.Value(h.Params[i]) {
						hs[c2.Block()] = true
					}
				})
				if len(hs) == 0 {
					continue
				}
				steps[c.Block()] = stepT{c, streamUnansweredReturns(h, []*ssa.BasicBlock{h.Blocks[0]}, hs)}
			}
		})
		// a cycle through the Recv block that avoids every Send block?
		type item struct {
			b    *ssa.BasicBlock
			call *ssa.Call
			t    []streamKonst
		}
		seen := map[*ssa.BasicBlock]bool{}
		var work []item
		succ := func(it item) {
			if iff, ok := it.b.Instrs[len(it.b.Instrs)-1].(*ssa.If); ok && it.call != nil {
				if bv, known := streamEvalCond(iff.Cond, it.call, it.t, 0); known {
					k := 1
					if bv {
						k = 0
					}
					work = append(work, item{it.b.Succs[k], it.call, it.t})
					return
				}
			}
			for _, sb := range it.b.Succs {
				work = append(work, item{sb, it.call, it.t})
			}
		}
		succ(item{recv.Block(), nil, nil})
		unanswered := false
		for len(work) > 0 && !unanswered {
			it := work[len(work)-1]
			work = work[:len(work)-1]
			if it.b == recv.Block() {
				unanswered = true
				break
			}
			if sends[it.b] {
				continue
			}
			if st, isStep := steps[it.b]; isStep && it.call == nil {
				for _, t := range st.tuples {
					succ(item{it.b, st.call, t})
				}
				continue // otherwise the helper has sent
			}
			if seen[it.b] && it.call == nil {
				continue
			}
			if it.call == nil {
				seen[it.b] = true
			}
			succ(it)
		}
		r.Check(!unanswered, "answers@"+FnName(fn), "each iteration sends an acknowledgement or returns", fmt.Sprintf("%s can go from one Recv to the next without a Send on the stream: that request gets neither an acknowledgement nor a terminal error, so the client (which can only count acknowledgements) waits forever or attributes later acknowledgements to the wrong request", FnName(fn)), recv.Pos())
	}
	// the per-request step extracted into a helper that is handed the stream: `more, err := s.serveOne(ctx, stream, …)`
	// in a loop.  The helper's returns that follow its Recv without a Send are "unanswered"; with their constant
	// results (false / nil) substituted, the caller must not be able to come back to the call.
	for _, fn := range p.RepoFns {
		ForEachInstr(fn, func(ins ssa.Instruction) {
			call, ok := ins.(*ssa.Call)
			if !ok || !Reaches(call.Block(), call.Block(), false) {
				return
			}
			h := call.Call.StaticCallee()
			if h == nil || h.Pkg != fn.Pkg || h.Blocks == nil {
				return
			}
			var recv *ssa.Call
			ForEachInstr(h, func(i2 ssa.Instruction) {
				if c, ok := i2.(*ssa.Call); ok && c.Call.IsInvoke() && c.Call.Method.Name() == "Recv" && strings.HasSuffix(c.Call.Value.Type().String(), "Server") {
					if _, isParam := c.Call.Value.(*ssa.Parameter); isParam {
						recv = c
					}
				}
			})
			if recv == nil || Reaches(recv.Block(), recv.Block(), false) {
				return // no Recv on a stream parameter, or the helper has its own loop (handled above)
			}
			n++
			r.Fn(FnName(fn))
			r.Fn(FnName(h))
			sends := map[*ssa.BasicBlock]bool{}
			ForEachInstr(h, func(i2 ssa.Instruction) {
				if c, ok := i2.(*ssa.Call); ok && c.Call.IsInvoke() && c.Call.Method.Name() == "Send" && c.Call.Value == recv.Call.Value {
					sends[c.Block()] = true
				}
			})
			// unanswered returns of the helper
			type konst struct {
				known bool
				isNil bool
				b     bool
			}
			var tuples [][]konst
			seen := map[*ssa.BasicBlock]bool{}
			work := []*ssa.BasicBlock{recv.Block()}
			for len(work) > 0 {
				b := work[len(work)-1]
				work = work[:len(work)-1]
				if seen[b] || (sends[b] && b != recv.Block()) {
					continue
				}
				seen[b] = true
				if ret, ok := b.Instrs[len(b.Instrs)-1].(*ssa.Return); ok {
					var t []konst
					for i := range ret.Results {
						v := RetVal(ret, i)
						k := konst{}
						if bv, isB := BoolConst(v); isB {
							k = konst{known: true, b: bv}
						} else if IsNilConst(v) {
							k = konst{known: true, isNil: true}
						}
						t = append(t, k)
					}
					tuples = append(tuples, t)
				}
				work = append(work, b.Succs...)
			}
			unanswered := false
			for _, t := range tuples {
				// value of a condition in the caller under this result tuple
				var eval func(v ssa.Value, depth int) (bool, bool)
				resOf := func(v ssa.Value) (konst, bool) {
					if ex, ok := v.(*ssa.Extract); ok && ex.Tuple == ssa.Value(call) && ex.Index < len(t) {
						return t[ex.Index], true
					}
					if v == ssa.Value(call) && len(t) == 1 {
						return t[0], true
					}
					return konst{}, false
				}
				eval = func(v ssa.Value, depth int) (bool, bool) {
					if depth > 4 {
						return false, false
					}
					if k, ok := resOf(v); ok && k.known && !k.isNil {
						return k.b, true
					}
					switch x := v.(type) {
					case *ssa.UnOp:
						if x.Op == token.NOT {
							bv, ok := eval(x.X, depth+1)
							return !bv, ok
						}
					case *ssa.BinOp:
						if x.Op == token.EQL || x.Op == token.NEQ {
							for _, pr := range [][2]ssa.Value{{x.X, x.Y}, {x.Y, x.X}} {
								if k, ok := resOf(pr[0]); ok && k.known && k.isNil && IsNilConst(pr[1]) {
									return x.Op == token.EQL, true
								}
							}
						}
					}
					return false, false
				}
				seenC := map[*ssa.BasicBlock]bool{}
				var workC []*ssa.BasicBlock
				push := func(b *ssa.BasicBlock) {
					if iff, ok := b.Instrs[len(b.Instrs)-1].(*ssa.If); ok {
						if bv, known := eval(iff.Cond, 0); known {
							if bv {
								workC = append(workC, b.Succs[0])
							} else {
								workC = append(workC, b.Succs[1])
							}
							return
						}
					}
					workC = append(workC, b.Succs...)
				}
				push(call.Block())
				for len(workC) > 0 {
					b := workC[len(workC)-1]
					workC = workC[:len(workC)-1]
					if b == call.Block() {
						unanswered = true
						break
					}
					if seenC[b] {
						continue
					}
					seenC[b] = true
					push(b)
				}
			}
			r.Check(!unanswered, "answers@"+FnName(fn), "each iteration sends an acknowledgement or leaves the loop (step in "+FnName(h)+")", fmt.Sprintf("%s can start the next %s after a step that received a request and returned without a Send on the stream: that request gets neither an acknowledgement nor a terminal error", FnName(fn), FnName(h)), call.Pos())
		})
	}
	if n == 0 {
		r.Undecided("sites", "no stream-receiving loop found (the gRPC Update handler is expected)", 0)
	}
}

func init() { register("C17", Rule{"R17j", ruleStreamRequestsAnswered}) }

// streamKonst: what is known about one result of a helper's return (a boolean constant, the nil constant, or nothing).
type streamKonst struct {
	known  bool
	isNil  bool
	nonNil bool // an error value returned under a test that established it non-nil
	b      bool
}

// knownNonNilAt: v was tested `!= nil` on a branch that dominates block b (or is a freshly made error).
func knownNonNilAt(v ssa.Value, b *ssa.BasicBlock) bool {
	if c := CallOf(v); c != nil {
		nm := CalleeName(&c.Call)
		if strings.HasSuffix(nm, "fmt.Errorf") || strings.HasPrefix(nm, "errors.") || strings.Contains(nm, "go-errors/errors.") {
			return true
		}
	}
	for _, d := range b.Parent().Blocks {
		iff, ok := d.Instrs[len(d.Instrs)-1].(*ssa.If)
		if !ok {
			continue
		}
		bo, ok := iff.Cond.(*ssa.BinOp)
		if !ok || (bo.Op != token.NEQ && bo.Op != token.EQL) {
			continue
		}
		var other ssa.Value
		switch {
		case bo.X == v:
			other = bo.Y
		case bo.Y == v:
			other = bo.X
		default:
			continue
		}
		if !IsNilConst(other) {
			continue
		}
		k := 0
		if bo.Op == token.EQL {
			k = 1
		}
		if t := d.Succs[k]; (t == b || t.Dominates(b)) && len(t.Preds) == 1 {
			return true
		}
	}
	return false
}

// streamUnansweredReturns: the result tuples of the returns of h reachable from start without passing a block that sends.
func streamUnansweredReturns(h *ssa.Function, start []*ssa.BasicBlock, sends map[*ssa.BasicBlock]bool) [][]streamKonst {
	var tuples [][]streamKonst
	seen := map[*ssa.BasicBlock]bool{}
	work := append([]*ssa.BasicBlock{}, start...)
	for len(work) > 0 {
		b := work[len(work)-1]
		work = work[:len(work)-1]
		if seen[b] || sends[b] {
			// a block that sends: the Send may itself fail, but then the stream is broken and its error is returned
			continue
		}
		seen[b] = true
		if ret, ok := b.Instrs[len(b.Instrs)-1].(*ssa.Return); ok {
			var t []streamKonst
			for i := range ret.Results {
				v := RetVal(ret, i)
				k := streamKonst{}
				if bv, isB := BoolConst(v); isB {
					k = streamKonst{known: true, b: bv}
				} else if IsNilConst(v) {
					k = streamKonst{known: true, isNil: true}
				} else if isErrorType(v.Type()) && knownNonNilAt(v, b) {
					k = streamKonst{known: true, nonNil: true}
				}
				t = append(t, k)
			}
			tuples = append(tuples, t)
		}
		work = append(work, b.Succs...)
	}
	return tuples
}

// streamEvalCond: the value of a branch condition of the caller when the results of call are the tuple t.
func streamEvalCond(v ssa.Value, call *ssa.Call, t []streamKonst, depth int) (bool, bool) {
	if depth > 4 {
		return false, false
	}
	resOf := func(x ssa.Value) (streamKonst, bool) {
		if ex, ok := x.(*ssa.Extract); ok && ex.Tuple == ssa.Value(call) && ex.Index < len(t) {
			return t[ex.Index], true
		}
		if x == ssa.Value(call) && len(t) == 1 {
			return t[0], true
		}
		return streamKonst{}, false
	}
	if k, ok := resOf(v); ok && k.known && !k.isNil && !k.nonNil {
		return k.b, true
	}
	switch x := v.(type) {
	case *ssa.UnOp:
		if x.Op == token.NOT {
			bv, ok := streamEvalCond(x.X, call, t, depth+1)
			return !bv, ok
		}
	case *ssa.BinOp:
		if x.Op == token.EQL || x.Op == token.NEQ {
			for _, pr := range [][2]ssa.Value{{x.X, x.Y}, {x.Y, x.X}} {
				if k, ok := resOf(pr[0]); ok && k.known && IsNilConst(pr[1]) {
					if k.isNil {
						return x.Op == token.EQL, true
					}
					if k.nonNil {
						return x.Op == token.NEQ, true
					}
				}
			}
		}
	}
	return false, false
}

// R17k: no lock shared with an observer callback is held across a rendezvous with the engine.  Observer callbacks
// (the function values given to Engine.Observe) run on the engine goroutine, in the middle of a notification round.
// Every client call into the engine (Update, Observe, a cancel function, Stop, Hangup) is a rendezvous on an
// unbuffered channel that only that goroutine serves.  A front end that holds a mutex while it makes such a call,
// when a callback takes the same mutex, deadlocks as soon as the call meets a notification round: the caller waits
// for the engine, the engine waits in the callback for the mutex — and every later request of every client hangs.
func ruleNoLockAcrossRendezvous(p *Program, r *Report) {
	r.Begin("R17k", "no lock held across a rendezvous with the engine if an observer callback takes it: for every mutex acquired inside a function value passed to Engine.Observe (or a closure it calls), no call of an Engine method that communicates with the engine goroutine, and no call of a cancel function returned by Observe, is made while that mutex is held", 0)
	defer r.End()
	observe := p.Method("engine", "Engine", "Observe")
	if observe == nil {
		r.Undecided("anchor", "(*engine.Engine).Observe not found", 0)
		return
	}
	computeEntryLocks(p)
	cc := &concClosure{p: p, concParams: map[*ssa.Function]map[int]bool{}, concFuncs: map[*ssa.Function]string{}}
	// rendezvous methods: Engine methods that send on / receive from a channel
	rendezvous := map[*ssa.Function]bool{}
	for _, fn := range p.RepoFns {
		if fn.Signature.Recv() == nil || PkgPathOf(fn) != Mod+"/engine" {
			continue
		}
		if nt, ok := Deref(fn.Signature.Recv().Type()).(*types.Named); !ok || nt.Obj().Name() != "Engine" {
			continue
		}
		comm := false
		var body []*ssa.Function
		allFuncs(fn, &body)
		for _, g := range body {
			ForEachInstr(g, func(ins ssa.Instruction) {
				switch x := ins.(type) {
				case *ssa.Send, *ssa.Select:
					comm = true
				case *ssa.UnOp:
					if x.Op == token.ARROW {
						comm = true
					}
				}
			})
		}
		if comm {
			rendezvous[fn] = true
		}
	}
	// locks taken by observer callbacks
	cbLocks := map[string]string{}
	nObs := 0
	for _, fn := range p.RepoFns {
		ForEachInstr(fn, func(ins ssa.Instruction) {
			c, ok := ins.(ssa.CallInstruction)
			if !ok || c.Common().StaticCallee() != observe {
				return
			}
			nObs++
			for _, a := range c.Common().Args {
				if _, isSig := a.Type().Underlying().(*types.Signature); !isSig {
					continue
				}
				fs, _ := cc.resolveFuncValue(a, 0, map[ssa.Value]bool{})
				for _, cb := range fs {
					var body []*ssa.Function
					allFuncs(cb, &body)
					for _, g := range body {
						ForEachInstr(g, func(i2 ssa.Instruction) {
							if c2, ok := i2.(ssa.CallInstruction); ok {
								if op, key, is := lockOp(c2.Common()); is && (op == "lock" || op == "rlock") && key != "?" {
									cbLocks[key] = FnName(cb)
								}
							}
						})
					}
				}
			}
		})
	}
	isCancelCall := func(c ssa.CallInstruction) bool {
		com := c.Common()
		if com.StaticCallee() != nil || com.IsInvoke() {
			return false
		}
		var fromObserveRec func(v ssa.Value, seen map[ssa.Value]bool) bool
		fromObserveRec = func(v ssa.Value, seen map[ssa.Value]bool) bool {
			if v == nil || seen[v] {
				return false
			}
			seen[v] = true
			if ph, ok := v.(*ssa.Phi); ok { // a local variable that is reassigned: any of its definitions
				for _, e := range ph.Edges {
					if fromObserveRec(e, seen) {
						return true
					}
				}
				return false
			}
			cl := CallOf(v)
			return cl != nil && cl.Call.StaticCallee() == observe
		}
		fromObserve := func(v ssa.Value) bool { return fromObserveRec(v, map[ssa.Value]bool{}) }
		if fromObserve(com.Value) {
			return true
		}
		var cell ssa.Value
		if ld, ok := com.Value.(*ssa.UnOp); ok && ld.Op == token.MUL {
			cell = ld.X
			if fv, ok := cell.(*ssa.FreeVar); ok {
				if b := bindingOf(fv); b != nil {
					cell = b
				}
			}
		}
		if cell == nil || cell.Referrers() == nil {
			return false
		}
		for _, ref := range *cell.Referrers() {
			if st, ok := ref.(*ssa.Store); ok && st.Addr == cell && fromObserve(st.Val) {
				return true
			}
		}
		return false
	}
	n := 0
	ord := map[string]int{}
	for _, fn := range p.RepoFns {
		if fn.Blocks == nil || PkgPathOf(fn) == Mod+"/engine" {
			continue
		}
		var held map[ssa.Instruction]map[string]bool
		ForEachInstr(fn, func(ins ssa.Instruction) {
			c, ok := ins.(ssa.CallInstruction)
			if !ok {
				return
			}
			what := ""
			if g := c.Common().StaticCallee(); g != nil && rendezvous[g] {
				what = FnName(g)
			} else if isCancelCall(c) {
				what = "the cancel function returned by Observe"
			}
			if what == "" {
				return
			}
			n++
			r.Fn(FnName(fn))
			if held == nil {
				held = heldLocks(fn)
			}
			key := "rendezvous@" + FnName(fn)
			ord[key]++
			if ord[key] > 1 {
				key = fmt.Sprintf("%s~%d", key, ord[key])
			}
			for l := range held[ins] {
				if cb, shared := cbLocks[l]; shared {
					r.Viol(key, fmt.Sprintf("%s calls %s while holding %s, which the observer callback %s also takes: the call waits for the engine goroutine, and the engine goroutine — in the middle of a notification round — waits in the callback for the lock; neither moves again and every later request hangs", FnName(fn), what, l, cb), p.InstrPos(ins))
					return
				}
			}
			r.OK(key, "no callback lock held at "+what, p.InstrPos(ins))
		})
	}
	if nObs == 0 {
		r.Undecided("sites", "no call of Engine.Observe found in the module", 0)
	}
}

func init() { register("C17", Rule{"R17k", ruleNoLockAcrossRendezvous}) }
