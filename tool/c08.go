package main

import (
	"fmt"
	"go/ast"
	"go/types"
	"os"
	"path/filepath"
	"regexp"
	"sort"
	"strings"

	"golang.org/x/tools/go/ssa"
)

func init() {
	register("C08", Rule{"R08b", ruleShortCircuitLazy}, Rule{"R08e", ruleConstructorsKeepOperands}, Rule{"R08d", ruleLetIsArrow})
}

func ruleShortCircuitLazy(p *Program, r *Report) {
	r.Begin("R08b", "short-circuit laziness: in AndExpr.Eval, OrExpr.Eval and IfElseExpr.Eval, every evaluation of an operand other than the first is control-dependent on a branch whose condition depends on the *value* of the first operand's evaluation (not merely on its error): the operand that is not selected is never evaluated", 3)
	defer r.End()
	for _, tn := range []string{"AndExpr", "OrExpr", "IfElseExpr"} {
		fn := p.Method("rel", tn, "Eval")
		if fn == nil {
			r.Undecided("anchor@"+tn, "rel."+tn+".Eval not found", 0)
			continue
		}
		r.Fn(FnName(fn))
		var evals []*ssa.Call
		recvOf := map[*ssa.Call]ssa.Value{} // the operand an evaluation evaluates
		ForEachInstr(fn, func(ins ssa.Instruction) {
			c, ok := ins.(*ssa.Call)
			if !ok {
				return
			}
			if c.Call.IsInvoke() && c.Call.Method.Name() == "Eval" {
				evals = append(evals, c)
				recvOf[c] = c.Call.Value
				return
			}
			// a package-local helper that evaluates the expression it is handed (evalOperand(ctx, parent, operand, scope))
			if g := c.Call.StaticCallee(); g != nil && g.Pkg == fn.Pkg && g.Blocks != nil && g.Name() != "Eval" {
				for i, q := range g.Params {
					evaluated := false
					ForEachInstr(g, func(i2 ssa.Instruction) {
						if c2, ok := i2.(*ssa.Call); ok && c2.Call.IsInvoke() && c2.Call.Method.Name() == "Eval" && c2.Call.Value == ssa.Value(q) {
							evaluated = true
						}
					})
					if evaluated && i < len(c.Call.Args) {
						evals = append(evals, c)
						recvOf[c] = c.Call.Args[i]
						break
					}
				}
			}
		})
		if len(evals) < 2 {
			r.Undecided("evals@"+tn, fmt.Sprintf("%d operand evaluations found", len(evals)), fn.Pos())
			continue
		}
		// the first: the one that dominates the others
		first := evals[0]
		for _, e := range evals {
			if InstrDominates(e, first) {
				first = e
			}
		}
		v0 := extractOf(first, 0)
		pd := NewPostDom(fn)
		n := 0
		for _, e := range evals {
			if e == first {
				continue
			}
			n++
			lazy := false
			if v0 != nil {
				for _, d := range pd.TransitiveControlDeps(e.Block()) {
					cond := IfCond(d.Br)
					if cond != nil && DependsOn(cond, func(x ssa.Value) bool { return x == ssa.Value(v0) }) {
						lazy = true
					}
				}
			}
			// or the evaluated operand itself is chosen by the first operand's value: the receiver is a phi whose
			// incoming edges are the two sides of a branch on that value (`branch := b; if v { branch = a }; branch.Eval`)
			if ph, isPhi := recvOf[e].(*ssa.Phi); isPhi && v0 != nil && !lazy {
				if id := ph.Block().Idom(); id != nil {
					if iff, isIf := id.Instrs[len(id.Instrs)-1].(*ssa.If); isIf && DependsOn(iff.Cond, func(x ssa.Value) bool { return x == ssa.Value(v0) }) {
						sel := true
						for _, pr := range ph.Block().Preds {
							if pr != id && !(id.Succs[0].Dominates(pr) || id.Succs[1].Dominates(pr)) {
								sel = false
							}
						}
						distinct := map[ssa.Value]bool{}
						for _, ed := range ph.Edges {
							distinct[ed] = true
						}
						if sel && len(distinct) == len(ph.Edges) {
							lazy = true
						}
					}
				}
			}
			r.Check(lazy && InstrDominates(first, e), fmt.Sprintf("lazy@%s~%d", tn, n), "evaluated only when selected by the first operand's value", fmt.Sprintf("%s.Eval evaluates an operand that the value of the first operand did not select: `false && f()` / `cond ? a : b` would evaluate (and fail in) the branch it must skip", tn), e.Pos())
		}
	}
}

// tableFuncs resolves the function values stored in a syntax table (binops, unops) to SSA functions.
func tableFuncs(p *Program, table string) map[string]*ssa.Function {
	out := map[string]*ssa.Function{}
	m, _, _, err := p.MapLiteral("syntax", table)
	if err != nil {
		return out
	}
	pk := p.PkgSyntax("syntax")
	for k, e := range m {
		var id *ast.Ident
		switch x := e.(type) {
		case *ast.SelectorExpr:
			id = x.Sel
		case *ast.Ident:
			id = x
		}
		if id == nil {
			continue
		}
		if fo, ok := pk.TypesInfo.Uses[id].(*types.Func); ok {
			if f := p.Prog.FuncValue(fo); f != nil {
				out[k] = f
			}
		}
	}
	return out
}

func ruleConstructorsKeepOperands(p *Program, r *Report) {
	r.Begin("R08e", "expression constructors keep their operands: every constructor stored in the binops / unops tables returns, on every path, an expression that depends on each of its operand parameters — unless that path is taken only when exprIsValue(operand) established that the operand is a literal (folding a literal away cannot skip an evaluation or hide its failure)", 35)
	defer r.End()
	exprI := p.NamedType("rel", "Expr")
	eiv := p.Func("rel", "exprIsValue")
	if exprI == nil {
		r.Undecided("anchor", "rel.Expr not found", 0)
		return
	}
	it := exprI.Underlying().(*types.Interface)
	seen := map[*ssa.Function]bool{}
	for _, table := range []string{"binops", "unops"} {
		fns := tableFuncs(p, table)
		for _, op := range SortedKeys(fns) {
			fn := fns[op]
			if seen[fn] || fn.Blocks == nil || !InRepo(fn) {
				continue
			}
			seen[fn] = true
			r.Fn(FnName(fn))
			var operands []*ssa.Parameter
			for _, prm := range fn.Params {
				if types.IsInterface(prm.Type()) && types.Implements(prm.Type(), it) {
					operands = append(operands, prm)
				}
			}
			ok := true
			why := ""
			ForEachInstr(fn, func(ins ssa.Instruction) {
				ret, isRet := ins.(*ssa.Return)
				if !isRet || len(ret.Results) == 0 {
					return
				}
				rv := RetVal(ret, 0)
				for _, prm := range operands {
					prm := prm
					if DependsOn(rv, func(x ssa.Value) bool { return x == ssa.Value(prm) }) {
						continue
					}
					// allowed when this return executes only if exprIsValue(prm) reported a literal
					literal := false
					if eiv != nil {
						for _, c := range callsTo(fn, eiv) {
							if len(c.Call.Args) > 0 && c.Call.Args[0] == ssa.Value(prm) {
								if okEx := extractOf(c, 1); okEx != nil && !reachableWhen(fn, okEx, false)[ins.Block()] {
									literal = true
								}
							}
						}
					}
					if !literal {
						ok = false
						why = fmt.Sprintf("a return of %s yields an expression that no longer contains operand %s although that operand is not known to be a literal: the operand is never evaluated, so `%s` can succeed (or change value) where the documented equivalent form fails", FnName(fn), prm.Name(), op)
					}
				}
			})
			r.Check(ok, "keeps-operands@"+FnName(fn), "every returned expression contains every operand", why, fn.Pos())
		}
	}
}

func ruleLetIsArrow(p *Program, r *Report) {
	r.Begin("R08d", "let ≡ arrow: compileLet (with a pattern) and the `binding` branch of compileArrow build their result with the same constructor chain — binops[\"->\"] applied to the bound expression and rel.NewFunction(pattern, body)", 2)
	defer r.End()
	pk := p.PkgSyntax("syntax")
	if pk == nil {
		r.Undecided("anchor", "package syntax not loaded", 0)
		return
	}
	check := func(fnName string) {
		found, arrow, newFn := false, false, false
		FuncDecls(pk, func(fd *ast.FuncDecl) {
			if fd.Name.Name != fnName {
				return
			}
			found = true
			ast.Inspect(fd.Body, func(n ast.Node) bool {
				switch x := n.(type) {
				case *ast.IndexExpr:
					if id, ok := x.X.(*ast.Ident); ok && id.Name == "binops" {
						if k, ok := ConstString(pk.TypesInfo, x.Index); ok && k == "->" {
							arrow = true
						}
					}
				case *ast.CallExpr:
					if sel, ok := x.Fun.(*ast.SelectorExpr); ok && sel.Sel.Name == "NewFunction" {
						newFn = true
					}
				}
				return true
			})
		})
		if !found {
			r.Undecided("anchor@"+fnName, "function not found", 0)
			return
		}
		r.Check(arrow && newFn, "chain@"+fnName, "built as binops[\"->\"](expr, NewFunction(pattern, body))", fmt.Sprintf("%s no longer builds its result as binops[\"->\"](e1, rel.NewFunction(p, e2)) (arrow=%v function=%v): `let p = e1; e2` and `e1 -> \\p e2` are compiled differently", fnName, arrow, newFn), 0)
	}
	check("compileLet")
	check("compileArrow")
	_ = strings.TrimSpace
}

// R08c: folded and unfolded literals are built alike.  A literal whose cells are all constants is folded at
// compile time by its New…Expr constructor; the same literal with one bound name in it is built at run time by the
// expression's Eval.  Replacing a let-bound name by its value moves a program from one path to the other, so both
// must hand the value constructor the same options: where the fold path passes one of its parameters (allowDupKeys)
// and records it in the expression, Eval must pass that recorded field; where it passes a constant, Eval must pass
// the same constant.
func ruleFoldEvalAgreement(p *Program, r *Report) {
	r.Begin("R08c", "fold ⇔ eval agreement: for every New…Expr constructor of package rel that folds an all-literal expression into a value (NewLiteralExpr of a value-constructor call) and otherwise returns an expression struct, the struct's Eval calls the same value constructor with the same scalar options — the constructor's parameter as recorded in the struct, or the same constant — so that a literal means the same whether or not it was folded", 1)
	defer r.End()
	relPkg := p.Pkg("rel")
	lit := p.Func("rel", "NewLiteralExpr")
	if relPkg == nil || lit == nil {
		r.Undecided("anchor", "rel.NewLiteralExpr not found", 0)
		return
	}
	isScalar := func(t types.Type) bool {
		b, ok := t.Underlying().(*types.Basic)
		return ok && b.Info()&(types.IsBoolean|types.IsInteger|types.IsString) != 0
	}
	n := 0
	for _, fn := range p.RepoFns {
		if fn.Pkg != relPkg || fn.Parent() != nil {
			continue
		}
		// fold path: NewLiteralExpr(…, v) with v from a value-constructor call of package rel
		var foldCalls []*ssa.Call
		for _, lc := range callsTo(fn, lit) {
			DependsOn(lc.Call.Args[len(lc.Call.Args)-1], func(x ssa.Value) bool {
				c, ok := x.(*ssa.Call)
				if !ok {
					return false
				}
				g := c.Call.StaticCallee()
				if g != nil && g.Pkg == relPkg && g != lit && (strings.HasPrefix(g.Name(), "New") || strings.HasPrefix(g.Name(), "MustNew")) {
					foldCalls = append(foldCalls, c)
				}
				return false
			})
		}
		if len(foldCalls) == 0 {
			continue
		}
		// the expression struct it otherwise returns, and which parameter went into which field
		fieldOfParam := map[*ssa.Parameter]string{}
		var exprT types.Type
		ForEachInstr(fn, func(ins ssa.Instruction) {
			st, ok := ins.(*ssa.Store)
			if !ok {
				return
			}
			fa, ok := st.Addr.(*ssa.FieldAddr)
			if !ok {
				return
			}
			sto := structOf(fa.X.Type())
			if sto == nil || !strings.HasSuffix(TypeName(Deref(fa.X.Type())), "Expr") {
				return
			}
			exprT = Deref(fa.X.Type())
			if prm, ok := st.Val.(*ssa.Parameter); ok {
				fieldOfParam[prm] = sto.Field(fa.Field).Name()
			}
		})
		if exprT == nil {
			continue
		}
		eval := p.MethodOf(exprT, "Eval")
		if eval == nil {
			continue
		}
		for _, fc := range foldCalls {
			ctor := fc.Call.StaticCallee()
			evalCalls := callsTo(eval, ctor)
			for _, cl := range Closures(eval) {
				evalCalls = append(evalCalls, callsTo(cl, ctor)...)
			}
			if len(evalCalls) == 0 {
				r.Info(fmt.Sprintf("ctor@%s#%s", FnName(fn), ctor.Name()), fmt.Sprintf("%s folds with %s; %s builds its value another way: options not compared", FnName(fn), ctor.Name(), FnName(eval)), fc.Pos())
				continue
			}
			r.Fn(FnName(fn))
			r.Fn(FnName(eval))
			for i := 0; i < ctor.Signature.Params().Len(); i++ {
				if !isScalar(ctor.Signature.Params().At(i).Type()) || (ctor.Signature.Variadic() && i == ctor.Signature.Params().Len()-1) {
					continue
				}
				off := 0
				if ctor.Signature.Recv() != nil {
					off = 1
				}
				fa := fc.Call.Args[i+off]
				for j, ec := range evalCalls {
					n++
					ea := ec.Call.Args[i+off]
					key := fmt.Sprintf("option@%s#%s.%s~%d", TypeName(exprT), ctor.Name(), ctor.Signature.Params().At(i).Name(), j+1)
					ok := false
					want := ""
					switch a := fa.(type) {
					case *ssa.Const:
						want = "the constant " + a.String()
						if k, isK := ea.(*ssa.Const); isK && k.Value != nil && a.Value != nil && k.Value.ExactString() == a.Value.ExactString() {
							ok = true
						}
					case *ssa.Parameter:
						f := fieldOfParam[a]
						want = "the recorded field " + f
						if f != "" {
							ok = DependsOn(ea, func(x ssa.Value) bool {
								switch y := x.(type) {
								case *ssa.Field:
									if st := structOf(y.X.Type()); st != nil {
										return st.Field(y.Field).Name() == f
									}
								case *ssa.FieldAddr:
									if st := structOf(y.X.Type()); st != nil {
										return st.Field(y.Field).Name() == f
									}
								}
								return false
							})
							if _, isConst := ea.(*ssa.Const); isConst {
								ok = false
							}
						}
					default:
						continue
					}
					r.Check(ok, key, "Eval passes "+want, fmt.Sprintf("%s folds an all-literal expression with %s(%s = %s) but %s builds the same expression at run time with a different value for that option: the literal changes meaning (or starts failing) as soon as one of its cells is a bound name instead of a constant", FnName(fn), ctor.Name(), ctor.Signature.Params().At(i).Name(), want, FnName(eval)), ec.Pos())
				}
			}
		}
	}
	if n == 0 {
		r.Undecided("sites", "no folding constructor with a scalar option found (NewDictExpr / allowDupKeys confirmed by hand)", 0)
	}
}

func init() { register("C08", Rule{"R08c", ruleFoldEvalAgreement}) }

// R08g: the compiled grammar is the documented grammar.  syntax/arrai.wbnf is the grammar the documentation and
// the precedence table refer to; the parser is compiled from a string literal in parser.go.  The two texts must be
// the same modulo whitespace — an operator moved to another precedence level in one of them silently changes how
// every unparenthesised program groups.
func ruleGrammarMatchesDocumentedGrammar(p *Program, r *Report) {
	r.Begin("R08g", "compiled grammar = documented grammar: the wbnf text the parser is compiled from (the string literal in syntax/parser.go) and syntax/arrai.wbnf are identical after whitespace normalisation, rule by rule — so the documented precedence and associativity are the ones the parser implements", 20)
	defer r.End()
	grammar, gpos := grammarText(p, r)
	if grammar == "" {
		return
	}
	docB, err := os.ReadFile(filepath.Join(p.Dir, "syntax", "arrai.wbnf"))
	if err != nil {
		r.Undecided("documented-grammar", "syntax/arrai.wbnf cannot be read: "+err.Error(), gpos)
		return
	}
	ws := regexp.MustCompile(`\s+`)
	norm := func(t string) string { return strings.TrimSpace(ws.ReplaceAllString(t, " ")) }
	// rules: "name -> body;" — split on the rule heads at line starts
	head := regexp.MustCompile(`(?m)^\s*([.A-Za-z_][A-Za-z0-9_]*)\s*->`)
	split := func(t string) map[string]string {
		out := map[string]string{}
		idx := head.FindAllStringSubmatchIndex(t, -1)
		for i, m := range idx {
			end := len(t)
			if i+1 < len(idx) {
				end = idx[i+1][0]
			}
			name := t[m[2]:m[3]]
			out[name] = norm(t[m[1]:end])
		}
		return out
	}
	a, b := split(grammar), split(strings.ReplaceAll(string(docB), "‵", "`"))
	if len(a) < 10 || len(b) < 10 {
		r.Undecided("rules", fmt.Sprintf("only %d / %d grammar rules recognised", len(a), len(b)), gpos)
		return
	}
	var names []string
	for n := range a {
		names = append(names, n)
	}
	for n := range b {
		if _, ok := a[n]; !ok {
			names = append(names, n)
		}
	}
	sort.Strings(names)
	for _, n := range names {
		ca, ina := a[n]
		cb, inb := b[n]
		switch {
		case !ina:
			r.Viol("rule@"+n, "the documented grammar has rule "+n+" but the compiled grammar does not", gpos)
		case !inb:
			r.Viol("rule@"+n, "the compiled grammar has rule "+n+" which syntax/arrai.wbnf does not document", gpos)
		default:
			at := 0
			for at < len(ca) && at < len(cb) && ca[at] == cb[at] {
				at++
			}
			lo := at - 30
			if lo < 0 {
				lo = 0
			}
			ctx := func(t string) string {
				hi := at + 40
				if hi > len(t) {
					hi = len(t)
				}
				if lo > len(t) {
					return ""
				}
				return t[lo:hi]
			}
			r.Check(ca == cb, "rule@"+n, "identical", fmt.Sprintf("grammar rule %s differs between the compiled parser and syntax/arrai.wbnf: programs are grouped by a precedence/associativity other than the documented one (compiled: …%s… documented: …%s…)", n, ctx(ca), ctx(cb)), gpos)
		}
	}
}

func init() { register("C08", Rule{"R08g", ruleGrammarMatchesDocumentedGrammar}) }
