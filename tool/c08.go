package main

import (
	"fmt"
	"go/ast"
	"go/types"
	"strings"

	"golang.org/x/tools/go/ssa"
)

func init() {
	register("C08", Rule{"R08b", ruleShortCircuitLazy}, Rule{"R08e", ruleConstructorsKeepOperands}, Rule{"R08d", ruleLetIsArrow})
}

func ruleShortCircuitLazy(p *Program, r *Report) {
	r.Begin("R08b", "short-circuit laziness: in AndExpr.Eval, OrExpr.Eval and IfElseExpr.Eval, every evaluation of an operand other than the first is control-dependent on a branch whose condition depends on the *value* of the first operand's evaluation (not merely on its error): the operand that is not selected is never evaluated", 3)
	defer r.End()
	for _, tn := range []string{"AndExpr", "OrExpr", "IfElseExpr"} {
		fn := p.Method("rel", tn, "Eval")
		if fn == nil {
			r.Undecided("anchor@"+tn, "rel."+tn+".Eval not found", 0)
			continue
		}
		r.Fn(FnName(fn))
		var evals []*ssa.Call
		ForEachInstr(fn, func(ins ssa.Instruction) {
			if c, ok := ins.(*ssa.Call); ok && c.Call.IsInvoke() && c.Call.Method.Name() == "Eval" {
				evals = append(evals, c)
			}
		})
		if len(evals) < 2 {
			r.Undecided("evals@"+tn, fmt.Sprintf("%d operand evaluations found", len(evals)), fn.Pos())
			continue
		}
		// the first: the one that dominates the others
		first := evals[0]
		for _, e := range evals {
			if InstrDominates(e, first) {
				first = e
			}
		}
		v0 := extractOf(first, 0)
		pd := NewPostDom(fn)
		n := 0
		for _, e := range evals {
			if e == first {
				continue
			}
			n++
			lazy := false
			if v0 != nil {
				for _, d := range pd.TransitiveControlDeps(e.Block()) {
					cond := IfCond(d.Br)
					if cond != nil && DependsOn(cond, func(x ssa.Value) bool { return x == ssa.Value(v0) }) {
						lazy = true
					}
				}
			}
			// or the evaluated operand itself is chosen by the first operand's value: the receiver is a phi whose
			// incoming edges are the two sides of a branch on that value (`branch := b; if v { branch = a }; branch.Eval`)
			if ph, isPhi := e.Call.Value.(*ssa.Phi); isPhi && v0 != nil && !lazy {
				if id := ph.Block().Idom(); id != nil {
					if iff, isIf := id.Instrs[len(id.Instrs)-1].(*ssa.If); isIf && DependsOn(iff.Cond, func(x ssa.Value) bool { return x == ssa.Value(v0) }) {
						sel := true
						for _, pr := range ph.Block().Preds {
							if pr != id && !(id.Succs[0].Dominates(pr) || id.Succs[1].Dominates(pr)) {
								sel = false
							}
						}
						distinct := map[ssa.Value]bool{}
						for _, ed := range ph.Edges {
							distinct[ed] = true
						}
						if sel && len(distinct) == len(ph.Edges) {
							lazy = true
						}
					}
				}
			}
			r.Check(lazy && InstrDominates(first, e), fmt.Sprintf("lazy@%s~%d", tn, n), "evaluated only when selected by the first operand's value", fmt.Sprintf("%s.Eval evaluates an operand that the value of the first operand did not select: `false && f()` / `cond ? a : b` would evaluate (and fail in) the branch it must skip", tn), e.Pos())
		}
	}
}

// tableFuncs resolves the function values stored in a syntax table (binops, unops) to SSA functions.
func tableFuncs(p *Program, table string) map[string]*ssa.Function {
	out := map[string]*ssa.Function{}
	m, _, _, err := p.MapLiteral("syntax", table)
	if err != nil {
		return out
	}
	pk := p.PkgSyntax("syntax")
	for k, e := range m {
		var id *ast.Ident
		switch x := e.(type) {
		case *ast.SelectorExpr:
			id = x.Sel
		case *ast.Ident:
			id = x
		}
		if id == nil {
			continue
		}
		if fo, ok := pk.TypesInfo.Uses[id].(*types.Func); ok {
			if f := p.Prog.FuncValue(fo); f != nil {
				out[k] = f
			}
		}
	}
	return out
}

func ruleConstructorsKeepOperands(p *Program, r *Report) {
	r.Begin("R08e", "expression constructors keep their operands: every constructor stored in the binops / unops tables returns, on every path, an expression that depends on each of its operand parameters — unless that path is taken only when exprIsValue(operand) established that the operand is a literal (folding a literal away cannot skip an evaluation or hide its failure)", 35)
	defer r.End()
	exprI := p.NamedType("rel", "Expr")
	eiv := p.Func("rel", "exprIsValue")
	if exprI == nil {
		r.Undecided("anchor", "rel.Expr not found", 0)
		return
	}
	it := exprI.Underlying().(*types.Interface)
	seen := map[*ssa.Function]bool{}
	for _, table := range []string{"binops", "unops"} {
		fns := tableFuncs(p, table)
		for _, op := range SortedKeys(fns) {
			fn := fns[op]
			if seen[fn] || fn.Blocks == nil || !InRepo(fn) {
				continue
			}
			seen[fn] = true
			r.Fn(FnName(fn))
			var operands []*ssa.Parameter
			for _, prm := range fn.Params {
				if types.IsInterface(prm.Type()) && types.Implements(prm.Type(), it) {
					operands = append(operands, prm)
				}
			}
			ok := true
			why := ""
			ForEachInstr(fn, func(ins ssa.Instruction) {
				ret, isRet := ins.(*ssa.Return)
				if !isRet || len(ret.Results) == 0 {
					return
				}
				rv := RetVal(ret, 0)
				for _, prm := range operands {
					prm := prm
					if DependsOn(rv, func(x ssa.Value) bool { return x == ssa.Value(prm) }) {
						continue
					}
					// allowed when this return executes only if exprIsValue(prm) reported a literal
					literal := false
					if eiv != nil {
						for _, c := range callsTo(fn, eiv) {
							if len(c.Call.Args) > 0 && c.Call.Args[0] == ssa.Value(prm) {
								if okEx := extractOf(c, 1); okEx != nil && !reachableWhen(fn, okEx, false)[ins.Block()] {
									literal = true
								}
							}
						}
					}
					if !literal {
						ok = false
						why = fmt.Sprintf("a return of %s yields an expression that no longer contains operand %s although that operand is not known to be a literal: the operand is never evaluated, so `%s` can succeed (or change value) where the documented equivalent form fails", FnName(fn), prm.Name(), op)
					}
				}
			})
			r.Check(ok, "keeps-operands@"+FnName(fn), "every returned expression contains every operand", why, fn.Pos())
		}
	}
}

func ruleLetIsArrow(p *Program, r *Report) {
	r.Begin("R08d", "let ≡ arrow: compileLet (with a pattern) and the `binding` branch of compileArrow build their result with the same constructor chain — binops[\"->\"] applied to the bound expression and rel.NewFunction(pattern, body)", 2)
	defer r.End()
	pk := p.PkgSyntax("syntax")
	if pk == nil {
		r.Undecided("anchor", "package syntax not loaded", 0)
		return
	}
	check := func(fnName string) {
		found, arrow, newFn := false, false, false
		FuncDecls(pk, func(fd *ast.FuncDecl) {
			if fd.Name.Name != fnName {
				return
			}
			found = true
			ast.Inspect(fd.Body, func(n ast.Node) bool {
				switch x := n.(type) {
				case *ast.IndexExpr:
					if id, ok := x.X.(*ast.Ident); ok && id.Name == "binops" {
						if k, ok := ConstString(pk.TypesInfo, x.Index); ok && k == "->" {
							arrow = true
						}
					}
				case *ast.CallExpr:
					if sel, ok := x.Fun.(*ast.SelectorExpr); ok && sel.Sel.Name == "NewFunction" {
						newFn = true
					}
				}
				return true
			})
		})
		if !found {
			r.Undecided("anchor@"+fnName, "function not found", 0)
			return
		}
		r.Check(arrow && newFn, "chain@"+fnName, "built as binops[\"->\"](expr, NewFunction(pattern, body))", fmt.Sprintf("%s no longer builds its result as binops[\"->\"](e1, rel.NewFunction(p, e2)) (arrow=%v function=%v): `let p = e1; e2` and `e1 -> \\p e2` are compiled differently", fnName, arrow, newFn), 0)
	}
	check("compileLet")
	check("compileArrow")
	_ = strings.TrimSpace
}
