package main

import (
	"fmt"
	"go/constant"
	"go/token"
	"go/types"
	"strings"

	"golang.org/x/tools/go/ssa"
)

func init() {
	register("C20",
		Rule{"R20a", ruleOutcomeTable},
		Rule{"R20b", rulePassByTypeOnly},
		Rule{"R20c", ruleTestErrorPropagation},
		Rule{"R20d", ruleLeafContainers},
	)
}

const testPkg = "pkg/test"

// outcomeConsts returns the constants of type test.Outcome: name -> value.
func outcomeConsts(p *Program) (map[string]int64, *types.Named) {
	n := p.NamedType(testPkg, "Outcome")
	pk := p.PkgSyntax(testPkg)
	if n == nil || pk == nil {
		return nil, nil
	}
	out := map[string]int64{}
	sc := pk.Types.Scope()
	for _, name := range sc.Names() {
		if c, ok := sc.Lookup(name).(*types.Const); ok && types.Identical(c.Type(), n) {
			if v, ok := constant.Int64Val(c.Val()); ok {
				out[name] = v
			}
		}
	}
	return out, n
}

func constName(m map[string]int64, v int64) string {
	for k, x := range m {
		if x == v {
			return k
		}
	}
	return fmt.Sprint(v)
}

// fieldNameOfAddr gives the struct field name addressed by a FieldAddr.
func fieldNameOfAddr(v ssa.Value) string {
	fa, ok := v.(*ssa.FieldAddr)
	if !ok {
		return ""
	}
	st := structOf(fa.X.Type())
	if st == nil {
		return ""
	}
	return st.Field(fa.Field).Name()
}

// passConst finds, in RunExpr's leaf callback, the Outcome constant stored on the branch where isLiteralTrue
// returned true, and the set of all Outcome constants stored anywhere in the callback.
func passConst(p *Program) (pass int64, all map[int64]bool, cb *ssa.Function, ok bool) {
	run := p.Func(testPkg, "RunExpr")
	ilt := p.Func(testPkg, "isLiteralTrue")
	if run == nil || ilt == nil {
		return 0, nil, nil, false
	}
	all = map[int64]bool{}
	// candidates: RunExpr, its closures, and the functions of the package they call statically (a classifier
	// extracted into a named helper)
	cands := append([]*ssa.Function{run}, Closures(run)...)
	seen := map[*ssa.Function]bool{}
	for _, c := range cands {
		seen[c] = true
	}
	for i := 0; i < len(cands); i++ {
		ForEachInstr(cands[i], func(ins ssa.Instruction) {
			if c, isCall := ins.(*ssa.Call); isCall {
				if f := c.Call.StaticCallee(); f != nil && f != ilt && !seen[f] && f.Pkg != nil && f.Pkg == run.Pkg && f.Blocks != nil {
					seen[f] = true
					cands = append(cands, f)
					cands = append(cands, Closures(f)...)
				}
			}
		})
	}
	for _, cl := range cands {
		var tcall *ssa.Call
		ForEachInstr(cl, func(ins ssa.Instruction) {
			if c, isCall := ins.(*ssa.Call); isCall && c.Call.StaticCallee() == ilt {
				tcall = c
			}
		})
		if tcall == nil {
			continue
		}
		cb = cl
		storeIn := func(b *ssa.BasicBlock) (int64, bool) {
			for _, ins := range b.Instrs {
				if st, isSt := ins.(*ssa.Store); isSt && fieldNameOfAddr(st.Addr) == "Outcome" {
					if c, isC := st.Val.(*ssa.Const); isC && c.Value != nil {
						v, _ := constant.Int64Val(c.Value)
						return v, true
					}
				}
			}
			return 0, false
		}
		ForEachInstr(cl, func(ins ssa.Instruction) {
			if st, isSt := ins.(*ssa.Store); isSt && fieldNameOfAddr(st.Addr) == "Outcome" {
				if c, isC := st.Val.(*ssa.Const); isC && c.Value != nil {
					v, _ := constant.Int64Val(c.Value)
					all[v] = true
				}
			}
		})
		for _, ref := range *tcall.Referrers() {
			if iff, isIf := ref.(*ssa.If); isIf {
				if v, found := storeIn(iff.Block().Succs[0]); found {
					return v, all, cb, true
				}
			}
		}
	}
	return 0, all, cb, false
}

func ruleOutcomeTable(p *Program, r *Report) {
	r.Begin("R20a", "outcome table: the switch over result.Outcome in calcStats has a case for every constant of type Outcome, each incrementing a distinct counter; runFailed is computed from the counter of every outcome RunExpr can assign other than the one assigned under isLiteralTrue; Report returns a non-nil error exactly on the branch where runFailed is true", 6)
	defer r.End()
	consts, _ := outcomeConsts(p)
	calc := p.Func(testPkg, "calcStats")
	report := p.Func(testPkg, "Report")
	if len(consts) < 2 || calc == nil || report == nil {
		r.Undecided("anchor", "Outcome constants / calcStats / Report not found", 0)
		return
	}
	r.Fn(FnName(calc))
	r.Fn(FnName(report))
	// case table: const value -> counter field incremented on the true branch
	caseField := map[int64]string{}
	var tags []ssa.Value
	// the counting switch may sit in calcStats or in a package-local helper it calls with the outcome
	switchFns := []*ssa.Function{calc}
	ForEachInstr(calc, func(ins ssa.Instruction) {
		if c, ok := ins.(*ssa.Call); ok {
			if g := c.Call.StaticCallee(); g != nil && g.Pkg == calc.Pkg && g.Blocks != nil {
				switchFns = append(switchFns, g)
			}
		}
	})
	var swFn *ssa.Function
	for _, sf := range switchFns {
		hasSwitch := false
		ForEachInstr(sf, func(ins ssa.Instruction) {
			if bo, ok := ins.(*ssa.BinOp); ok && bo.Op == token.EQL {
				if c, ok := bo.Y.(*ssa.Const); ok && c.Value != nil && strings.HasSuffix(c.Type().String(), "test.Outcome") {
					hasSwitch = true
				}
			}
		})
		if hasSwitch && swFn == nil {
			swFn = sf
		}
	}
	if swFn == nil {
		swFn = calc
	}
	r.Fn(FnName(swFn))
	ForEachInstr(swFn, func(ins ssa.Instruction) {
		bo, ok := ins.(*ssa.BinOp)
		if !ok || bo.Op != token.EQL {
			return
		}
		c, ok := bo.Y.(*ssa.Const)
		if !ok || c.Value == nil || !strings.HasSuffix(c.Type().String(), "test.Outcome") {
			return
		}
		v, _ := constant.Int64Val(c.Value)
		tags = append(tags, bo.X)
		for _, ref := range *bo.Referrers() {
			iff, ok := ref.(*ssa.If)
			if !ok {
				continue
			}
			for _, i2 := range iff.Block().Succs[0].Instrs {
				if st, ok := i2.(*ssa.Store); ok {
					if f := fieldNameOfAddr(st.Addr); f != "" {
						if add, ok := st.Val.(*ssa.BinOp); ok && add.Op == token.ADD {
							caseField[v] = f
						}
					}
				}
			}
		}
	})
	// every result is counted: the value switched on is the Outcome field of an element of a Results slice, read
	// directly — not an outcome that went through a map (which collapses results sharing the key)
	if len(tags) > 0 {
		tag := tags[0]
		if prm, isParam := tag.(*ssa.Parameter); isParam && swFn != calc {
			idx := -1
			for i, q := range swFn.Params {
				if q == prm {
					idx = i
				}
			}
			for _, c := range callsTo(calc, swFn) {
				if idx >= 0 && idx < len(c.Call.Args) {
					tag = c.Call.Args[idx]
				}
			}
		}
		direct := DependsOn(tag, func(x ssa.Value) bool {
			switch y := x.(type) {
			case *ssa.FieldAddr:
				return fieldNameOfAddr(y) == "Outcome"
			case *ssa.Field:
				if st := structOf(y.X.Type()); st != nil {
					return st.Field(y.Field).Name() == "Outcome"
				}
			}
			return false
		})
		viaMap := DependsOn(tag, func(x ssa.Value) bool {
			switch y := x.(type) {
			case *ssa.Lookup:
				_, isMap := y.X.Type().Underlying().(*types.Map)
				return isMap
			case *ssa.Next:
				return !y.IsString
			}
			return false
		})
		r.Check(direct && !viaMap, "counts-every-result", "the switch reads each result's own Outcome", "calcStats does not count the Outcome of every Result it is given (the outcomes pass through a map or are not read from the results): results that share a key are tallied once, so the totals no longer equal the number of leaves and a failing leaf can disappear from the exit status", tag.Pos())
	}
	seenField := map[string]string{}
	for name, v := range consts {
		f, ok := caseField[v]
		if !r.Check(ok, "case@"+name, "counted in field "+f, fmt.Sprintf("calcStats has no case for Outcome %s: results with that outcome are not counted towards any total", name), calc.Pos()) {
			continue
		}
		if other, dup := seenField[f]; dup {
			r.Viol("distinct@"+name, fmt.Sprintf("outcomes %s and %s are counted in the same field %s", name, other, f), calc.Pos())
		} else {
			seenField[f] = name
			r.OK("distinct@"+name, "own counter "+f, calc.Pos())
		}
	}
	// runFailed dependence
	pass, assigned, _, ok := passConst(p)
	if !ok {
		r.Undecided("pass-const", "cannot find the outcome assigned under isLiteralTrue in RunExpr", 0)
		return
	}
	var rf *ssa.Store
	ForEachInstr(calc, func(ins ssa.Instruction) {
		if st, ok := ins.(*ssa.Store); ok && fieldNameOfAddr(st.Addr) == "runFailed" {
			rf = st
		}
	})
	if rf == nil {
		r.Undecided("runFailed", "no store to runFailed in calcStats", calc.Pos())
		return
	}
	for v := range assigned {
		if v == pass {
			continue
		}
		name := constName(consts, v)
		f := caseField[v]
		dep := f != "" && DependsOn(rf.Val, func(x ssa.Value) bool {
			if ld, ok := x.(*ssa.UnOp); ok && ld.Op == token.MUL {
				return fieldNameOfAddr(ld.X) == f
			}
			return false
		})
		r.Check(dep, "fails-run@"+name, "runFailed depends on counter "+f, fmt.Sprintf("RunExpr can assign outcome %s but runFailed does not depend on its counter (%s): such leaves do not fail the run", name, f), rf.Pos())
	}
	// the comparison must be "> 0"-like: runFailed true when a counter is positive. Check form: every leaf comparison of a
	// counter against the constant 0 with GTR/NEQ (or 0 < counter).
	okForm := true
	var walk func(v ssa.Value, depth int)
	walk = func(v ssa.Value, depth int) {
		if depth > 6 {
			return
		}
		switch x := v.(type) {
		case *ssa.Phi:
			for _, e := range x.Edges {
				walk(e, depth+1)
			}
		case *ssa.BinOp:
			switch x.Op {
			case token.GTR, token.NEQ:
				if c, ok := x.Y.(*ssa.Const); !ok || c.Value == nil || c.Value.ExactString() != "0" {
					okForm = false
				}
			case token.LSS:
				if c, ok := x.X.(*ssa.Const); !ok || c.Value == nil || c.Value.ExactString() != "0" {
					okForm = false
				}
			case token.GEQ:
				if c, ok := x.Y.(*ssa.Const); !ok || c.Value == nil || c.Value.ExactString() != "1" {
					okForm = false
				}
			case token.OR, token.LOR:
				walk(x.X, depth+1)
				walk(x.Y, depth+1)
			default:
				okForm = false
			}
		case *ssa.Const:
			// short-circuit constant true on an edge of the || phi
			if b, ok := BoolConst(x); !ok || !b {
				okForm = false
			}
		default:
			okForm = false
		}
	}
	walk(rf.Val, 0)
	r.Check(okForm, "runFailed-form", "runFailed is a disjunction of counter > 0 tests", "runFailed is not a disjunction of `counter > 0` tests: a single failing leaf may not fail the run", rf.Pos())

	// Report: error iff runFailed
	pd := NewPostDom(report)
	n := 0
	ForEachInstr(report, func(ins ssa.Instruction) {
		ret, ok := ins.(*ssa.Return)
		if !ok || len(ret.Results) == 0 {
			return
		}
		ev := RetVal(ret, len(ret.Results)-1)
		var onTrue, onFalse bool
		for _, d := range pd.TransitiveControlDeps(ins.Block()) {
			cond := IfCond(d.Br)
			if cond == nil {
				continue
			}
			isRF := false
			switch c := cond.(type) {
			case *ssa.UnOp:
				isRF = c.Op == token.MUL && fieldNameOfAddr(c.X) == "runFailed"
			case *ssa.Field:
				if st := structOf(c.X.Type()); st != nil && st.Field(c.Field).Name() == "runFailed" {
					isRF = true
				}
			}
			if isRF {
				if d.Succ == 0 {
					onTrue = true
				} else {
					onFalse = true
				}
			}
		}
		n++
		if IsNilConst(ev) {
			r.Check(onFalse && !onTrue, "report-nil", "nil is returned only when runFailed is false", "Report returns nil on a path not conditioned on runFailed being false: a failed run can exit 0", ret.Pos())
		} else {
			r.Check(onTrue && !onFalse, "report-error", "the error is returned when runFailed is true", "Report's error return is not conditioned on runFailed being true", ret.Pos())
		}
	})
	if n < 2 {
		r.Undecided("report", "Report does not have both a nil and an error return", report.Pos())
	}
}

func rulePassByTypeOnly(p *Program, r *Report) {
	r.Begin("R20b", "pass by type only: isLiteralTrue(dyn T) (TS-SCCP, all value types) folds to true for TrueSet and can return true for no other type; isLiteralFalse folds to true for EmptySet and is false for every type but GenericSet; in RunExpr the pass outcome is stored only on the branch where isLiteralTrue returned true, every other branch stores a different outcome, and every leaf appends exactly one result", 30)
	defer r.End()
	s := relSCCP(p, r)
	ilt := p.Func(testPkg, "isLiteralTrue")
	ilf := p.Func(testPkg, "isLiteralFalse")
	if ilt == nil || ilf == nil {
		r.Undecided("anchor", "isLiteralTrue / isLiteralFalse not found", 0)
		return
	}
	r.Fn(FnName(ilt))
	r.Fn(FnName(ilf))
	for _, T := range p.ValueTypes() {
		name := shortT(T)
		res := s.Analyze(ilt, []AVal{DynCtx(T)})
		key := "isLiteralTrue@" + name
		switch {
		case res == nil:
			r.Undecided(key, "not analysable", ilt.Pos())
		case name == "TrueSet":
			b, ok := AVal{}.IsBool()
			if !res.Panics && len(res.Rets) == 1 {
				b, ok = res.Rets[0].IsBool()
			}
			r.Check(ok && b, key, "constant true", "isLiteralTrue(true) does not fold to true: a literal true leaf is not recognised as a pass", ilt.Pos())
		default:
			canTrue := false
			if !res.Panics && len(res.Rets) == 1 {
				if b, ok := res.Rets[0].IsBool(); !ok || b {
					canTrue = true
				}
			}
			r.Check(!canTrue, key, "never true (false or rejects)", fmt.Sprintf("isLiteralTrue can return true for a value of type %s: a leaf that is not the literal true passes", name), ilt.Pos())
		}
		res = s.Analyze(ilf, []AVal{DynCtx(T)})
		key = "isLiteralFalse@" + name
		switch {
		case res == nil:
			r.Undecided(key, "not analysable", ilf.Pos())
		case name == "EmptySet":
			ok := !res.Panics && len(res.Rets) == 1
			if ok {
				b, isB := res.Rets[0].IsBool()
				ok = isB && b
			}
			r.Check(ok, key, "constant true", "isLiteralFalse({}) does not fold to true", ilf.Pos())
		case name == "GenericSet":
			r.Info(key, "value-dependent for GenericSet (harmless: Failed and Invalid both fail the run)", ilf.Pos())
		default:
			ok := !res.Panics && len(res.Rets) == 1
			if ok {
				b, isB := res.Rets[0].IsBool()
				ok = isB && !b
			}
			r.Check(ok, key, "constant false", fmt.Sprintf("isLiteralFalse is not constant false for %s", name), ilf.Pos())
		}
	}
	pass, _, cb, ok := passConst(p)
	if !ok || cb == nil {
		r.Undecided("callback", "leaf callback of RunExpr with an isLiteralTrue test not found", 0)
		return
	}
	r.Fn(FnName(cb))
	// every store of the pass constant is in a block dominated by the true edge of the isLiteralTrue test
	var tcall *ssa.Call
	ForEachInstr(cb, func(ins ssa.Instruction) {
		if c, isCall := ins.(*ssa.Call); isCall && c.Call.StaticCallee() == ilt {
			tcall = c
		}
	})
	var trueBlock *ssa.BasicBlock
	direct := false
	for _, ref := range *tcall.Referrers() {
		if iff, isIf := ref.(*ssa.If); isIf {
			trueBlock = iff.Block().Succs[0]
			direct = true
		}
	}
	r.Check(direct, "test-direct", "the branch tests isLiteralTrue's result itself", "the result of isLiteralTrue is not used directly as a branch condition (negated or combined): pass classification cannot be decided", tcall.Pos())
	nPass := 0
	ForEachInstr(cb, func(ins ssa.Instruction) {
		st, isSt := ins.(*ssa.Store)
		if !isSt || fieldNameOfAddr(st.Addr) != "Outcome" {
			return
		}
		c, isC := st.Val.(*ssa.Const)
		if !isC || c.Value == nil {
			r.Viol("outcome-const", "a non-constant outcome is stored", st.Pos())
			return
		}
		v, _ := constant.Int64Val(c.Value)
		if v != pass {
			return
		}
		nPass++
		okDom := trueBlock != nil && trueBlock.Dominates(st.Block()) && len(trueBlock.Preds) == 1
		r.Check(okDom, fmt.Sprintf("pass-store~%d", nPass), "Passed is stored only under isLiteralTrue", "the passing outcome is stored on a path that does not require isLiteralTrue to have returned true", st.Pos())
	})
	// a composite literal's zero value: Outcome defaults to the constant 0; if the pass constant is 0 an unset outcome passes
	r.Check(pass != 0, "pass-nonzero", "the passing outcome is not the zero value of Outcome", "the passing outcome is the zero value of type Outcome: a Result whose Outcome is never set counts as passed", cb.Pos())
	// exactly one append per leaf: in the closure RunExpr hands to the leaf walk, the append is executed on every
	// path (post-dominates entry), is not in a loop, and appends the classifier's result
	run := p.Func(testPkg, "RunExpr")
	var leafCb *ssa.Function
	for _, cl := range Closures(run) {
		has := false
		ForEachInstr(cl, func(ins ssa.Instruction) {
			if c, isCall := ins.(*ssa.Call); isCall {
				if b, isB := c.Call.Value.(*ssa.Builtin); isB && b.Name() == "append" {
					has = true
				}
			}
		})
		if has {
			if leafCb != nil {
				r.Viol("one-append", "more than one closure of RunExpr appends results", cl.Pos())
			}
			leafCb = cl
		}
	}
	if leafCb == nil {
		// results collected some other way: a map keyed by something collapses leaves that share the key
		for _, cl := range Closures(run) {
			ForEachInstr(cl, func(ins ssa.Instruction) {
				if mu, ok := ins.(*ssa.MapUpdate); ok && strings.HasSuffix(mu.Value.Type().String(), "test.Result") {
					leafCb = cl
					r.Fn(FnName(cl))
					r.Viol("one-result-per-leaf", "the leaf callback stores its result in a map instead of appending it: two leaves that share the key (leaf paths are not unique — multi-valued dictionaries, quoted attribute names spelling a nested path) overwrite each other, so a false leaf can vanish from the report and from the exit status", mu.Pos())
				}
			})
		}
		if leafCb == nil {
			r.Undecided("leaf-callback", "no closure of RunExpr appends a result", run.Pos())
		}
		return
	}
	r.Fn(FnName(leafCb))
	pd := NewPostDom(leafCb)
	nApp := 0
	ForEachInstr(leafCb, func(ins ssa.Instruction) {
		c, isCall := ins.(*ssa.Call)
		if !isCall {
			return
		}
		if b, isB := c.Call.Value.(*ssa.Builtin); !isB || b.Name() != "append" {
			return
		}
		nApp++
		inLoop := Reaches(ins.Block(), ins.Block(), false)
		r.Check(pd.PostDominates(ins.Block(), leafCb.Blocks[0]) && !inLoop, "one-result-per-leaf", "the result is appended on every path, once", "the leaf callback does not append its result on every path exactly once: a leaf can go unreported or be reported twice", c.Pos())
		if cb != leafCb {
			fromCls := len(c.Call.Args) == 2 && DependsOn(c.Call.Args[1], func(x ssa.Value) bool {
				cc, isC := x.(*ssa.Call)
				return isC && cc.Call.StaticCallee() == cb
			})
			r.Check(fromCls, "appends-classified", "the appended result comes from "+cb.Name(), "the leaf callback appends a result that does not come from the classifier "+cb.Name(), c.Pos())
		}
	})
	if nApp != 1 {
		r.Viol("one-append", fmt.Sprintf("the leaf callback has %d append sites (expected 1)", nApp), leafCb.Pos())
	}
}

// errPropagated: the error produced by call c is returned (possibly wrapped) on its non-nil branch, or returned directly.
func errPropagated(c *ssa.Call) (bool, string) {
	fn := c.Parent()
	sig := c.Call.Signature()
	n := sig.Results().Len()
	var ev ssa.Value = c
	if n > 1 {
		ev = nil
		for _, ref := range *c.Referrers() {
			if ex, ok := ref.(*ssa.Extract); ok && ex.Index == n-1 {
				ev = ex
			}
		}
		if ev == nil {
			return false, "the error result is never extracted"
		}
	}
	dep := func(v ssa.Value) bool { return DependsOn(v, func(x ssa.Value) bool { return x == ev }) }
	okAny := false
	why := "the error is neither tested nor returned"
	ForEachInstr(fn, func(ins ssa.Instruction) {
		switch x := ins.(type) {
		case *ssa.Return:
			if len(x.Results) > 0 {
				rv := RetVal(x, len(x.Results)-1)
				if rv == ev {
					okAny = true
				}
			}
		case *ssa.If:
			e2, nonNil, is := ErrNonNilBranch(x.Cond)
			if !is || !(e2 == ev || dep(e2)) {
				return
			}
			// the non-nil successor must end in a return of a value depending on ev
			b := x.Block().Succs[nonNil]
			seen := map[*ssa.BasicBlock]bool{}
			for b != nil && !seen[b] {
				seen[b] = true
				last := b.Instrs[len(b.Instrs)-1]
				if ret, ok := last.(*ssa.Return); ok {
					if len(ret.Results) > 0 {
						rv := RetVal(ret, len(ret.Results)-1)
						if !IsNilConst(rv) && (rv == ev || dep(rv)) {
							okAny = true
						} else {
							why = "on the error branch the function returns a value that does not carry the error"
						}
					}
					return
				}
				if j, ok := last.(*ssa.Jump); ok {
					_ = j
					b = b.Succs[0]
					continue
				}
				why = "the error branch does not return"
				return
			}
		}
	})
	return okAny, why
}

func ruleTestErrorPropagation(p *Program, r *Report) {
	r.Begin("R20c", "error propagation to the exit status: in RunTests, runFile, getTestFiles (and its walk callback), RunExpr and doTest every call that returns an error has that error returned (possibly wrapped) on its non-nil branch; doTest returns RunTests' error unchanged; in main the os.Exit(1) is reached exactly on the branch where app.Run's error is non-nil", 8)
	defer r.End()
	var fns []*ssa.Function
	for _, n := range []string{"RunTests", "runFile", "getTestFiles", "RunExpr"} {
		f := p.Func(testPkg, n)
		if f == nil {
			r.Undecided("anchor@"+n, "function not found", 0)
			continue
		}
		fns = append(fns, f)
		fns = append(fns, Closures(f)...)
	}
	// the command action: the function of package cmd/arrai (named or a function literal) that calls test.RunTests
	if rt := p.Func(testPkg, "RunTests"); rt != nil {
		found := false
		for _, f := range p.RepoFns {
			if PkgPathOf(f) == Mod+"/cmd/arrai" && len(callsTo(f, rt)) > 0 {
				fns = append(fns, f)
				found = true
			}
		}
		if !found {
			r.Undecided("anchor@doTest", "no function of cmd/arrai calls test.RunTests", 0)
		}
	}
	ord := map[string]int{}
	for _, fn := range fns {
		// the leaf callback returns nothing: skip functions without an error result
		res := fn.Signature.Results()
		if res.Len() == 0 || !isErrorType(res.At(res.Len()-1).Type()) {
			continue
		}
		r.Fn(FnName(fn))
		ForEachInstr(fn, func(ins ssa.Instruction) {
			c, ok := ins.(*ssa.Call)
			if !ok {
				return
			}
			cr := c.Call.Signature().Results()
			if cr.Len() == 0 || !isErrorType(cr.At(cr.Len()-1).Type()) {
				return
			}
			name := CalleeName(&c.Call)
			if name == "fmt.Errorf" || strings.HasSuffix(name, "errors.New") || strings.HasSuffix(name, "errors.Errorf") {
				return // constructors
			}
			key := fmt.Sprintf("propagates@%s#%s", FnName(fn), name)
			ord[key]++
			if ord[key] > 1 {
				key = fmt.Sprintf("%s~%d", key, ord[key])
			}
			ok, why := errPropagated(c)
			r.Check(ok, key, "error returned on its non-nil branch", fmt.Sprintf("the error of %s is swallowed in %s (%s): a test file that cannot be read, compiled or evaluated no longer fails the run", name, FnName(fn), why), c.Pos())
		})
	}
	// main: os.Exit(1) iff app.Run error
	main := p.Func("cmd/arrai", "main")
	if main == nil {
		r.Undecided("anchor@main", "cmd/arrai.main not found", 0)
		return
	}
	r.Fn(FnName(main))
	var runCall *ssa.Call
	var exits []*ssa.Call
	ForEachInstr(main, func(ins ssa.Instruction) {
		c, ok := ins.(*ssa.Call)
		if !ok {
			return
		}
		if callee := c.Call.StaticCallee(); callee != nil {
			switch callee.String() {
			case "(*github.com/urfave/cli/v2.App).Run":
				runCall = c
			case "os.Exit":
				exits = append(exits, c)
			}
		}
	})
	if runCall == nil {
		r.Undecided("main-run", "app.Run call not found in main", main.Pos())
		return
	}
	pd := NewPostDom(main)
	good := false
	for _, ex := range exits {
		if k, ok := ex.Call.Args[0].(*ssa.Const); !ok || k.Value == nil || k.Value.ExactString() == "0" {
			continue
		}
		for _, d := range pd.ControlDeps(ex.Block()) {
			if ev, nonNil, is := ErrNonNilBranch(IfCond(d.Br)); is && ev == ssa.Value(runCall) && d.Succ == nonNil {
				good = true
			}
		}
		// also accept: the exit block is dominated by the non-nil successor
		for _, ref := range *runCall.Referrers() {
			if bo, ok := ref.(*ssa.BinOp); ok {
				for _, r2 := range *bo.Referrers() {
					if iff, ok := r2.(*ssa.If); ok {
						if _, nonNil, is := ErrNonNilBranch(iff.Cond); is && iff.Block().Succs[nonNil].Dominates(ex.Block()) {
							good = true
						}
					}
				}
			}
		}
	}
	r.Check(good, "main-exit", "os.Exit(non-zero) is reached on the branch where app.Run's error is non-nil", "main does not exit with a non-zero status when app.Run returns an error: a failed test run exits 0", runCall.Pos())
}

func ruleLeafContainers(p *Program, r *Report) {
	r.Begin("R20d", "container table: ForeachLeaf's type switch recurses (calls itself) for exactly Array, Dict and Tuple; the branch taken when no container type matches invokes the leaf action on the value (never drops it); each recursive branch passes an element of the container and the same action", 4)
	defer r.End()
	fl := p.Func(testPkg, "ForeachLeaf")
	if fl == nil {
		r.Undecided("anchor", "ForeachLeaf not found", 0)
		return
	}
	r.Fn(FnName(fl))
	var chain *tsChain
	for _, ch := range typeSwitchChains2(fl, 2) {
		if ch.X == ssa.Value(fl.Params[0]) || DependsOn(ch.X, func(v ssa.Value) bool { return v == ssa.Value(fl.Params[0]) }) {
			c := ch
			chain = &c
		}
	}
	if chain == nil || chain.Default == nil {
		r.Undecided("switch", "type switch over the value not found", fl.Pos())
		return
	}
	want := map[string]bool{"rel.Array": true, "rel.Dict": true, "rel.Tuple": true}
	got := map[string]bool{}
	action := fl.Params[len(fl.Params)-1]
	for _, a := range chain.Asserts {
		tn := TypeName(a.AssertedType)
		got[tn] = true
		// the true branch must (transitively) contain a recursive call passing the same action
		var tb *ssa.BasicBlock
		for _, ref := range *a.Referrers() {
			if ex, ok := ref.(*ssa.Extract); ok && ex.Index == 1 {
				for _, r2 := range *ex.Referrers() {
					if iff, ok := r2.(*ssa.If); ok {
						tb = iff.Block().Succs[0]
					}
				}
			}
		}
		rec := false
		if tb != nil {
			for _, b := range fl.Blocks {
				if !(b == tb || tb.Dominates(b)) {
					continue
				}
				for _, ins := range b.Instrs {
					if c, ok := ins.(*ssa.Call); ok && c.Call.StaticCallee() == fl {
						if c.Call.Args[len(c.Call.Args)-1] == ssa.Value(action) {
							rec = true
						}
					}
				}
			}
		}
		r.Check(rec, "recurses@"+tn, "recurses into the container with the same action", fmt.Sprintf("the %s case of ForeachLeaf does not recurse into its elements: the leaves inside such a container are never examined", tn), a.Pos())
	}
	for t := range want {
		r.Check(got[t], "container@"+t, "is a container case", fmt.Sprintf("ForeachLeaf has no case for %s: such a container is treated as a single leaf", t), fl.Pos())
	}
	for t := range got {
		if !want[t] {
			r.Viol("extra-container@"+t, fmt.Sprintf("ForeachLeaf treats %s as a container although the property names only tuples, arrays and dictionaries", t), fl.Pos())
		}
	}
	// default: calls the action with the value
	calls := false
	seen := map[*ssa.BasicBlock]bool{}
	b := chain.Default
	for b != nil && !seen[b] {
		seen[b] = true
		for _, ins := range b.Instrs {
			if c, ok := ins.(*ssa.Call); ok && c.Call.Value == ssa.Value(action) {
				if len(c.Call.Args) > 0 && c.Call.Args[0] == ssa.Value(fl.Params[0]) {
					calls = true
				}
			}
		}
		if len(b.Succs) == 1 {
			b = b.Succs[0]
		} else {
			break
		}
	}
	r.Check(calls, "default-reports-leaf", "the default branch invokes the leaf action on the value", "when the value is no container ForeachLeaf does not invoke the leaf action on it: the leaf is silently dropped", fl.Pos())
}

// typeSwitchChains2 is typeSwitchChains with a configurable minimum length.
func typeSwitchChains2(fn *ssa.Function, min int) []tsChain {
	byX := map[ssa.Value][]*ssa.TypeAssert{}
	var order []ssa.Value
	ForEachInstr(fn, func(ins ssa.Instruction) {
		ta, ok := ins.(*ssa.TypeAssert)
		if !ok || !ta.CommaOk {
			return
		}
		if _, seen := byX[ta.X]; !seen {
			order = append(order, ta.X)
		}
		byX[ta.X] = append(byX[ta.X], ta)
	})
	var out []tsChain
	for _, x := range order {
		as := byX[x]
		if len(as) < min {
			continue
		}
		last := as[len(as)-1]
		var def *ssa.BasicBlock
		for _, ref := range *last.Referrers() {
			ex, ok := ref.(*ssa.Extract)
			if !ok || ex.Index != 1 {
				continue
			}
			for _, r2 := range *ex.Referrers() {
				if iff, ok := r2.(*ssa.If); ok {
					def = iff.Block().Succs[1]
				}
			}
		}
		out = append(out, tsChain{X: x, Asserts: as, Default: def})
	}
	return out
}

// ruleWalkSkipDir: the directory walk drops only hidden directories.
func ruleWalkSkipDir(p *Program, r *Report) {
	r.Begin("R20e", "test-file discovery drops only directories: in the afero.Walk callback of getTestFiles, filepath.SkipDir (which, returned for a plain file, abandons the rest of that directory and everything below it) is returned only on paths where info.IsDir() was true", 0)
	defer r.End()
	gtf := p.Func(testPkg, "getTestFiles")
	if gtf == nil {
		r.Undecided("anchor", "getTestFiles not found", 0)
		return
	}
	n := 0
	for _, cb := range Closures(gtf) {
		var isDirs []ssa.Value
		ForEachInstr(cb, func(ins ssa.Instruction) {
			if c, ok := ins.(*ssa.Call); ok && c.Call.IsInvoke() && c.Call.Method.Name() == "IsDir" {
				isDirs = append(isDirs, c)
			}
		})
		ForEachInstr(cb, func(ins ssa.Instruction) {
			ret, ok := ins.(*ssa.Return)
			if !ok || len(ret.Results) == 0 {
				return
			}
			ev := RetVal(ret, len(ret.Results)-1)
			ld, ok := ev.(*ssa.UnOp)
			if !ok {
				return
			}
			g, ok := ld.X.(*ssa.Global)
			if !ok || g.Name() != "SkipDir" {
				return
			}
			n++
			r.Fn(FnName(cb))
			guarded := false
			for _, d := range isDirs {
				if !reachableWhen(cb, d, false)[ins.Block()] {
					guarded = true
				}
			}
			r.Check(guarded, fmt.Sprintf("skipdir@%s~%d", FnName(cb), n), "SkipDir is returned only for directories", "the walk callback can return filepath.SkipDir for an entry that is not a directory: a dotfile next to test files makes the walk skip every remaining file of that directory, whose failing leaves then never fail the run", ret.Pos())
		})
	}
	if n == 0 {
		r.Info("sites", "the walk callback never returns SkipDir", gtf.Pos())
	}
}

func init() { register("C20", Rule{"R20e", ruleWalkSkipDir}) }
