package main

import (
	"fmt"
	"go/types"
	"strings"

	"golang.org/x/tools/go/ssa"
)

func init() {
	register("C09",
		Rule{"R09a", ruleBindErrorDiscipline},
		Rule{"R09b", ruleBindMergeDiscipline},
		Rule{"R09c", ruleExtensionalAgreement},
	)
}

// bindCalls lists the calls of Pattern.Bind (invoke on rel.Pattern or static calls of Bind methods of pattern types).
func bindCalls(p *Program) []*ssa.Call {
	pat := p.NamedType("rel", "Pattern")
	if pat == nil {
		return nil
	}
	it := pat.Underlying().(*types.Interface)
	var out []*ssa.Call
	for _, fn := range p.RepoFns {
		ForEachInstr(fn, func(ins ssa.Instruction) {
			c, ok := ins.(*ssa.Call)
			if !ok {
				return
			}
			if c.Call.IsInvoke() {
				if c.Call.Method.Name() == "Bind" && types.Implements(c.Call.Value.Type(), it) {
					out = append(out, c)
				}
				return
			}
			if callee := c.Call.StaticCallee(); callee != nil && callee.Name() == "Bind" && callee.Signature.Recv() != nil {
				rt := callee.Signature.Recv().Type()
				if types.Implements(rt, it) || types.Implements(types.NewPointer(rt), it) {
					out = append(out, c)
				}
			}
		})
	}
	return out
}

func extractOf(c *ssa.Call, idx int) *ssa.Extract {
	for _, ref := range *c.Referrers() {
		if ex, ok := ref.(*ssa.Extract); ok && ex.Index == idx {
			return ex
		}
	}
	return nil
}

func ruleBindErrorDiscipline(p *Program, r *Report) {
	r.Begin("R09a", "Bind-error discipline: at every call of Pattern.Bind the returned error is either passed through unchanged together with the other results (return p.Bind(…)) or tested, and the bound scope is used only on the branch where the error is nil — a failed match never contributes bindings", 12)
	defer r.End()
	ord := map[string]int{}
	for _, c := range bindCalls(p) {
		fn := c.Parent()
		r.Fn(FnName(fn))
		key := "bind@" + FnName(fn)
		ord[key]++
		if ord[key] > 1 {
			key = fmt.Sprintf("%s~%d", key, ord[key])
		}
		n := c.Call.Signature().Results().Len()
		errEx := extractOf(c, n-1)
		scopeEx := extractOf(c, n-2)
		// pass-through: the call's tuple is returned whole
		passThrough := false
		for _, ref := range *c.Referrers() {
			if _, ok := ref.(*ssa.Return); ok {
				passThrough = true
			}
		}
		if passThrough {
			r.OK(key, "results returned unchanged", c.Pos())
			continue
		}
		if errEx == nil {
			r.Viol(key, fmt.Sprintf("%s ignores the error returned by Bind: a value that does not match the pattern is treated as matched", FnName(fn)), c.Pos())
			continue
		}
		// all results returned positionally (return ctx, scope, err) is also a pass-through
		allReturned := false
		for _, ref := range *errEx.Referrers() {
			if ret, ok := ref.(*ssa.Return); ok && scopeEx != nil {
				for _, rv := range ret.Results {
					if rv == ssa.Value(scopeEx) {
						allReturned = true
					}
				}
			}
		}
		// the If testing the error
		var nilSucc *ssa.BasicBlock
		errVals := []ssa.Value{errEx}
		for _, ref := range *errEx.Referrers() {
			if ph, ok := ref.(*ssa.Phi); ok {
				errVals = append(errVals, ph) // the error joins another branch's error before it is tested
			}
		}
		for _, ev := range errVals {
			for _, ref := range *ev.Referrers() {
				bo, ok := ref.(*ssa.BinOp)
				if !ok {
					continue
				}
				for _, r2 := range *bo.Referrers() {
					if iff, ok := r2.(*ssa.If); ok {
						if _, nonNil, is := ErrNonNilBranch(iff.Cond); is && nilSucc == nil {
							nilSucc = iff.Block().Succs[1-nonNil]
						}
					}
				}
			}
		}
		if nilSucc == nil {
			if allReturned {
				r.OK(key, "results returned together with the error", c.Pos())
			} else {
				r.Viol(key, fmt.Sprintf("%s never tests the error returned by Bind", FnName(fn)), c.Pos())
			}
			continue
		}
		bad := false
		if scopeEx != nil {
			for _, ref := range *scopeEx.Referrers() {
				if _, isDbg := ref.(*ssa.DebugRef); isDbg {
					continue
				}
				if ret, isRet := ref.(*ssa.Return); isRet && !nilSucc.Dominates(ret.Block()) {
					continue // returned alongside the non-nil error: callers apply the same rule
				}
				if ph, isPhi := ref.(*ssa.Phi); isPhi {
					_ = ph
					continue
				}
				if !(nilSucc == ref.Block() || nilSucc.Dominates(ref.Block())) {
					bad = true
				}
			}
		}
		r.Check(!bad, key, "scope used only when the error is nil", fmt.Sprintf("%s uses the scope produced by Bind on a path where its error may be non-nil: bindings of a failed match leak into the result", FnName(fn)), c.Pos())
	}
}

func ruleBindMergeDiscipline(p *Program, r *Report) {
	r.Begin("R09b", "merge discipline: inside the Bind method of a composite pattern (one that binds sub-patterns), a scope produced by a sub-pattern's Bind is combined with the accumulated scope only through MatchedUpdate / MatchedWith (which reject a repeated name bound to a different value, and whose error is propagated) — never through Update / With, which silently let the later binding win", 4)
	defer r.End()
	pat := p.NamedType("rel", "Pattern")
	if pat == nil {
		r.Undecided("anchor", "rel.Pattern not found", 0)
		return
	}
	it := pat.Underlying().(*types.Interface)
	ord := map[string]int{}
	for _, c := range bindCalls(p) {
		fn := c.Parent()
		top := fn
		for top.Parent() != nil {
			top = top.Parent()
		}
		// only inside Bind methods of pattern types
		if top.Name() != "Bind" || top.Signature.Recv() == nil {
			continue
		}
		rt := top.Signature.Recv().Type()
		if !(types.Implements(rt, it) || types.Implements(types.NewPointer(rt), it)) {
			continue
		}
		n := c.Call.Signature().Results().Len()
		scopeEx := extractOf(c, n-2)
		if scopeEx == nil {
			continue
		}
		// follow the scope through phis to call arguments
		seen := map[ssa.Value]bool{}
		var visit func(v ssa.Value)
		visit = func(v ssa.Value) {
			if seen[v] || v.Referrers() == nil {
				return
			}
			seen[v] = true
			for _, ref := range *v.Referrers() {
				switch u := ref.(type) {
				case *ssa.Phi:
					visit(u)
				case *ssa.Call:
					callee := u.Call.StaticCallee()
					if callee == nil || callee.Signature.Recv() == nil || !strings.HasSuffix(callee.Signature.Recv().Type().String(), "rel.Scope") {
						continue
					}
					key := "merge@" + FnName(top) + "#" + callee.Name()
					ord[key]++
					if ord[key] > 1 {
						key = fmt.Sprintf("%s~%d", key, ord[key])
					}
					r.Fn(FnName(top))
					switch callee.Name() {
					case "MatchedUpdate", "MatchedWith":
						ok, why := errPropagated(u)
						r.Check(ok, key, "merged with agreement check, error propagated", fmt.Sprintf("%s merges sub-pattern bindings through %s but drops its error (%s): disagreeing repeated names go unnoticed", FnName(top), callee.Name(), why), u.Pos())
					case "Update", "With":
						r.Viol(key, fmt.Sprintf("%s merges the bindings of a sub-pattern into the accumulated scope with Scope.%s: a name bound twice to different values silently keeps the later one instead of failing the match", FnName(top), callee.Name()), u.Pos())
					}
				}
			}
		}
		visit(scopeEx)
	}
}

func ruleExtensionalAgreement(p *Program, r *Report) {
	r.Begin("R09c", "agreement on repeated names is extensional: in Scope.MatchedUpdate / MatchedWith the branch that rejects a name bound twice must depend on Value.Equal; a decision that depends only on String() results is not injective (the string \"1\" and the number 1 print alike)", 1)
	defer r.End()
	n := 0
	for _, name := range []string{"MatchedUpdate", "MatchedWith"} {
		fn := p.Method("rel", "Scope", name)
		if fn == nil {
			continue
		}
		r.Fn(FnName(fn))
		for _, b := range fn.Blocks {
			cond := IfCond(b)
			if cond == nil {
				continue
			}
			rejects := false
			for _, s := range b.Succs {
				if ok, _ := endsInErrorReturn(s); ok {
					rejects = true
				}
			}
			if !rejects {
				continue
			}
			usesEqual := DependsOn(cond, func(v ssa.Value) bool {
				c, ok := v.(*ssa.Call)
				return ok && c.Call.IsInvoke() && (c.Call.Method.Name() == "Equal")
			})
			usesString := DependsOn(cond, func(v ssa.Value) bool {
				c, ok := v.(*ssa.Call)
				return ok && c.Call.IsInvoke() && c.Call.Method.Name() == "String"
			})
			if !usesEqual && !usesString {
				continue
			}
			n++
			r.Check(usesEqual, "agreement@"+name, "repeated names are compared with Equal", fmt.Sprintf("Scope.%s decides whether two bindings of one name agree by comparing their String() forms: distinct values that print alike (1 and \"1\") are accepted as equal", name), b.Instrs[len(b.Instrs)-1].Pos())
		}
	}
	if n == 0 {
		r.Undecided("sites", "no agreement test found in Scope.MatchedUpdate / MatchedWith", 0)
	}
}
