package main

import (
	"fmt"
	"go/types"
	"sort"
	"strings"

	"golang.org/x/tools/go/ssa"
)

func init() {
	register("C09",
		Rule{"R09a", ruleBindErrorDiscipline},
		Rule{"R09b", ruleBindMergeDiscipline},
		Rule{"R09c", ruleExtensionalAgreement},
	)
}

// bindCalls lists the calls of Pattern.Bind (invoke on rel.Pattern or static calls of Bind methods of pattern types).
func bindCalls(p *Program) []*ssa.Call {
	pat := p.NamedType("rel", "Pattern")
	if pat == nil {
		return nil
	}
	it := pat.Underlying().(*types.Interface)
	var out []*ssa.Call
	for _, fn := range p.RepoFns {
		ForEachInstr(fn, func(ins ssa.Instruction) {
			c, ok := ins.(*ssa.Call)
			if !ok {
				return
			}
			if c.Call.IsInvoke() {
				if c.Call.Method.Name() == "Bind" && types.Implements(c.Call.Value.Type(), it) {
					out = append(out, c)
				}
				return
			}
			if callee := c.Call.StaticCallee(); callee != nil && callee.Name() == "Bind" && callee.Signature.Recv() != nil {
				rt := callee.Signature.Recv().Type()
				if types.Implements(rt, it) || types.Implements(types.NewPointer(rt), it) {
					out = append(out, c)
				} else if res := callee.Signature.Results(); res.Len() == 3 && isErrorType(res.At(2).Type()) && strings.HasSuffix(res.At(1).Type().String(), "rel.Scope") && InRepo(callee) {
					// a Bind method with the pattern signature on a type that is not itself a Pattern (FallbackPattern)
					out = append(out, c)
				}
			}
		})
	}
	return out
}

func extractOf(c *ssa.Call, idx int) *ssa.Extract {
	for _, ref := range *c.Referrers() {
		if ex, ok := ref.(*ssa.Extract); ok && ex.Index == idx {
			return ex
		}
	}
	return nil
}

func ruleBindErrorDiscipline(p *Program, r *Report) {
	r.Begin("R09a", "Bind-error discipline: at every call of Pattern.Bind the returned error is either passed through unchanged together with the other results (return p.Bind(…)) or tested, and the bound scope is used only on the branch where the error is nil — a failed match never contributes bindings", 12)
	defer r.End()
	ord := map[string]int{}
	for _, c := range bindCalls(p) {
		fn := c.Parent()
		r.Fn(FnName(fn))
		key := "bind@" + FnName(fn)
		ord[key]++
		if ord[key] > 1 {
			key = fmt.Sprintf("%s~%d", key, ord[key])
		}
		n := c.Call.Signature().Results().Len()
		errEx := extractOf(c, n-1)
		scopeEx := extractOf(c, n-2)
		// pass-through: the call's tuple is returned whole
		passThrough := false
		for _, ref := range *c.Referrers() {
			if _, ok := ref.(*ssa.Return); ok {
				passThrough = true
			}
		}
		if passThrough {
			r.OK(key, "results returned unchanged", c.Pos())
			continue
		}
		if errEx == nil {
			r.Viol(key, fmt.Sprintf("%s ignores the error returned by Bind: a value that does not match the pattern is treated as matched", FnName(fn)), c.Pos())
			continue
		}
		// all results returned positionally (return ctx, scope, err) is also a pass-through
		allReturned := false
		for _, ref := range *errEx.Referrers() {
			if ret, ok := ref.(*ssa.Return); ok && scopeEx != nil {
				for _, rv := range ret.Results {
					if rv == ssa.Value(scopeEx) {
						allReturned = true
					}
				}
			}
		}
		// the If testing the error
		var nilSucc *ssa.BasicBlock
		errVals := []ssa.Value{errEx}
		for _, ref := range *errEx.Referrers() {
			if ph, ok := ref.(*ssa.Phi); ok {
				errVals = append(errVals, ph) // the error joins another branch's error before it is tested
			}
		}
		for _, ev := range errVals {
			for _, ref := range *ev.Referrers() {
				bo, ok := ref.(*ssa.BinOp)
				if !ok {
					continue
				}
				for _, r2 := range *bo.Referrers() {
					if iff, ok := r2.(*ssa.If); ok {
						if _, nonNil, is := ErrNonNilBranch(iff.Cond); is && nilSucc == nil {
							nilSucc = iff.Block().Succs[1-nonNil]
						}
					}
				}
			}
		}
		if nilSucc == nil {
			if allReturned {
				r.OK(key, "results returned together with the error", c.Pos())
			} else {
				r.Viol(key, fmt.Sprintf("%s never tests the error returned by Bind", FnName(fn)), c.Pos())
			}
			continue
		}
		bad := false
		if scopeEx != nil {
			for _, ref := range *scopeEx.Referrers() {
				if _, isDbg := ref.(*ssa.DebugRef); isDbg {
					continue
				}
				if ret, isRet := ref.(*ssa.Return); isRet && !nilSucc.Dominates(ret.Block()) {
					continue // returned alongside the non-nil error: callers apply the same rule
				}
				if ph, isPhi := ref.(*ssa.Phi); isPhi {
					_ = ph
					continue
				}
				if !(nilSucc == ref.Block() || nilSucc.Dominates(ref.Block())) {
					bad = true
				}
			}
		}
		r.Check(!bad, key, "scope used only when the error is nil", fmt.Sprintf("%s uses the scope produced by Bind on a path where its error may be non-nil: bindings of a failed match leak into the result", FnName(fn)), c.Pos())
		// the context a Bind returns carries dynamic (@{name}) bindings; composite patterns return it "as modified so
		// far" even when they fail, so like the scope it may flow on only where the error is nil (returning it next to
		// the error hands the same obligation to the caller)
		if ctxEx := extractOf(c, 0); ctxEx != nil && strings.HasSuffix(ctxEx.Type().String(), "context.Context") {
			badCtx := false
			seenCtx := map[ssa.Value]bool{}
			var follow func(v ssa.Value, depth int)
			follow = func(v ssa.Value, depth int) {
				if seenCtx[v] || depth > 4 || v.Referrers() == nil {
					return
				}
				seenCtx[v] = true
				for _, ref := range *v.Referrers() {
					switch u := ref.(type) {
					case *ssa.DebugRef:
					case *ssa.Return:
					case *ssa.Phi:
						onNil := true
						for i, e := range u.Edges {
							if e == v {
								pred := u.Block().Preds[i]
								if !(pred == nilSucc || nilSucc.Dominates(pred)) {
									onNil = false
								}
							}
						}
						if !onNil {
							// joined with another branch before the (joined) error is tested: judge the joined value
							follow(u, depth+1)
						}
					default:
						if !(nilSucc == ref.Block() || nilSucc.Dominates(ref.Block())) {
							badCtx = true
						}
					}
				}
			}
			follow(ctxEx, 0)
			r.Check(!badCtx, strings.Replace(key, "bind@", "bind-ctx@", 1), "context used only when the error is nil", fmt.Sprintf("%s carries on with the context returned by a Bind that may have failed: dynamic bindings (@{name}) made by the components of a pattern that matched before a later component failed leak into what is evaluated next (the following cond arm)", FnName(fn)), c.Pos())
		}
	}
}

func ruleBindMergeDiscipline(p *Program, r *Report) {
	r.Begin("R09b", "merge discipline: inside the Bind method of a composite pattern (one that binds sub-patterns), a scope produced by a sub-pattern's Bind is combined with the accumulated scope only through MatchedUpdate / MatchedWith (which reject a repeated name bound to a different value, and whose error is propagated) — never through Update / With, which silently let the later binding win", 4)
	defer r.End()
	pat := p.NamedType("rel", "Pattern")
	if pat == nil {
		r.Undecided("anchor", "rel.Pattern not found", 0)
		return
	}
	it := pat.Underlying().(*types.Interface)
	ord := map[string]int{}
	// pattern-internal code: the Bind methods of pattern types and the package-local helpers they call statically
	// (a merge step extracted into a named function is still a merge step of that pattern)
	inPattern := map[*ssa.Function]bool{}
	var work []*ssa.Function
	for _, fn := range p.RepoFns {
		if fn.Parent() != nil || fn.Name() != "Bind" || fn.Signature.Recv() == nil {
			continue
		}
		rt := fn.Signature.Recv().Type()
		if types.Implements(rt, it) || types.Implements(types.NewPointer(rt), it) {
			inPattern[fn] = true
			work = append(work, fn)
		}
	}
	for len(work) > 0 {
		fn := work[0]
		work = work[1:]
		fs := append([]*ssa.Function{fn}, Closures(fn)...)
		for _, f := range fs {
			ForEachInstr(f, func(ins ssa.Instruction) {
				c, ok := ins.(ssa.CallInstruction)
				if !ok {
					return
				}
				g := c.Common().StaticCallee()
				if g == nil || g.Pkg != fn.Pkg || g.Blocks == nil || inPattern[g] || g.Name() == "Eval" || g.Name() == "Bind" {
					return
				}
				if rc := g.Signature.Recv(); rc != nil && strings.HasSuffix(rc.Type().String(), "rel.Scope") {
					return
				}
				inPattern[g] = true
				work = append(work, g)
			})
		}
	}
	{
		var ns []string
		for f := range inPattern {
			ns = append(ns, FnName(f))
		}
		sort.Strings(ns)
		r.Notes = append(r.Notes, "pattern-internal functions: "+strings.Join(ns, " "))
	}
	// scope producers: Bind calls, and calls of pattern-internal helpers that hand back (…, Scope, error)
	producers := bindCalls(p)
	isProducer := map[*ssa.Call]bool{}
	for _, c := range producers {
		isProducer[c] = true
	}
	for fn := range inPattern {
		for _, f := range append([]*ssa.Function{fn}, Closures(fn)...) {
			ForEachInstr(f, func(ins ssa.Instruction) {
				c, ok := ins.(*ssa.Call)
				if !ok || isProducer[c] {
					return
				}
				g := c.Call.StaticCallee()
				if g == nil || !inPattern[g] {
					return
				}
				res := g.Signature.Results()
				if res.Len() >= 2 && isErrorType(res.At(res.Len()-1).Type()) && strings.HasSuffix(res.At(res.Len()-2).Type().String(), "rel.Scope") {
					isProducer[c] = true
					producers = append(producers, c)
				}
			})
		}
	}
	sort.Slice(producers, func(i, j int) bool { return producers[i].Pos() < producers[j].Pos() })
	for _, c := range producers {
		fn := c.Parent()
		top := fn
		for top.Parent() != nil {
			top = top.Parent()
		}
		if !inPattern[top] {
			continue
		}
		n := c.Call.Signature().Results().Len()
		scopeEx := extractOf(c, n-2)
		if scopeEx == nil {
			continue
		}
		// follow the scope through phis to call arguments
		seen := map[ssa.Value]bool{}
		var visit func(v ssa.Value)
		visit = func(v ssa.Value) {
			if seen[v] || v.Referrers() == nil {
				return
			}
			seen[v] = true
			for _, ref := range *v.Referrers() {
				switch u := ref.(type) {
				case *ssa.Phi:
					visit(u)
				case *ssa.Call:
					callee := u.Call.StaticCallee()
					if callee == nil || callee.Signature.Recv() == nil || !strings.HasSuffix(callee.Signature.Recv().Type().String(), "rel.Scope") {
						continue
					}
					key := "merge@" + FnName(top) + "#" + callee.Name()
					ord[key]++
					if ord[key] > 1 {
						key = fmt.Sprintf("%s~%d", key, ord[key])
					}
					r.Fn(FnName(top))
					switch callee.Name() {
					case "MatchedUpdate", "MatchedWith":
						ok, why := errPropagated(u)
						r.Check(ok, key, "merged with agreement check, error propagated", fmt.Sprintf("%s merges sub-pattern bindings through %s but drops its error (%s): disagreeing repeated names go unnoticed", FnName(top), callee.Name(), why), u.Pos())
					case "Update", "With":
						r.Viol(key, fmt.Sprintf("%s merges the bindings of a sub-pattern into the accumulated scope with Scope.%s: a name bound twice to different values silently keeps the later one instead of failing the match", FnName(top), callee.Name()), u.Pos())
					}
				}
			}
		}
		visit(scopeEx)
	}
}

func ruleExtensionalAgreement(p *Program, r *Report) {
	r.Begin("R09c", "agreement on repeated names is extensional: in Scope.MatchedUpdate / MatchedWith the branch that rejects a name bound twice must depend on Value.Equal; a decision that depends only on String() results is not injective (the string \"1\" and the number 1 print alike)", 1)
	defer r.End()
	n := 0
	for _, name := range []string{"MatchedUpdate", "MatchedWith"} {
		fn := p.Method("rel", "Scope", name)
		if fn == nil {
			continue
		}
		r.Fn(FnName(fn))
		for _, b := range fn.Blocks {
			cond := IfCond(b)
			if cond == nil {
				continue
			}
			rejects := false
			for _, s := range b.Succs {
				if ok, _ := endsInErrorReturn(s); ok {
					rejects = true
				}
			}
			if !rejects {
				continue
			}
			usesEqual := DependsOn(cond, func(v ssa.Value) bool {
				c, ok := v.(*ssa.Call)
				return ok && c.Call.IsInvoke() && (c.Call.Method.Name() == "Equal")
			})
			usesString := DependsOn(cond, func(v ssa.Value) bool {
				c, ok := v.(*ssa.Call)
				return ok && c.Call.IsInvoke() && c.Call.Method.Name() == "String"
			})
			if !usesEqual && !usesString {
				continue
			}
			n++
			r.Check(usesEqual, "agreement@"+name, "repeated names are compared with Equal", fmt.Sprintf("Scope.%s decides whether two bindings of one name agree by comparing their String() forms: distinct values that print alike (1 and \"1\") are accepted as equal", name), b.Instrs[len(b.Instrs)-1].Pos())
		}
	}
	if n == 0 {
		r.Undecided("sites", "no agreement test found in Scope.MatchedUpdate / MatchedWith", 0)
	}
}

// R09d: a structural pattern never matches a value of another kind.  For every structural pattern type and every
// value type outside the kinds its syntax denotes, TS-SCCP of Bind with the value's dynamic type fixed must reach no
// return whose error can be nil.  This quantifies over all values of the type at once: a decision that looks at the
// value's content (truthiness, count, printed form) instead of its kind leaves a success return executable.
var patternAccepts = map[string]func(p *Program, T types.Type) bool{
	// `[...]` denotes an array; the empty array is the empty set
	"ArrayPattern": func(p *Program, T types.Type) bool { n := shortT(T); return n == "Array" || n == "EmptySet" },
	// `(a: …)` denotes a tuple
	"TuplePattern": func(p *Program, T types.Type) bool { return implementsNamed(p, T, "Tuple") },
	// `{k: …}` denotes a dictionary; the empty dictionary is the empty set
	"DictPattern": func(p *Program, T types.Type) bool { n := shortT(T); return n == "Dict" || n == "EmptySet" },
	// `{…}` denotes a set of any representation
	"SetPattern": func(p *Program, T types.Type) bool { return implementsNamed(p, T, "Set") },
}

func implementsNamed(p *Program, T types.Type, iface string) bool {
	nt := p.NamedType("rel", iface)
	if nt == nil {
		return true
	}
	it := nt.Underlying().(*types.Interface)
	return types.Implements(T, it)
}

// errOperandMayBeNil classifies the error operand of an executable return.
func errOperandMayBeNil(ret *ssa.Return, idx int) (bool, string) {
	v := RetVal(ret, idx)
	if IsNilConst(v) {
		return true, "returns a nil error"
	}
	isErrCtor := func(c *ssa.Call) bool {
		g := c.Call.StaticCallee()
		if g == nil || g.Pkg == nil {
			return false
		}
		pp := g.Pkg.Pkg.Path()
		return (pp == "fmt" && g.Name() == "Errorf") || (strings.HasSuffix(pp, "errors") && (g.Name() == "New" || g.Name() == "Errorf" || g.Name() == "Wrap" || g.Name() == "Wrapf" || g.Name() == "WithStack"))
	}
	switch x := v.(type) {
	case *ssa.Call:
		if isErrCtor(x) {
			return false, ""
		}
	case *ssa.MakeInterface:
		return false, ""
	}
	// propagated error: the return must sit on the non-nil branch of a test of that value
	b := ret.Block()
	for d := b; d != nil; d = d.Idom() {
		id := d.Idom()
		if id == nil {
			break
		}
		if iff, ok := id.Instrs[len(id.Instrs)-1].(*ssa.If); ok {
			if e, nonNil, is := ErrNonNilBranch(iff.Cond); is && e == v && id.Succs[nonNil] == d && len(d.Preds) == 1 {
				return false, ""
			}
		}
	}
	return true, "returns an error value that is not known to be non-nil"
}

func rulePatternKindDiscrimination(p *Program, r *Report) {
	r.Begin("R09d", "kind discrimination: for every structural pattern (array, tuple, dict, set) and every value type outside the kinds its syntax denotes, Bind — analysed with the value's dynamic type fixed (TS-SCCP, all values of the type at once) — reaches no return whose error can be nil; a decision taken on the value's content (truthiness, count, printed form) instead of its kind leaves a success return executable", 40)
	defer r.End()
	s := relSCCP(p, r)
	var names []string
	for n := range patternAccepts {
		names = append(names, n)
	}
	sortStrings(names)
	for _, pn := range names {
		fn := p.Method("rel", pn, "Bind")
		if fn == nil {
			r.Undecided("anchor@"+pn, "rel."+pn+".Bind not found", 0)
			continue
		}
		r.Fn(FnName(fn))
		nres := fn.Signature.Results().Len()
		for _, T := range p.ValueTypes() {
			if patternAccepts[pn](p, T) {
				continue
			}
			key := fmt.Sprintf("rejects@%s×%s", pn, shortT(T))
			args := make([]AVal, len(fn.Params))
			for i := range args {
				args[i] = VTop
			}
			args[len(args)-1] = DynCtx(T)
			res := s.Analyze(fn, args)
			if res == nil || res.Unknown {
				r.Undecided(key, "Bind not analysable in this context", fn.Pos())
				continue
			}
			if res.Panics {
				r.Viol(key, fmt.Sprintf("%s.Bind definitely panics on a %s value instead of reporting a failed match", pn, shortT(T)), fn.Pos())
				continue
			}
			bad := ""
			var badPos = fn.Pos()
			for _, b := range fn.Blocks {
				if !res.Exec[b] {
					continue
				}
				ret, ok := b.Instrs[len(b.Instrs)-1].(*ssa.Return)
				if !ok || len(ret.Results) != nres {
					continue
				}
				if may, why := errOperandMayBeNil(ret, nres-1); may {
					bad, badPos = why, ret.Pos()
				}
			}
			r.Check(bad == "", key, "every executable return carries a non-nil error", fmt.Sprintf("%s.Bind can succeed on a value of type %s (%s on a path that is executable for that type): a near-miss of the wrong kind matches, and a cond arm written for another kind is taken", pn, shortT(T), bad), badPos)
		}
	}
}

func sortStrings(s []string) {
	for i := 1; i < len(s); i++ {
		for j := i; j > 0 && s[j] < s[j-1]; j-- {
			s[j], s[j-1] = s[j-1], s[j]
		}
	}
}

func init() { register("C09", Rule{"R09d", rulePatternKindDiscrimination}) }

// R09e: `...rest` is bound to what is left after *all* explicit components were taken.  A composite pattern walks
// its components and removes each matched one from a running remainder.  Binding the rest pattern inside that walk,
// with the running remainder as it stands, makes the capture depend on where `...rest` was written: components that
// follow it are still in it.  Array, tuple and set patterns bind the rest after the walk; a Bind of an
// ExtraElementPattern component inside the walk, fed from the loop-carried remainder, is a violation.
func ruleRestBoundAfterWalk(p *Program, r *Report) {
	r.Begin("R09e", "rest after the walk: in the Bind method of a composite pattern, no sub-pattern Bind that sits on the is-ExtraElementPattern branch inside the loop over the pattern's components takes a value derived from a loop-carried remainder of that loop — `...rest` captures precisely the unmatched remainder only if every explicit component, also those written after it, has been removed first", 3)
	defer r.End()
	pat := p.NamedType("rel", "Pattern")
	if pat == nil {
		r.Undecided("anchor", "rel.Pattern not found", 0)
		return
	}
	it := pat.Underlying().(*types.Interface)
	n := 0
	isBindCall := func(c *ssa.Call) bool {
		if c.Call.IsInvoke() {
			return c.Call.Method.Name() == "Bind"
		}
		g := c.Call.StaticCallee()
		return g != nil && g.Name() == "Bind"
	}
	// bindParams(h): parameters of a package-local helper whose value reaches the value argument of a sub-pattern
	// Bind inside it (directly or through a further helper)
	var bindParams func(h *ssa.Function, depth int) map[int]bool
	bindParams = func(h *ssa.Function, depth int) map[int]bool {
		out := map[int]bool{}
		if h == nil || h.Blocks == nil || depth > 2 {
			return out
		}
		var body []*ssa.Function
		allFuncs(h, &body)
		for _, g := range body {
			ForEachInstr(g, func(ins ssa.Instruction) {
				c, ok := ins.(*ssa.Call)
				if !ok || len(c.Call.Args) == 0 {
					return
				}
				var vals []ssa.Value
				if isBindCall(c) {
					vals = append(vals, c.Call.Args[len(c.Call.Args)-1])
				} else if k := c.Call.StaticCallee(); k != nil && k.Pkg == h.Pkg && k != h && k.Name() != "Bind" {
					for i := range bindParams(k, depth+1) {
						if i < len(c.Call.Args) {
							vals = append(vals, c.Call.Args[i])
						}
					}
				}
				for _, v := range vals {
					for i, q := range h.Params {
						if DependsOn(v, func(x ssa.Value) bool { return x == ssa.Value(q) }) {
							out[i] = true
						}
					}
				}
			})
		}
		return out
	}
	type bindSite struct {
		call *ssa.Call
		val  ssa.Value
	}
	// analyse one function of a pattern's body: (has a bind site, has a violation)
	analyse := func(top, fn *ssa.Function) (bool, bool) {
		var binds []bindSite
		ForEachInstr(fn, func(ins ssa.Instruction) {
			c, ok := ins.(*ssa.Call)
			if !ok || len(c.Call.Args) == 0 {
				return
			}
			if isBindCall(c) {
				binds = append(binds, bindSite{c, c.Call.Args[len(c.Call.Args)-1]})
				return
			}
			if h := c.Call.StaticCallee(); h != nil && h.Pkg == fn.Pkg && h.Name() != "Bind" && h.Blocks != nil {
				for i := range bindParams(h, 0) {
					if i < len(c.Call.Args) {
						binds = append(binds, bindSite{c, c.Call.Args[i]})
					}
				}
			}
		})
		if len(binds) == 0 {
			return false, false
		}
		bad := false
		// blocks that are exclusively on the rest branch: dominated by the true successor of an
		// is-ExtraElementPattern test
		var restHeads []*ssa.BasicBlock
		for _, blk := range fn.Blocks {
			cond := IfCond(blk)
			if cond == nil {
				continue
			}
			if DependsOn(cond, func(x ssa.Value) bool {
				ta, ok := x.(*ssa.TypeAssert)
				return ok && strings.HasSuffix(ta.AssertedType.String(), "ExtraElementPattern")
			}) && len(blk.Succs[0].Preds) == 1 {
				restHeads = append(restHeads, blk.Succs[0])
			}
		}
		onRest := func(blk *ssa.BasicBlock) bool {
			for _, h := range restHeads {
				if h == blk || h.Dominates(blk) {
					return true
				}
			}
			return false
		}
		loopState := func(v ssa.Value, at *ssa.BasicBlock) bool {
			return DependsOn(v, func(x ssa.Value) bool {
				ph, ok := x.(*ssa.Phi)
				if !ok {
					return false
				}
				// the remainder is a collection (set, map, frozen map …); positions and counters of ordered
				// patterns (arrays) are not remainders
				if bt, isBasic := ph.Type().Underlying().(*types.Basic); isBasic && bt.Info()&(types.IsNumeric|types.IsBoolean|types.IsString) != 0 {
					return false
				}
				if strings.HasSuffix(ph.Type().String(), "rel.Value") || strings.HasSuffix(ph.Type().String(), "rel.Scope") || strings.HasSuffix(ph.Type().String(), "context.Context") {
					return false // the value being bound / the accumulated bindings, not a remainder
				}
				// loop-carried: the phi sits at a loop header (one of its edges is a back edge) of a loop containing the call
				header := false
				for _, pr := range ph.Block().Preds {
					if ph.Block().Dominates(pr) {
						header = true
					}
				}
				return header && Reaches(ph.Block(), at, false) && Reaches(at, ph.Block(), false)
			})
		}
		for _, bs := range binds {
			c := bs.call
			if !Reaches(c.Block(), c.Block(), false) {
				continue // not inside a loop
			}
			val := bs.val
			type cand struct {
				v   ssa.Value
				blk *ssa.BasicBlock
			}
			cands := []cand{{val, c.Block()}}
			if ph, isPhi := val.(*ssa.Phi); isPhi {
				cands = nil
				for i, e := range ph.Edges {
					cands = append(cands, cand{e, ph.Block().Preds[i]})
				}
			}
			for _, cd := range cands {
				if onRest(cd.blk) && loopState(cd.v, c.Block()) {
					bad = true
					r.Viol("rest@"+FnName(top), fmt.Sprintf("%s binds its `...rest` component inside the walk over the pattern's components, from the remainder as it stands at that point: components written after `...rest` are still part of what it captures (`let {...t, k: x} = …` binds t to the whole value)", FnName(fn)), c.Pos())
				}
			}
		}
		return true, bad
	}
	for _, fn := range p.RepoFns {
		if fn.Parent() != nil || fn.Name() != "Bind" || fn.Signature.Recv() == nil || fn.Synthetic != "" {
			continue
		}
		rt := fn.Signature.Recv().Type()
		if !(types.Implements(rt, it) || types.Implements(types.NewPointer(rt), it)) {
			continue
		}
		// the pattern's body: the method, and the package-local helpers the walk was moved into
		body := []*ssa.Function{fn}
		seenB := map[*ssa.Function]bool{fn: true}
		for i := 0; i < len(body) && i < 12; i++ {
			ForEachInstr(body[i], func(ins ssa.Instruction) {
				if c, ok := ins.(*ssa.Call); ok {
					if h := c.Call.StaticCallee(); h != nil && h.Pkg == fn.Pkg && h.Name() != "Bind" && h.Blocks != nil && !seenB[h] && len(bindParams(h, 0)) > 0 {
						seenB[h] = true
						body = append(body, h)
					}
				}
			})
		}
		has, bad := false, false
		for _, f := range body {
			h2, b2 := analyse(fn, f)
			has = has || h2
			bad = bad || b2
		}
		if !has {
			continue
		}
		n++
		r.Fn(FnName(fn))
		if !bad {
			r.OK("rest@"+FnName(fn), "no rest binding inside the walk from the running remainder", fn.Pos())
		}
	}
	if n == 0 {
		r.Undecided("sites", "no composite pattern Bind method found", 0)
	}
}

func init() { register("C09", Rule{"R09e", ruleRestBoundAfterWalk}) }
