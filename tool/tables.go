package main

import (
	"fmt"
	"go/ast"
	"go/constant"
	"go/token"
	"go/types"
	"regexp/syntax"
	"sort"
	"strings"
	"unicode/utf8"

	"golang.org/x/tools/go/packages"
)

// PkgSyntax returns the go/packages package "rel", "syntax", … of the module.
func (p *Program) PkgSyntax(rel string) *packages.Package {
	if rel == "" {
		return p.PkgByPath[Mod]
	}
	return p.PkgByPath[Mod+"/"+rel]
}

// MapLiteral finds the package-level variable `name` in package pkg that is initialised with a map
// composite literal and returns its constant string keys with their value expressions.
func (p *Program) MapLiteral(pkg, name string) (map[string]ast.Expr, *ast.CompositeLit, types.Object, error) {
	pk := p.PkgSyntax(pkg)
	if pk == nil {
		return nil, nil, nil, fmt.Errorf("package %s not loaded", pkg)
	}
	obj := pk.Types.Scope().Lookup(name)
	if obj == nil {
		return nil, nil, nil, fmt.Errorf("%s.%s not found", pkg, name)
	}
	for _, f := range pk.Syntax {
		for _, d := range f.Decls {
			gd, ok := d.(*ast.GenDecl)
			if !ok || gd.Tok != token.VAR {
				continue
			}
			for _, s := range gd.Specs {
				vs := s.(*ast.ValueSpec)
				for i, n := range vs.Names {
					if pk.TypesInfo.Defs[n] != obj || i >= len(vs.Values) {
						continue
					}
					cl, ok := vs.Values[i].(*ast.CompositeLit)
					if !ok {
						return nil, nil, obj, fmt.Errorf("%s.%s is not initialised with a composite literal", pkg, name)
					}
					out := map[string]ast.Expr{}
					for _, e := range cl.Elts {
						kv, ok := e.(*ast.KeyValueExpr)
						if !ok {
							return nil, nil, obj, fmt.Errorf("%s.%s: non key-value element", pkg, name)
						}
						tv := pk.TypesInfo.Types[kv.Key]
						if tv.Value == nil || tv.Value.Kind() != constant.String {
							return nil, nil, obj, fmt.Errorf("%s.%s: non-constant key at %s", pkg, name, p.Pos(kv.Key.Pos()))
						}
						k := constant.StringVal(tv.Value)
						if _, dup := out[k]; dup {
							return nil, nil, obj, fmt.Errorf("%s.%s: duplicate key %q", pkg, name, k)
						}
						out[k] = kv.Value
					}
					return out, cl, obj, nil
				}
			}
		}
	}
	return nil, nil, obj, fmt.Errorf("%s.%s: no initialiser found", pkg, name)
}

// ConstString returns the constant string value of an expression, if any.
func ConstString(info *types.Info, e ast.Expr) (string, bool) {
	tv, ok := info.Types[e]
	if !ok || tv.Value == nil || tv.Value.Kind() != constant.String {
		return "", false
	}
	return constant.StringVal(tv.Value), true
}

// FuncDecls iterates over all function declarations of a package.
func FuncDecls(pk *packages.Package, f func(fd *ast.FuncDecl)) {
	for _, file := range pk.Syntax {
		for _, d := range file.Decls {
			if fd, ok := d.(*ast.FuncDecl); ok && fd.Body != nil {
				f(fd)
			}
		}
	}
}

// FuncDeclName renders "Recv.Name" or "Name".
func FuncDeclName(fd *ast.FuncDecl) string {
	if fd.Recv != nil && len(fd.Recv.List) == 1 {
		t := fd.Recv.List[0].Type
		if s, ok := t.(*ast.StarExpr); ok {
			t = s.X
		}
		if ix, ok := t.(*ast.IndexExpr); ok {
			t = ix.X
		}
		if id, ok := t.(*ast.Ident); ok {
			return id.Name + "." + fd.Name.Name
		}
	}
	return fd.Name.Name
}

// EnumerateRegex enumerates the finite language of a regular expression; it fails on unbounded forms.
func EnumerateRegex(re string) ([]string, error) {
	// wbnf regexes ignore literal whitespace
	re = strings.Map(func(r rune) rune {
		if r == ' ' || r == '\n' || r == '\t' {
			return -1
		}
		return r
	}, re)
	r, err := syntax.Parse(re, syntax.Perl)
	if err != nil {
		return nil, err
	}
	set, err := enumRe(r)
	if err != nil {
		return nil, err
	}
	var out []string
	for s := range set {
		out = append(out, s)
	}
	sort.Strings(out)
	return out, nil
}

func enumRe(r *syntax.Regexp) (map[string]bool, error) {
	switch r.Op {
	case syntax.OpEmptyMatch:
		return map[string]bool{"": true}, nil
	case syntax.OpLiteral:
		return map[string]bool{string(r.Rune): true}, nil
	case syntax.OpCharClass:
		out := map[string]bool{}
		n := 0
		for i := 0; i+1 < len(r.Rune); i += 2 {
			for c := r.Rune[i]; c <= r.Rune[i+1]; c++ {
				n++
				if n > 64 {
					return nil, fmt.Errorf("character class too large in operator regex")
				}
				out[string(c)] = true
			}
		}
		return out, nil
	case syntax.OpCapture:
		return enumRe(r.Sub[0])
	case syntax.OpQuest:
		s, err := enumRe(r.Sub[0])
		if err != nil {
			return nil, err
		}
		s[""] = true
		return s, nil
	case syntax.OpAlternate:
		out := map[string]bool{}
		for _, sub := range r.Sub {
			s, err := enumRe(sub)
			if err != nil {
				return nil, err
			}
			for k := range s {
				out[k] = true
			}
		}
		return out, nil
	case syntax.OpConcat:
		out := map[string]bool{"": true}
		for _, sub := range r.Sub {
			s, err := enumRe(sub)
			if err != nil {
				return nil, err
			}
			nw := map[string]bool{}
			for a := range out {
				for b := range s {
					nw[a+b] = true
				}
			}
			if len(nw) > 4096 {
				return nil, fmt.Errorf("operator language too large")
			}
			out = nw
		}
		return out, nil
	}
	return nil, fmt.Errorf("unbounded or unsupported regex form %v in operator regex", r.Op)
}

// GrammarTerm extracts, from wbnf grammar text, the languages of every occurrence of the named term
// `label=TERM` and of the rule `label -> TERM;`.  TERM may be a regex /{…}, a string literal, or an
// alternation of string literals (optionally parenthesised).  It returns the union language.
func GrammarTerm(grammar, label string) ([]string, int, error) {
	lang := map[string]bool{}
	occ := 0
	addTerm := func(rest string) error {
		rest = strings.TrimLeft(rest, " \t\n")
		switch {
		case strings.HasPrefix(rest, "/{"):
			end := -1
			for i := 2; i < len(rest); i++ {
				if rest[i] == '\\' {
					i++
					continue
				}
				if rest[i] == '}' {
					end = i
					break
				}
			}
			if end < 0 {
				return fmt.Errorf("unterminated regex for %s", label)
			}
			ws, err := EnumerateRegex(rest[2:end])
			if err != nil {
				return fmt.Errorf("%s: %w", label, err)
			}
			for _, w := range ws {
				lang[w] = true
			}
			return nil
		case strings.HasPrefix(rest, `"`) || strings.HasPrefix(rest, "("):
			// an alternation of string literals, optionally parenthesised
			i := 0
			paren := false
			if rest[0] == '(' {
				paren = true
				i = 1
			}
			n := 0
			for {
				for i < len(rest) && (rest[i] == ' ' || rest[i] == '\t' || rest[i] == '\n') {
					i++
				}
				if i >= len(rest) || rest[i] != '"' {
					return fmt.Errorf("%s: alternative %q is not a string literal", label, firstN(rest[min(i, len(rest)):], 12))
				}
				j := i + 1
				var sb strings.Builder
				for j < len(rest) && rest[j] != '"' {
					if rest[j] == '\\' && j+1 < len(rest) {
						j++
					}
					sb.WriteByte(rest[j])
					j++
				}
				if j >= len(rest) {
					return fmt.Errorf("unterminated string for %s", label)
				}
				lang[sb.String()] = true
				n++
				i = j + 1
				for i < len(rest) && (rest[i] == ' ' || rest[i] == '\t' || rest[i] == '\n') {
					i++
				}
				if i < len(rest) && rest[i] == '|' {
					i++
					continue
				}
				if paren && (i >= len(rest) || rest[i] != ')') {
					return fmt.Errorf("%s: parenthesised term is not a plain alternation of string literals", label)
				}
				break
			}
			return nil
		}
		return fmt.Errorf("%s: unrecognised term form %q", label, firstN(rest, 20))
	}
	// named terms
	idx := 0
	for {
		i := strings.Index(grammar[idx:], label+"=")
		if i < 0 {
			break
		}
		i += idx
		idx = i + len(label) + 1
		if i > 0 && isIdentByte(grammar[i-1]) {
			continue
		}
		occ++
		if err := addTerm(grammar[idx:]); err != nil {
			return nil, occ, err
		}
	}
	// rule form
	for _, line := range strings.Split(grammar, "\n") {
		t := strings.TrimSpace(line)
		if strings.HasPrefix(t, label) {
			rest := strings.TrimSpace(t[len(label):])
			if strings.HasPrefix(rest, "->") {
				occ++
				body := strings.TrimSuffix(strings.TrimSpace(rest[2:]), ";")
				if err := addTerm(body); err != nil {
					return nil, occ, err
				}
			}
		}
	}
	var out []string
	for k := range lang {
		out = append(out, k)
	}
	sort.Strings(out)
	return out, occ, nil
}

func isIdentByte(b byte) bool {
	return b == '_' || b >= '0' && b <= '9' || b >= 'a' && b <= 'z' || b >= 'A' && b <= 'Z'
}

func firstN(s string, n int) string {
	if len(s) <= n {
		return s
	}
	for !utf8.RuneStart(s[n]) {
		n--
	}
	return s[:n]
}

// SortedKeys of a string-keyed map.
func SortedKeys[V any](m map[string]V) []string {
	var out []string
	for k := range m {
		out = append(out, k)
	}
	sort.Strings(out)
	return out
}
