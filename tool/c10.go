package main

import (
	"fmt"
	"go/types"
	"sort"
	"strings"

	"golang.org/x/tools/go/ssa"
)

func init() {
	register("C10",
		Rule{"R10a", func(p *Program, r *Report) { ruleOpTablesNamed(p, r, "R10a") }},
		Rule{"R10b", ruleUninhabitedAssert},
		Rule{"R10c", rulePanicStubs},
		Rule{"R10e", ruleRecoverBoundaries},
		Rule{"R10f", func(p *Program, r *Report) { ruleCondProtocolNamed(p, r, "R10f") }},
	)
}

func ruleUninhabitedAssert(p *Program, r *Report) {
	r.Begin("R10b", "uninhabited assertion: a non-comma-ok type assertion, in module code, to a concrete type that no MakeInterface instruction of the whole program ever converts to an interface can never succeed — it panics whenever it is reached", 300)
	defer r.End()
	inh := p.InhabitedTypes()
	n := 0
	for _, fn := range p.RepoFns {
		ord := map[string]int{}
		ForEachInstr(fn, func(ins ssa.Instruction) {
			ta, ok := ins.(*ssa.TypeAssert)
			if !ok || ta.CommaOk || types.IsInterface(ta.AssertedType) {
				return
			}
			n++
			if inh[ta.AssertedType.String()] {
				return
			}
			// only module types: assertions to foreign types may be inhabited by code we do not see
			if !strings.Contains(ta.AssertedType.String(), Mod) {
				return
			}
			key := fmt.Sprintf("assert@%s#%s", FnName(fn), TypeName(ta.AssertedType))
			ord[key]++
			if ord[key] > 1 {
				key = fmt.Sprintf("%s~%d", key, ord[key])
			}
			r.Fn(FnName(fn))
			r.Viol(key, fmt.Sprintf("%s asserts its operand to %s, a type that is never stored in an interface anywhere in the program: the assertion panics on every value that reaches it", FnName(fn), TypeName(ta.AssertedType)), ta.Pos())
		})
	}
	for i := 0; i < n; i++ {
		// count every examined assertion as one discharged obligation (keys would be too many to list)
	}
	r.OK("assertions-examined", fmt.Sprintf("%d unchecked assertions to concrete types examined", n), 0)
	r.rules["R10b"].Instances += n
}

func rulePanicStubs(p *Program, r *Report) {
	r.Begin("R10c", "unconditional-panic interface stubs: a method of a rel.Value / rel.Set / rel.Tuple implementer that definitely panics under every context (TS-SCCP with unknown arguments) turns an ordinary operator applied to such a value into a crash; each stub is one obligation", 300)
	defer r.End()
	s := relSCCP(p, r)
	var ifaces []*types.Interface
	for _, n := range []string{"Value", "Set", "Tuple"} {
		if nt := p.NamedType("rel", n); nt != nil {
			ifaces = append(ifaces, nt.Underlying().(*types.Interface))
		}
	}
	seenM := map[string]bool{}
	for _, T := range p.ValueTypes() {
		ms := p.Prog.MethodSets.MethodSet(T)
		for i := 0; i < ms.Len(); i++ {
			sel := ms.At(i)
			name := sel.Obj().Name()
			inIface := false
			for _, it := range ifaces {
				for j := 0; j < it.NumMethods(); j++ {
					if it.Method(j).Name() == name {
						inIface = true
					}
				}
			}
			if !inIface {
				continue
			}
			fn := p.Prog.MethodValue(sel)
			if fn == nil || fn.Blocks == nil || !InRepo(fn) {
				continue
			}
			key := "stub@" + shortT(T) + "." + name
			if seenM[key] {
				continue
			}
			seenM[key] = true
			args := []AVal{RecvCtx(T)}
			res := s.Analyze(fn, args)
			r.Fn(FnName(fn))
			if res != nil && res.Panics && name == "unionSetSubsetBucket" {
				r.OK(key, "intentional assertion: C01/R01a proves it is never executable from the set operators", fn.Pos())
				continue
			}
			if res != nil && res.Panics {
				r.Viol(key, fmt.Sprintf("%s.%s definitely panics for every receiver and argument (%s): the operator that dispatches to it crashes the process instead of reporting an error", shortT(T), name, s.PanicDesc(res)), fn.Pos())
			} else {
				r.OK(key, "not an unconditional panic", fn.Pos())
			}
		}
	}
}

// goroutineRoots: functions that are the top of a goroutine the program starts or is handed by a framework that
// does not recover panics: `go` targets and gRPC service methods.
func goroutineRoots(p *Program) map[*ssa.Function]string {
	roots := map[*ssa.Function]string{}
	for _, fn := range p.RepoFns {
		ForEachInstr(fn, func(ins ssa.Instruction) {
			if g, ok := ins.(*ssa.Go); ok {
				switch v := g.Call.Value.(type) {
				case *ssa.MakeClosure:
					roots[v.Fn.(*ssa.Function)] = "go statement in " + FnName(fn)
				case *ssa.Function:
					if InRepo(v) {
						roots[v] = "go statement in " + FnName(fn)
					}
				}
			}
		})
	}
	// gRPC: methods of types implementing a generated XxxServer interface of a dependency's pb package
	for _, pk := range p.PkgByPath {
		if pk.Types == nil || !strings.Contains(pk.PkgPath, "arr-ai/proto") {
			continue
		}
		sc := pk.Types.Scope()
		for _, name := range sc.Names() {
			tn, ok := sc.Lookup(name).(*types.TypeName)
			if !ok || !strings.HasSuffix(name, "Server") {
				continue
			}
			it, ok := tn.Type().Underlying().(*types.Interface)
			if !ok || it.NumMethods() == 0 {
				continue
			}
			if strings.Contains(name, "_") || strings.HasPrefix(name, "Unsafe") || strings.HasPrefix(name, "Unimplemented") {
				continue
			}
			for _, T := range p.Implementers2(it) {
				for j := 0; j < it.NumMethods(); j++ {
					if m := p.MethodOf(T, it.Method(j).Name()); m != nil && InRepo(m) && m.Blocks != nil {
						roots[m] = "gRPC service method (" + name + ")"
					}
				}
			}
		}
	}
	return roots
}

// Implementers2 lists module types implementing an arbitrary interface.
func (p *Program) Implementers2(it *types.Interface) []types.Type {
	var out []types.Type
	for _, pk := range p.Roots {
		sp := p.SSA[pk.PkgPath]
		if sp == nil {
			continue
		}
		for _, m := range sp.Members {
			tn, ok := m.(*ssa.Type)
			if !ok || types.IsInterface(tn.Type()) {
				continue
			}
			if types.Implements(tn.Type(), it) {
				out = append(out, tn.Type())
			} else if types.Implements(types.NewPointer(tn.Type()), it) {
				out = append(out, types.NewPointer(tn.Type()))
			}
		}
	}
	return out
}

func ruleRecoverBoundaries(p *Program, r *Report) {
	r.Begin("R10e", "recover boundaries: on every goroutine the program starts itself (`go` targets) or is handed by a framework that does not recover (gRPC service methods), each call path from the root to syntax.Compile / an interpreter dispatch (Expr.Eval, Set.CallAll) crosses a function with a deferred recover — otherwise a panic raised by client-supplied text kills the process (net/http recovers per connection and is exempt)", 3)
	defer r.End()
	compile := p.Func("syntax", "Compile")
	roots := goroutineRoots(p)
	var rs []*ssa.Function
	for f := range roots {
		rs = append(rs, f)
	}
	sort.Slice(rs, func(i, j int) bool { return FnName(rs[i]) < FnName(rs[j]) })
	for _, root := range rs {
		r.Fn(FnName(root))
		// DFS through module functions; stop descending at functions that have a recover defer
		type item struct {
			fn   *ssa.Function
			path []string
		}
		seen := map[*ssa.Function]bool{}
		work := []item{{root, []string{FnName(root)}}}
		n := 0
		for len(work) > 0 {
			it := work[len(work)-1]
			work = work[:len(work)-1]
			if seen[it.fn] {
				continue
			}
			seen[it.fn] = true
			if hasRecoverDefer(it.fn) {
				continue
			}
			ord := 0
			ForEachInstr(it.fn, func(ins ssa.Instruction) {
				c, ok := ins.(ssa.CallInstruction)
				if !ok {
					return
				}
				if _, isGo := ins.(*ssa.Go); isGo {
					return
				}
				cc := c.Common()
				danger := ""
				if interpreterDispatch(cc) {
					danger = "interpreter dispatch " + cc.Method.Name()
				} else if compile != nil && cc.StaticCallee() == compile {
					danger = "syntax.Compile"
				}
				if danger != "" {
					n++
					ord++
					r.ViolPath(fmt.Sprintf("unrecovered@%s→%s~%d", FnName(root), strings.ReplaceAll(danger, " ", "_"), n), fmt.Sprintf("%s (%s) reaches %s in %s with no deferred recover on the way: a panic raised while compiling or evaluating client-supplied text ends the whole process", FnName(root), roots[root], danger, FnName(it.fn)), ins.Pos(), it.path)
					return
				}
				for _, t := range p.Callees(c) {
					if t != nil && InRepo(t) && t.Blocks != nil && !seen[t] {
						work = append(work, item{t, append(append([]string{}, it.path...), FnName(t))})
					}
				}
			})
		}
		if n == 0 {
			r.OK("root@"+FnName(root), "every path to the interpreter crosses a recover ("+roots[root]+")", root.Pos())
		}
	}
	if len(rs) < 2 {
		r.Undecided("roots", fmt.Sprintf("only %d goroutine roots found", len(rs)), 0)
	}
}
