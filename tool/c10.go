package main

import (
	"fmt"
	"go/token"
	"go/types"
	"sort"
	"strings"

	"golang.org/x/tools/go/ssa"
)

func init() {
	register("C10",
		Rule{"R10a", func(p *Program, r *Report) { ruleOpTablesNamed(p, r, "R10a") }},
		Rule{"R10b", ruleUninhabitedAssert},
		Rule{"R10c", rulePanicStubs},
		Rule{"R10e", ruleRecoverBoundaries},
		Rule{"R10f", func(p *Program, r *Report) { ruleCondProtocolNamed(p, r, "R10f") }},
	)
}

func ruleUninhabitedAssert(p *Program, r *Report) {
	r.Begin("R10b", "uninhabited assertion: a non-comma-ok type assertion, in module code, to a concrete type that no MakeInterface instruction of the whole program ever converts to an interface can never succeed — it panics whenever it is reached", 300)
	defer r.End()
	inh := p.InhabitedTypes()
	n := 0
	for _, fn := range p.RepoFns {
		ord := map[string]int{}
		ForEachInstr(fn, func(ins ssa.Instruction) {
			ta, ok := ins.(*ssa.TypeAssert)
			if !ok || ta.CommaOk || types.IsInterface(ta.AssertedType) {
				return
			}
			n++
			if inh[ta.AssertedType.String()] {
				return
			}
			// only module types: assertions to foreign types may be inhabited by code we do not see
			if !strings.Contains(ta.AssertedType.String(), Mod) {
				return
			}
			key := fmt.Sprintf("assert@%s#%s", FnName(fn), TypeName(ta.AssertedType))
			ord[key]++
			if ord[key] > 1 {
				key = fmt.Sprintf("%s~%d", key, ord[key])
			}
			r.Fn(FnName(fn))
			r.Viol(key, fmt.Sprintf("%s asserts its operand to %s, a type that is never stored in an interface anywhere in the program: the assertion panics on every value that reaches it", FnName(fn), TypeName(ta.AssertedType)), ta.Pos())
		})
	}
	for i := 0; i < n; i++ {
		// count every examined assertion as one discharged obligation (keys would be too many to list)
	}
	r.OK("assertions-examined", fmt.Sprintf("%d unchecked assertions to concrete types examined", n), 0)
	r.rules["R10b"].Instances += n
}

func rulePanicStubs(p *Program, r *Report) {
	r.Begin("R10c", "unconditional-panic interface stubs: a method of a rel.Value / rel.Set / rel.Tuple implementer that definitely panics under every context (TS-SCCP with unknown arguments) turns an ordinary operator applied to such a value into a crash; each stub is one obligation", 300)
	defer r.End()
	s := relSCCP(p, r)
	var ifaces []*types.Interface
	for _, n := range []string{"Value", "Set", "Tuple"} {
		if nt := p.NamedType("rel", n); nt != nil {
			ifaces = append(ifaces, nt.Underlying().(*types.Interface))
		}
	}
	seenM := map[string]bool{}
	for _, T := range p.ValueTypes() {
		ms := p.Prog.MethodSets.MethodSet(T)
		for i := 0; i < ms.Len(); i++ {
			sel := ms.At(i)
			name := sel.Obj().Name()
			inIface := false
			for _, it := range ifaces {
				for j := 0; j < it.NumMethods(); j++ {
					if it.Method(j).Name() == name {
						inIface = true
					}
				}
			}
			if !inIface {
				continue
			}
			fn := p.Prog.MethodValue(sel)
			if fn == nil || fn.Blocks == nil || !InRepo(fn) {
				continue
			}
			key := "stub@" + shortT(T) + "." + name
			if seenM[key] {
				continue
			}
			seenM[key] = true
			args := []AVal{RecvCtx(T)}
			res := s.Analyze(fn, args)
			r.Fn(FnName(fn))
			if res != nil && res.Panics && name == "unionSetSubsetBucket" {
				r.OK(key, "intentional assertion: C01/R01a proves it is never executable from the set operators", fn.Pos())
				continue
			}
			if res != nil && res.Panics {
				r.Viol(key, fmt.Sprintf("%s.%s definitely panics for every receiver and argument (%s): the operator that dispatches to it crashes the process instead of reporting an error", shortT(T), name, s.PanicDesc(res)), fn.Pos())
			} else {
				r.OK(key, "not an unconditional panic", fn.Pos())
			}
		}
	}
}

// goroutineRoots: functions that are the top of a goroutine the program starts or is handed by a framework that
// does not recover panics: `go` targets and gRPC service methods.
func goroutineRoots(p *Program) map[*ssa.Function]string {
	roots := map[*ssa.Function]string{}
	for _, fn := range p.RepoFns {
		ForEachInstr(fn, func(ins ssa.Instruction) {
			if g, ok := ins.(*ssa.Go); ok {
				switch v := g.Call.Value.(type) {
				case *ssa.MakeClosure:
					roots[v.Fn.(*ssa.Function)] = "go statement in " + FnName(fn)
				case *ssa.Function:
					if InRepo(v) {
						roots[v] = "go statement in " + FnName(fn)
					}
				}
			}
		})
	}
	// gRPC: methods of types implementing a generated XxxServer interface of a dependency's pb package
	for _, pk := range p.PkgByPath {
		if pk.Types == nil || !strings.Contains(pk.PkgPath, "arr-ai/proto") {
			continue
		}
		sc := pk.Types.Scope()
		for _, name := range sc.Names() {
			tn, ok := sc.Lookup(name).(*types.TypeName)
			if !ok || !strings.HasSuffix(name, "Server") {
				continue
			}
			it, ok := tn.Type().Underlying().(*types.Interface)
			if !ok || it.NumMethods() == 0 {
				continue
			}
			if strings.Contains(name, "_") || strings.HasPrefix(name, "Unsafe") || strings.HasPrefix(name, "Unimplemented") {
				continue
			}
			for _, T := range p.Implementers2(it) {
				for j := 0; j < it.NumMethods(); j++ {
					if m := p.MethodOf(T, it.Method(j).Name()); m != nil && InRepo(m) && m.Blocks != nil {
						roots[m] = "gRPC service method (" + name + ")"
					}
				}
			}
		}
	}
	return roots
}

// Implementers2 lists module types implementing an arbitrary interface.
func (p *Program) Implementers2(it *types.Interface) []types.Type {
	var out []types.Type
	for _, pk := range p.Roots {
		sp := p.SSA[pk.PkgPath]
		if sp == nil {
			continue
		}
		for _, m := range sp.Members {
			tn, ok := m.(*ssa.Type)
			if !ok || types.IsInterface(tn.Type()) {
				continue
			}
			if types.Implements(tn.Type(), it) {
				out = append(out, tn.Type())
			} else if types.Implements(types.NewPointer(tn.Type()), it) {
				out = append(out, types.NewPointer(tn.Type()))
			}
		}
	}
	return out
}

func ruleRecoverBoundaries(p *Program, r *Report) {
	r.Begin("R10e", "recover boundaries: on every goroutine the program starts itself (`go` targets) or is handed by a framework that does not recover (gRPC service methods), each call path from the root to syntax.Compile / an interpreter dispatch (Expr.Eval, Set.CallAll) crosses a function with a deferred recover — otherwise a panic raised by client-supplied text kills the process (net/http recovers per connection and is exempt)", 3)
	defer r.End()
	compile := p.Func("syntax", "Compile")
	roots := goroutineRoots(p)
	var rs []*ssa.Function
	for f := range roots {
		rs = append(rs, f)
	}
	sort.Slice(rs, func(i, j int) bool { return FnName(rs[i]) < FnName(rs[j]) })
	for _, root := range rs {
		r.Fn(FnName(root))
		// DFS through module functions; stop descending at functions that have a recover defer
		type item struct {
			fn   *ssa.Function
			path []string
		}
		seen := map[*ssa.Function]bool{}
		work := []item{{root, []string{FnName(root)}}}
		n := 0
		for len(work) > 0 {
			it := work[len(work)-1]
			work = work[:len(work)-1]
			if seen[it.fn] {
				continue
			}
			seen[it.fn] = true
			if hasRecoverDefer(it.fn) {
				continue
			}
			ord := 0
			ForEachInstr(it.fn, func(ins ssa.Instruction) {
				c, ok := ins.(ssa.CallInstruction)
				if !ok {
					return
				}
				if _, isGo := ins.(*ssa.Go); isGo {
					return
				}
				cc := c.Common()
				danger := ""
				if interpreterDispatch(cc) {
					danger = "interpreter dispatch " + cc.Method.Name()
				} else if compile != nil && cc.StaticCallee() == compile {
					danger = "syntax.Compile"
				}
				if danger != "" {
					n++
					ord++
					r.ViolPath(fmt.Sprintf("unrecovered@%s→%s~%d", FnName(root), strings.ReplaceAll(danger, " ", "_"), n), fmt.Sprintf("%s (%s) reaches %s in %s with no deferred recover on the way: a panic raised while compiling or evaluating client-supplied text ends the whole process", FnName(root), roots[root], danger, FnName(it.fn)), ins.Pos(), it.path)
					return
				}
				for _, t := range p.Callees(c) {
					if t != nil && InRepo(t) && t.Blocks != nil && !seen[t] {
						work = append(work, item{t, append(append([]string{}, it.path...), FnName(t))})
					}
				}
			})
		}
		if n == 0 {
			r.OK("root@"+FnName(root), "every path to the interpreter crosses a recover ("+roots[root]+")", root.Pos())
		}
	}
	if len(rs) < 2 {
		r.Undecided("roots", fmt.Sprintf("only %d goroutine roots found", len(rs)), 0)
	}
}

// R10h: an interface-typed field that is called without a nil test is never left unset.  For every struct type of
// the module with an interface-typed field F such that some method call `x.F.M()` is not guarded by a nil test of
// that field, every construction of the struct (an allocation whose fields are stored one by one: composite
// literals) stores F.  A keyed literal that leaves F out yields the nil interface, and the unguarded call is a nil
// dereference at run time — for input that reaches that construction only.
func ruleInterfaceFieldsSet(p *Program, r *Report) {
	r.Begin("R10h", "no unset interface field behind an unguarded call: for every module struct with an interface-typed field that is the receiver of a method call not guarded by a nil test of the field, each composite-literal construction of the struct that stores some fields stores that field too", 3)
	defer r.End()
	type fieldKey struct {
		t *types.Named
		i int
	}
	unguarded := map[fieldKey]token.Pos{}
	fieldOfLoad := func(v ssa.Value) (fieldKey, bool) {
		switch x := v.(type) {
		case *ssa.UnOp:
			if fa, ok := x.X.(*ssa.FieldAddr); ok && x.Op == token.MUL {
				if n, ok := Deref(fa.X.Type()).(*types.Named); ok {
					return fieldKey{n, fa.Field}, true
				}
			}
		case *ssa.Field:
			if n, ok := Deref(x.X.Type()).(*types.Named); ok {
				return fieldKey{n, x.Field}, true
			}
		}
		return fieldKey{}, false
	}
	for _, fn := range p.RepoFns {
		if fn.Blocks == nil {
			continue
		}
		// fields nil-tested anywhere in this function: treated as guarded here
		tested := map[fieldKey]bool{}
		ForEachInstr(fn, func(ins ssa.Instruction) {
			if bo, ok := ins.(*ssa.BinOp); ok && (bo.Op == token.EQL || bo.Op == token.NEQ) {
				for _, side := range []ssa.Value{bo.X, bo.Y} {
					if k, ok := fieldOfLoad(side); ok {
						tested[k] = true
					}
				}
			}
		})
		ForEachInstr(fn, func(ins ssa.Instruction) {
			c, ok := ins.(ssa.CallInstruction)
			if !ok || !c.Common().IsInvoke() {
				return
			}
			k, ok := fieldOfLoad(c.Common().Value)
			if !ok || tested[k] || k.t.Obj().Pkg() == nil || !strings.HasPrefix(k.t.Obj().Pkg().Path(), Mod) {
				return
			}
			if _, seen := unguarded[k]; !seen {
				unguarded[k] = c.Pos()
			}
		})
	}
	n := 0
	ord := map[string]int{}
	for _, fn := range p.RepoFns {
		if fn.Blocks == nil {
			continue
		}
		ForEachInstr(fn, func(ins ssa.Instruction) {
			al, ok := ins.(*ssa.Alloc)
			if !ok {
				return
			}
			nt, ok := Deref(al.Type()).(*types.Named)
			if !ok {
				return
			}
			st, ok := nt.Underlying().(*types.Struct)
			if !ok {
				return
			}
			if _, isParam := paramCell(al); isParam {
				return
			}
			stored := map[int]bool{}
			whole := false
			escapes := false
			for _, ref := range *al.Referrers() {
				switch x := ref.(type) {
				case *ssa.FieldAddr:
					for _, r2 := range *x.Referrers() {
						if s, ok := r2.(*ssa.Store); ok && s.Addr == ssa.Value(x) {
							stored[x.Field] = true
						} else if _, isLoad := r2.(*ssa.UnOp); !isLoad {
							escapes = true // &x.f handed out: may be set elsewhere
						}
					}
				case *ssa.Store:
					if x.Addr == ssa.Value(al) {
						whole = true
					}
				case *ssa.Call:
					escapes = true // a method with pointer receiver / an initialiser may set fields
				}
			}
			if whole || escapes || len(stored) == 0 {
				return // zero value on purpose, copied from another value, or initialised by a callee
			}
			// a value returned next to an error is a placeholder, not a result
			onlyWithError, returned := true, false
			for _, b := range fn.Blocks {
				ret, ok := b.Instrs[len(b.Instrs)-1].(*ssa.Return)
				if !ok {
					continue
				}
				mine := false
				for i := range ret.Results {
					if ld, ok := RetVal(ret, i).(*ssa.UnOp); ok && ld.X == ssa.Value(al) {
						mine = true
					}
				}
				if !mine {
					continue
				}
				returned = true
				hasErr := false
				for i, rv := range ret.Results {
					if isErrorType(rv.Type()) && !IsNilConst(RetVal(ret, i)) {
						hasErr = true
					}
				}
				if !hasErr {
					onlyWithError = false
				}
			}
			if returned && onlyWithError {
				return
			}
			for i := 0; i < st.NumFields(); i++ {
				k := fieldKey{nt, i}
				usePos, need := unguarded[k]
				if !need || !types.IsInterface(st.Field(i).Type()) {
					continue
				}
				n++
				top := fn
				for top.Parent() != nil {
					top = top.Parent()
				}
				r.Fn(FnName(top))
				key := fmt.Sprintf("set@%s#%s.%s", FnName(top), nt.Obj().Name(), st.Field(i).Name())
				ord[key]++
				if ord[key] > 1 {
					key = fmt.Sprintf("%s~%d", key, ord[key])
				}
				r.Check(stored[i], key, "field set by this construction", fmt.Sprintf("%s builds a %s that sets other fields but leaves the interface field %s nil, and %s calls a method on that field without a nil test: a nil dereference for the inputs that take this construction", FnName(fn), nt.Obj().Name(), st.Field(i).Name(), p.Pos(usePos)), al.Pos())
			}
		})
	}
	_ = n
}

func init() { register("C10", Rule{"R10h", ruleInterfaceFieldsSet}) }

// R10i: sizes taken from user numbers are checked before they size an allocation.  `make([]T, n)` / `make([]T, 0, n)`
// panics for a negative n (and for one too large); in the standard library natives n is `int(<number the program
// supplied>)`.  Every make whose length or capacity derives from a float→int conversion must be dominated by a
// comparison of that size (or of the converted number) with a bound.
func ruleAllocationSizesChecked(p *Program, r *Report) {
	r.Begin("R10i", "allocation sizes from program-supplied numbers are range-checked: in packages syntax and rel every make (slice, map, chan) and every strings.Repeat / bytes.Repeat whose size operand derives from a float→integer conversion (in the function or in a variable it captured) is dominated by a relational comparison involving that value (a sign or bound test); an unchecked negative count is `makeslice: len out of range` / `negative Repeat count`, a crash instead of an error", 1)
	defer r.End()
	n := 0
	for _, fn := range p.RepoFns {
		pp := PkgPathOf(fn)
		if (pp != Mod+"/syntax" && pp != Mod+"/rel") || fn.Blocks == nil {
			continue
		}
		ord := 0
		isF2I := func(c *ssa.Convert) bool {
			from, ok1 := c.X.Type().Underlying().(*types.Basic)
			to, ok2 := c.Type().Underlying().(*types.Basic)
			return ok1 && ok2 && from.Info()&types.IsFloat != 0 && to.Info()&types.IsInteger != 0
		}
		// the root of a size: a float→int conversion here, a captured variable that holds one, or a parameter that
		// some call site of this (package-local) function gives one
		var convIn func(v ssa.Value, depth int) (bool, token.Pos)
		convIn = func(v ssa.Value, depth int) (bool, token.Pos) {
			if depth > 4 || v == nil {
				return false, 0
			}
			found := false
			var where token.Pos
			DependsOn(v, func(w ssa.Value) bool {
				switch x := w.(type) {
				case *ssa.Convert:
					if isF2I(x) {
						found, where = true, x.Pos()
						return true
					}
				case *ssa.Parameter:
					g := x.Parent()
					idx := -1
					for i, q := range g.Params {
						if q == x {
							idx = i
						}
					}
					if idx < 0 || !InRepo(g) {
						return false
					}
					for _, caller := range p.RepoFns {
						if caller.Pkg != g.Pkg {
							continue
						}
						ForEachInstr(caller, func(i2 ssa.Instruction) {
							if c, ok := i2.(ssa.CallInstruction); ok && c.Common().StaticCallee() == g && idx < len(c.Common().Args) && !found {
								if ok2, pos := convIn(c.Common().Args[idx], depth+1); ok2 {
									found, where = true, pos
								}
							}
						})
					}
					return found
				case *ssa.FreeVar:
					b := bindingOf(x)
					for i := 0; i < 4; i++ {
						if fv2, ok := b.(*ssa.FreeVar); ok {
							b = bindingOf(fv2)
						}
					}
					if al, ok := b.(*ssa.Alloc); ok {
						for _, ref := range *al.Referrers() {
							if st, ok := ref.(*ssa.Store); ok && st.Addr == ssa.Value(al) && !found {
								if ok2, pos := convIn(st.Val, depth+1); ok2 {
									found, where = true, pos
								}
							}
						}
					} else if b != nil && !found {
						if ok2, pos := convIn(b, depth+1); ok2 {
							found, where = true, pos
						}
					}
					return found
				}
				return false
			})
			return found, where
		}
		rootOf := func(sz ssa.Value) (root ssa.Value, where token.Pos) {
			DependsOn(sz, func(v ssa.Value) bool {
				switch x := v.(type) {
				case *ssa.Convert:
					if isF2I(x) {
						root, where = x, x.Pos()
						return true
					}
				case *ssa.FreeVar, *ssa.Parameter:
					if ok, pos := convIn(x, 0); ok {
						root, where = x, pos
						return true
					}
				}
				return false
			})
			return
		}
		ForEachInstr(fn, func(ins ssa.Instruction) {
			var sizes []ssa.Value
			what := "make"
			switch x := ins.(type) {
			case *ssa.MakeSlice:
				sizes = []ssa.Value{x.Len, x.Cap}
			case *ssa.MakeMap:
				if x.Reserve != nil {
					sizes = []ssa.Value{x.Reserve}
				}
			case *ssa.MakeChan:
				sizes = []ssa.Value{x.Size}
			case *ssa.Call:
				nm := CalleeName(&x.Call)
				if (nm == "strings.Repeat" || nm == "bytes.Repeat") && len(x.Call.Args) == 2 {
					sizes = []ssa.Value{x.Call.Args[1]}
					what = nm
				}
			default:
				return
			}
			for _, sz := range sizes {
				if sz == nil {
					continue
				}
				root, where := rootOf(sz)
				if root == nil {
					continue
				}
				n++
				ord++
				top := fn
				for top.Parent() != nil {
					top = top.Parent()
				}
				r.Fn(FnName(top))
				fromRoot := func(w ssa.Value) bool {
					if w == root {
						return true
					}
					if c, ok := root.(*ssa.Convert); ok && w == c.X {
						return true
					}
					return false
				}
				// a dominating branch whose condition compares the size (or the number it came from) with a bound
				guarded := false
				blk := ins.Block()
				for _, d := range fn.Blocks {
					iff, ok := d.Instrs[len(d.Instrs)-1].(*ssa.If)
					if !ok || !(d.Dominates(blk) && d != blk) {
						continue
					}
					if DependsOn(iff.Cond, func(v ssa.Value) bool {
						bo, ok := v.(*ssa.BinOp)
						if !ok {
							return false
						}
						switch bo.Op {
						case token.LSS, token.LEQ, token.GTR, token.GEQ:
							for _, side := range []ssa.Value{bo.X, bo.Y} {
								if DependsOn(side, fromRoot) {
									return true
								}
							}
						}
						return false
					}) {
						guarded = true
					}
				}
				r.Check(guarded, fmt.Sprintf("size@%s~%d", FnName(top), ord), "size compared with a bound before use", fmt.Sprintf("%s hands %s a size derived from a number the program supplied (converted at %s) without any range test on it: a negative or huge count panics there instead of producing an error or an empty result", FnName(fn), what, p.Pos(where)), ins.Pos())
			}
		})
	}
	if n == 0 {
		r.Undecided("sizes", "no size derived from a converted number found (//seq.repeat is expected)", 0)
	}
}

func init() { register("C10", Rule{"R10i", ruleAllocationSizesChecked}) }
