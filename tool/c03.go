package main

import (
	"fmt"
	"go/token"
	"golang.org/x/tools/go/ssa"
	"strings"
)

func init() {
	register("C03", Rule{"R03a", ruleNoWriteThrough})
}

func ownEngine(p *Program) *Own {
	if p.own == nil {
		p.own = NewOwn(p)
		p.own.Audited = map[string]string{
			// one named symbol, one reason (confirmed by reading and by probing `let f = \x $"a${''}b"; [f(1), f(2)]`)
			"syntax.cleanEmptyVal": "edits in place the parts array handed to xstrConcat by the ArrayExpr that compileExpandableString builds for this one evaluation; a literal-folded (hence shared) parts array has no computed part and therefore nothing to clean; the native is not reachable with a user-supplied array",
		}
		p.own.Run()
	}
	return p.own
}

func ruleNoWriteThrough(p *Program, r *Report) {
	r.Begin("R03a", "no write-through on shared storage: no append / element store / copy-destination / in-place sort / map update / delete, and no call passing it to a parameter the callee mutates, acts on a slice or map that may alias storage reachable from an existing arr.ai value (interprocedural ownership summaries over go/ssa with VTA-resolved calls; 3-index cap-limited slices are append-safe; first initialisation inside sync.Once.Do is exempt)", 150)
	defer r.End()
	o := ownEngine(p)
	nAppend := 0
	for _, k := range o.SortedSinks() {
		s := o.Sinks[k]
		r.Fn(FnName(s.Fn))
		if s.Kind == "append" {
			nAppend++
		}
		pos := p.InstrPos(s.Ins)
		switch {
		case s.Exempt != "":
			r.OK(k, "exempt: "+s.Exempt, pos)
		case s.Bad:
			r.Viol(k, fmt.Sprintf("%s on %s storage (%s): %s — a value derived earlier from the same parent can be overwritten", s.Kind, s.State, s.Base, s.Why), pos)
		default:
			r.OK(k, fmt.Sprintf("%s on %s storage", s.Kind, s.State), pos)
		}
	}
	rs, ms := o.Describe()
	r.Notes = append(r.Notes, fmt.Sprintf("R03a: %d rounds, %d sinks (%d appends), value-storage structs: %s", o.Rounds, len(o.Sinks), nAppend, strings.Join(SortedKeys(o.storage), " ")))
	r.Notes = append(r.Notes, "functions returning shared storage: "+strings.Join(rs, " "))
	r.Notes = append(r.Notes, "parameters mutated by the callee: "+strings.Join(ms, " "))
	if nAppend < 100 {
		r.Undecided("appends", fmt.Sprintf("only %d append sites analysed (about 200 confirmed by hand)", nAppend), 0)
	}
}

// R03b: a frozen builder is finished in place.  frozen's builders mutate their nodes in place while building and
// hand the nodes over on Finish, which also resets the builder.  Finishing a *copy* of a builder (a local variable
// initialised from `*b`) leaves the original pointing into the finished value: the next Put on it rewrites a value
// that was already handed out.
func ruleBuilderFinishedInPlace(p *Program, r *Report) {
	r.Begin("R03b", "builders are finished in place: every call of a frozen builder's Finish in the module has as receiver the builder itself (a field, a parameter, a variable that was built into), never a local copy initialised from another builder — the original would keep pointing into the finished, shared nodes", 5)
	defer r.End()
	n := 0
	for _, fn := range p.RepoFns {
		ord := 0
		ForEachInstr(fn, func(ins ssa.Instruction) {
			c, ok := ins.(*ssa.Call)
			if !ok {
				return
			}
			g := c.Call.StaticCallee()
			if g == nil || InRepo(g) || baseName(g) != "Finish" || !strings.Contains(g.String(), "arr-ai/frozen") || !strings.Contains(g.String(), "Builder") || len(c.Call.Args) == 0 {
				return
			}
			n++
			ord++
			r.Fn(FnName(fn))
			key := fmt.Sprintf("finish@%s~%d", FnName(fn), ord)
			recv := c.Call.Args[0]
			copyOf := ""
			if al, isAl := recv.(*ssa.Alloc); isAl && al.Referrers() != nil {
				if _, isParam := paramCell(al); !isParam {
					for _, ref := range *al.Referrers() {
						st, isSt := ref.(*ssa.Store)
						if !isSt || st.Addr != ssa.Value(al) {
							continue
						}
						v := st.Val
						for i := 0; i < 3; i++ {
							if ct, isCT := v.(*ssa.ChangeType); isCT {
								v = ct.X
							}
						}
						if ld, isLd := v.(*ssa.UnOp); isLd && ld.Op == token.MUL {
							if _, fromAlloc := ld.X.(*ssa.Alloc); !fromAlloc {
								copyOf = baseDesc(ld.X)
							}
						}
					}
				}
			}
			r.Check(copyOf == "", key, "finished in place", fmt.Sprintf("%s calls Finish on a local copy of a builder (copied from %s): the original builder is not reset and still points at the nodes of the value just returned, so the next Put through it changes that value", FnName(fn), copyOf), c.Pos())
		})
	}
	if n == 0 {
		r.Undecided("sites", "no frozen builder Finish call found", 0)
	}
}

func init() { register("C03", Rule{"R03b", ruleBuilderFinishedInPlace}) }
