package main

import (
	"fmt"
	"strings"
)

func init() {
	register("C03", Rule{"R03a", ruleNoWriteThrough})
}

func ownEngine(p *Program) *Own {
	if p.own == nil {
		p.own = NewOwn(p)
		p.own.Audited = map[string]string{
			// one named symbol, one reason (confirmed by reading and by probing `let f = \x $"a${''}b"; [f(1), f(2)]`)
			"syntax.cleanEmptyVal": "edits in place the parts array handed to xstrConcat by the ArrayExpr that compileExpandableString builds for this one evaluation; a literal-folded (hence shared) parts array has no computed part and therefore nothing to clean; the native is not reachable with a user-supplied array",
		}
		p.own.Run()
	}
	return p.own
}

func ruleNoWriteThrough(p *Program, r *Report) {
	r.Begin("R03a", "no write-through on shared storage: no append / element store / copy-destination / in-place sort / map update / delete, and no call passing it to a parameter the callee mutates, acts on a slice or map that may alias storage reachable from an existing arr.ai value (interprocedural ownership summaries over go/ssa with VTA-resolved calls; 3-index cap-limited slices are append-safe; first initialisation inside sync.Once.Do is exempt)", 150)
	defer r.End()
	o := ownEngine(p)
	nAppend := 0
	for _, k := range o.SortedSinks() {
		s := o.Sinks[k]
		r.Fn(FnName(s.Fn))
		if s.Kind == "append" {
			nAppend++
		}
		pos := p.InstrPos(s.Ins)
		switch {
		case s.Exempt != "":
			r.OK(k, "exempt: "+s.Exempt, pos)
		case s.Bad:
			r.Viol(k, fmt.Sprintf("%s on %s storage (%s): %s — a value derived earlier from the same parent can be overwritten", s.Kind, s.State, s.Base, s.Why), pos)
		default:
			r.OK(k, fmt.Sprintf("%s on %s storage", s.Kind, s.State), pos)
		}
	}
	rs, ms := o.Describe()
	r.Notes = append(r.Notes, fmt.Sprintf("R03a: %d rounds, %d sinks (%d appends), value-storage structs: %s", o.Rounds, len(o.Sinks), nAppend, strings.Join(SortedKeys(o.storage), " ")))
	r.Notes = append(r.Notes, "functions returning shared storage: "+strings.Join(rs, " "))
	r.Notes = append(r.Notes, "parameters mutated by the callee: "+strings.Join(ms, " "))
	if nAppend < 100 {
		r.Undecided("appends", fmt.Sprintf("only %d append sites analysed (about 200 confirmed by hand)", nAppend), 0)
	}
}
