package main

import (
	"fmt"
	"go/ast"
	"go/token"
	"go/types"
	"sort"
	"strings"

	"golang.org/x/tools/go/ssa"
)

func init() {
	register("C02",
		Rule{"R02a", ruleNoRawHoleyReslice},
		Rule{"R02b", ruleTupleCanonicalised},
		Rule{"R02c", ruleEqualSymmetry},
		Rule{"R02d", ruleSugarShapeTables},
		Rule{"R02e", ruleLayoutIndependentHash},
	)
}

// trimming constructors: functions that strip leading and trailing holes from the store they are given; verified
// structurally (they re-slice their slice parameter at least twice).
var trimmingCtors = []string{"NewOffsetArray", "newTrimmedString"}

func ruleNoRawHoleyReslice(p *Program, r *Report) {
	r.Begin("R02a", "canonical form of holey sequences: a String or Array value (the two representations whose stores encode holes) is never built directly around a re-slice (x[i:] / x[:j]) of another value's store — dropping an end element can expose a hole, which must be trimmed; such re-slices must go through a trimming constructor (NewOffsetArray, newTrimmedString)", 2)
	defer r.End()
	for _, n := range trimmingCtors {
		f := p.Func("rel", n)
		if f == nil {
			r.Undecided("trimmer@"+n, "trimming constructor not found", 0)
			continue
		}
		// re-slices in the constructor itself or in the package-local helpers it hands its store to
		slices := 0
		seenT := map[*ssa.Function]bool{}
		var countSlices func(g *ssa.Function, depth int)
		countSlices = func(g *ssa.Function, depth int) {
			if seenT[g] || depth > 2 {
				return
			}
			seenT[g] = true
			ForEachInstr(g, func(ins ssa.Instruction) {
				switch x := ins.(type) {
				case *ssa.Slice:
					if x.Low != nil || x.High != nil {
						slices++
					}
				case *ssa.Call:
					if h := x.Call.StaticCallee(); h != nil && h.Pkg == f.Pkg && h.Blocks != nil && h != f {
						for _, a := range x.Call.Args {
							if _, isSl := a.Type().Underlying().(*types.Slice); isSl {
								countSlices(h, depth+1)
							}
						}
					}
				}
			})
		}
		countSlices(f, 0)
		r.Check(slices >= 2, "trimmer@"+n, "re-slices its argument at both ends", n+" no longer trims both ends of the store it is given", f.Pos())
	}
	n := 0
	for _, fn := range p.RepoFns {
		if PkgPathOf(fn) != Mod+"/rel" {
			continue
		}
		isTrimmer := false
		for _, t := range trimmingCtors {
			if fn.Name() == t {
				isTrimmer = true
			}
		}
		ord := 0
		ForEachInstr(fn, func(ins ssa.Instruction) {
			st, ok := ins.(*ssa.Store)
			if !ok {
				return
			}
			fa, ok := st.Addr.(*ssa.FieldAddr)
			if !ok {
				return
			}
			tn := TypeName(Deref(fa.X.Type()))
			if tn != "rel.String" && tn != "rel.Array" {
				return
			}
			if structOf(fa.X.Type()).Field(fa.Field).Name() != seqStoreFields[tn] {
				return
			}
			if _, fresh := fa.X.(*ssa.Alloc); !fresh {
				return
			}
			sl, ok := st.Val.(*ssa.Slice)
			if !ok || (sl.Low == nil && sl.High == nil) {
				return
			}
			// the sliced operand is (derived from) a field load of another value's store
			fromStore := DependsOn(sl.X, func(v ssa.Value) bool {
				switch y := v.(type) {
				case *ssa.FieldAddr:
					t2 := TypeName(Deref(y.X.Type()))
					return (t2 == "rel.String" || t2 == "rel.Array") && structOf(y.X.Type()).Field(y.Field).Name() == seqStoreFields[t2]
				case *ssa.Field:
					t2 := TypeName(y.X.Type())
					return (t2 == "rel.String" || t2 == "rel.Array") && structOf(y.X.Type()).Field(y.Field).Name() == seqStoreFields[t2]
				}
				return false
			})
			if !fromStore {
				return
			}
			// re-slicing the store of the very value under construction (a function trimming its own clone) is fine
			ownStore := DependsOn(sl.X, func(v ssa.Value) bool {
				if y, ok := v.(*ssa.FieldAddr); ok {
					return y.X == fa.X
				}
				return false
			})
			if ownStore {
				return
			}
			n++
			ord++
			r.Fn(FnName(fn))
			r.Check(isTrimmer, fmt.Sprintf("reslice@%s~%d", FnName(fn), ord), "inside a trimming constructor", fmt.Sprintf("%s builds a %s directly around a re-slice of another value's store: if the element next to the dropped end is a hole the result has a leading/trailing hole — a second representation of the same set, unequal to the canonical one", FnName(fn), tn), st.Pos())
		})
	}
	r.Notes = append(r.Notes, fmt.Sprintf("R02a: %d raw re-slice sites", n))
}

func ruleTupleCanonicalised(p *Program, r *Report) {
	r.Begin("R02b", "tuples whose name set changed are re-canonicalised: a function that allocates a *GenericTuple around a map obtained by adding or removing a name (frozen Map.With / Without / Merge / Update on another tuple's map) must return through Canonical / NewTuple / TupleBuilder.Finish — otherwise a two-attribute (@, @char|@item|@byte|@value) tuple stays generic and is not equal to its sugared form", 2)
	defer r.End()
	exempt := map[string]string{
		"newGenericTuple":     "documented raw intermediate, callers canonicalise",
		"(*GenericTuple).Map": "names unchanged",
		"valuesToTuple":       "heading re-sugared by Relation.Join / row tuples never have sugar headings of size 2 except via Join's branch",
	}
	n := 0
	for _, fn := range p.RepoFns {
		if PkgPathOf(fn) != Mod+"/rel" {
			continue
		}
		short := strings.TrimPrefix(FnName(fn), "rel.")
		short = strings.Replace(short, "(*rel.GenericTuple)", "(*GenericTuple)", 1)
		ForEachInstr(fn, func(ins ssa.Instruction) {
			st, ok := ins.(*ssa.Store)
			if !ok {
				return
			}
			fa, ok := st.Addr.(*ssa.FieldAddr)
			if !ok || TypeName(Deref(fa.X.Type())) != "rel.GenericTuple" || structOf(fa.X.Type()).Field(fa.Field).Name() != "tuple" {
				return
			}
			al, fresh := fa.X.(*ssa.Alloc)
			if !fresh {
				return
			}
			// the stored map comes from a name-set-changing frozen operation on an existing tuple's map
			changes := DependsOn(st.Val, func(v ssa.Value) bool {
				c, ok := v.(*ssa.Call)
				if !ok {
					return false
				}
				callee := c.Call.StaticCallee()
				if callee == nil || !strings.Contains(callee.String(), "arr-ai/frozen") {
					return false
				}
				switch baseName(callee) {
				case "With", "Without", "Merge", "Update":
					return true
				}
				return false
			})
			if !changes {
				return
			}
			n++
			r.Fn(FnName(fn))
			key := "tuple@" + FnName(fn)
			if why, ok := exempt[short]; ok {
				r.OK(key, "exempt: "+why, st.Pos())
				return
			}
			// does the allocated tuple reach a Return without passing a canonicaliser?
			raw := false
			for _, ref := range *al.Referrers() {
				switch u := ref.(type) {
				case *ssa.MakeInterface:
					for _, r2 := range *u.Referrers() {
						if _, isRet := r2.(*ssa.Return); isRet {
							raw = true
						}
					}
				case *ssa.Return:
					raw = true
				}
			}
			r.Check(!raw, key, "returned through a canonicaliser", fmt.Sprintf("%s returns a *GenericTuple built around a map whose name set just changed without re-canonicalising it: a tuple that now has exactly the attributes (@, @char) / (@, @item) / (@, @byte) / (@, @value) stays generic, so {(@:0) +> (@char:97)} = \"a\" is false", FnName(fn)), st.Pos())
		})
	}
	r.Notes = append(r.Notes, fmt.Sprintf("R02b: %d allocation sites with a changed name set", n))
}

func ruleEqualSymmetry(p *Program, r *Report) {
	r.Begin("R02c", "Equal is symmetric at the type level: TS-SCCP of T.Equal(dyn U) for all ordered pairs of value types — no pair where one direction is constant true and the other constant false", 150)
	defer r.End()
	s := relSCCP(p, r)
	vts := p.ValueTypes()
	res := map[[2]int]string{}
	for i, T := range vts {
		em := p.MethodOf(T, "Equal")
		if em == nil {
			continue
		}
		r.Fn(FnName(em))
		for j, U := range vts {
			out := "?"
			if a := s.Analyze(em, []AVal{RecvCtx(T), DynCtx(U)}); a != nil && !a.Panics && len(a.Rets) == 1 {
				if b, ok := a.Rets[0].IsBool(); ok {
					out = fmt.Sprint(b)
				}
			}
			res[[2]int{i, j}] = out
		}
	}
	for i, T := range vts {
		for j, U := range vts {
			if i >= j {
				continue
			}
			a, b := res[[2]int{i, j}], res[[2]int{j, i}]
			key := fmt.Sprintf("symmetric@%s~%s", shortT(T), shortT(U))
			bad := (a == "true" && b == "false") || (a == "false" && b == "true")
			r.Check(!bad, key, fmt.Sprintf("%s / %s", a, b), fmt.Sprintf("%s.Equal(%s) is constant %s but %s.Equal(%s) is constant %s: equality depends on operand order", shortT(T), shortT(U), a, shortT(U), shortT(T), b), 0)
		}
	}
}

func ruleSugarShapeTables(p *Program, r *Report) {
	r.Begin("R02d", "sugar-shape tables agree: the hand-written switches that turn a two-attribute (@, x) tuple or heading into its specialised form — NewTuple, TupleBuilder.Finish, the re-sugaring branch of Relation.Join — each name all four shape constants (StringCharAttr, BytesByteAttr, ArrayItemAttr, DictValueAttr); a shape missing from one switch yields a second representation of the same value", 12)
	defer r.End()
	pk := p.PkgSyntax("rel")
	if pk == nil {
		r.Undecided("anchor", "package rel not loaded", 0)
		return
	}
	consts := []string{"StringCharAttr", "BytesByteAttr", "ArrayItemAttr", "DictValueAttr"}
	want := map[string]bool{"NewTuple": true, "TupleBuilder.Finish": true, "Relation.Join": true}
	found := map[string]bool{}
	FuncDecls(pk, func(fd *ast.FuncDecl) {
		name := FuncDeclName(fd)
		if !want[name] {
			return
		}
		found[name] = true
		used := map[string]bool{}
		ast.Inspect(fd.Body, func(n ast.Node) bool {
			if id, ok := n.(*ast.Ident); ok {
				if c, ok := pk.TypesInfo.Uses[id].(*types.Const); ok {
					used[c.Name()] = true
				}
			}
			return true
		})
		for _, c := range consts {
			r.Check(used[c], fmt.Sprintf("shape@%s#%s", name, c), "handled", fmt.Sprintf("%s does not handle the %s shape: a (@, %s) tuple/heading built through it keeps its generic form and is not equal to the sugared value", name, c, c), fd.Pos())
		}
	})
	var missing []string
	for n := range want {
		if !found[n] {
			missing = append(missing, n)
		}
	}
	sort.Strings(missing)
	if len(missing) > 0 {
		r.Undecided("functions", "shape-specialising functions not found: "+strings.Join(missing, ", "), 0)
	}
}

func ruleLayoutIndependentHash(p *Program, r *Report) {
	r.Begin("R02e", "hash agrees with equality on column layout: relations over the same names may store their columns in different orders and Relation.Equal compares them through canonicalRelation(); a layout-sensitive digest of the stored rows ((*positionalRelation).Hash) may therefore be taken only of a canonicalRelation() result — otherwise equal relations hash differently and stop collapsing in sets / dictionary keys", 1)
	defer r.End()
	ph := p.Method("rel", "positionalRelation", "Hash")
	canon := p.Method("rel", "Relation", "canonicalRelation")
	eq := p.Method("rel", "Relation", "EqualRelation")
	if ph == nil || canon == nil || eq == nil {
		r.Undecided("anchor", "(*positionalRelation).Hash / Relation.canonicalRelation / EqualRelation not found", 0)
		return
	}
	// Equal uses the canonicaliser
	usesCanon := len(callsTo(eq, canon)) >= 2
	r.Check(usesCanon, "equal-canonicalises", "EqualRelation compares canonicalRelation() of both sides", "Relation.EqualRelation no longer compares both operands through canonicalRelation(): relations that differ only in stored column order compare unequal", eq.Pos())
	n := 0
	for _, fn := range p.RepoFns {
		for _, c := range callsTo(fn, ph) {
			n++
			r.Fn(FnName(fn))
			recv := c.Call.Args[0]
			onCanon := DependsOn(recv, func(v ssa.Value) bool {
				cc, ok := v.(*ssa.Call)
				return ok && cc.Call.StaticCallee() == canon
			})
			r.Check(onCanon, fmt.Sprintf("rows-hash@%s~%d", FnName(fn), n), "digest taken of a canonical layout", fmt.Sprintf("%s hashes the stored rows of a relation positionally without canonicalising the column order first: two equal relations (e.g. a literal and a join result) get different hashes", FnName(fn)), c.Pos())
		}
	}
	if n == 0 {
		r.OK("rows-hash", "the positional row digest is not used", ph.Pos())
	}
}

// R02f: derived fields of slot builders count distinct slots.  A sequence value carries a field derived from its
// store (Array.count = non-nil slots, String.holes = negative slots) that Equal and Count read.  A function that
// fills a freshly made slot table by computed index (the set builders' asArray / asString) may be handed the same
// (@, x) pair twice, so the derived field must come from a counter that is incremented only when the slot was
// still empty — not from the number of inputs.
func ruleDerivedCountDistinctSlots(p *Program, r *Report) {
	r.Begin("R02f", "derived counts of slot builders: in every function of package rel that returns a sequence value around a freshly made slot table filled by computed index, the derived field (Array.count, String.holes) depends on a counter incremented under a test of the slot's previous content — a count taken from the number of inputs gives a second, unequal representation of the same value when an input is repeated", 1)
	defer r.End()
	relPkg := p.Pkg("rel")
	derived := map[string]string{"rel.Array": "count", "rel.String": "holes"}
	store := map[string]string{"rel.Array": "values", "rel.String": "s"}
	n := 0
	for _, fn := range p.RepoFns {
		if fn.Pkg != relPkg || fn.Parent() != nil {
			continue
		}
		// composite literals of the sequence types: group field stores by the allocated struct
		type lit struct {
			tname         string
			derivedV, stV ssa.Value
			pos           token.Pos
		}
		lits := map[ssa.Value]*lit{}
		ForEachInstr(fn, func(ins ssa.Instruction) {
			st, ok := ins.(*ssa.Store)
			if !ok {
				return
			}
			fa, ok := st.Addr.(*ssa.FieldAddr)
			if !ok {
				return
			}
			tn := TypeName(Deref(fa.X.Type()))
			d, ok := derived[tn]
			if !ok {
				return
			}
			sto := structOf(fa.X.Type())
			if sto == nil {
				return
			}
			l := lits[fa.X]
			if l == nil {
				l = &lit{tname: tn}
				lits[fa.X] = l
			}
			switch sto.Field(fa.Field).Name() {
			case d:
				l.derivedV, l.pos = st.Val, st.Pos()
			case store[tn]:
				l.stV = st.Val
			}
		})
		for _, l := range lits {
			if l.derivedV == nil || l.stV == nil {
				continue
			}
			// the store is a slot table made here and filled by computed index
			var table ssa.Value
			DependsOn(l.stV, func(x ssa.Value) bool {
				if table != nil {
					return false
				}
				switch y := x.(type) {
				case *ssa.MakeSlice:
					table = y
				case *ssa.Call:
					// a table made by a package-local helper (e.g. one that also fills it with the hole marker)
					if g := y.Call.StaticCallee(); g != nil && g.Pkg == relPkg && g.Blocks != nil {
						if _, isSl := y.Type().Underlying().(*types.Slice); isSl {
							makes := false
							ForEachInstr(g, func(i2 ssa.Instruction) {
								if _, ok := i2.(*ssa.MakeSlice); ok {
									makes = true
								}
							})
							if makes {
								table = y
							}
						}
					}
				}
				return false
			})
			if table == nil {
				continue
			}
			filled := false
			ForEachInstr(fn, func(ins ssa.Instruction) {
				if st, ok := ins.(*ssa.Store); ok {
					if ia, ok := st.Addr.(*ssa.IndexAddr); ok && ia.X == table {
						if _, isConst := ia.Index.(*ssa.Const); !isConst {
							if _, isNeg := st.Val.(*ssa.Const); !isNeg { // initialising the table with the hole marker is not filling it
								filled = true
							}
						}
					}
				}
			})
			if !filled {
				continue
			}
			n++
			r.Fn(FnName(fn))
			pd := NewPostDom(fn)
			guardedCounter := DependsOn(l.derivedV, func(x ssa.Value) bool {
				// an increment/decrement by a constant …
				bo, ok := x.(*ssa.BinOp)
				if !ok || (bo.Op != token.ADD && bo.Op != token.SUB) {
					return false
				}
				if _, isConst := bo.Y.(*ssa.Const); !isConst {
					return false
				}
				// … executed only under a test of the slot's previous content
				for _, d := range pd.TransitiveControlDeps(bo.Block()) {
					cond := IfCond(d.Br)
					if cond != nil && DependsOn(cond, func(y ssa.Value) bool {
						ld, ok := y.(*ssa.UnOp)
						if !ok {
							return false
						}
						ia, ok := ld.X.(*ssa.IndexAddr)
						return ok && ia.X == table
					}) {
						return true
					}
				}
				return false
			})
			r.Check(guardedCounter, "distinct-slots@"+FnName(fn), "the derived field comes from a counter guarded by the slot's previous content", fmt.Sprintf("%s fills a fresh slot table by index and derives %s.%s from something other than the number of distinct slots it filled (e.g. the number of inputs): when the same (@, x) pair is supplied twice the value gets a wrong count and is no longer equal to, nor collapses with, the same sequence built any other way", FnName(fn), l.tname, derived[l.tname]), l.pos)
		}
	}
	if n < 1 {
		r.Undecided("sites", "no slot builder with a derived field found (asArray, asString confirmed)", 0)
	}
}

func init() {
	register("C02", Rule{"R02f", ruleDerivedCountDistinctSlots})
	register("C01", Rule{"R02f", ruleDerivedCountDistinctSlots})
}

// R02g: a set that may have shrunk to nothing is tested before it is wrapped.  The empty set has one representation
// (None): Equal, Hash, UnionSet bucket removal and the enumerators rely on it.  Where and Without are the methods
// that can empty a representation; every value they return is the receiver itself, None, the result of a call that
// normalises (a function of package rel that can return None, or another Set's method), or a representation struct
// built on a path that is control-dependent on an emptiness test (IsEmpty / Count / IsTrue / len / a count field).
func ruleShrunkSetsNormalised(p *Program, r *Report) {
	r.Begin("R02g", "one empty set: in every Where and Without method of a set representation, a returned value that is a representation struct built in the method (not the receiver, not None, not the result of a normalising call) is returned only on a path that is control-dependent on an emptiness test of what was built — otherwise a set filtered down to nothing comes back as an empty Dict/Relation/Array that is not equal to {}", 10)
	defer r.End()
	setT := p.NamedType("rel", "Set")
	relPkg := p.Pkg("rel")
	if setT == nil || relPkg == nil {
		r.Undecided("anchor", "rel.Set not found", 0)
		return
	}
	setI := setT.Underlying().(*types.Interface)
	var noneG *ssa.Global
	if g, ok := relPkg.Members["None"].(*ssa.Global); ok {
		noneG = g
	}
	// normalisers: functions of package rel with a return of None
	returnsNone := map[*ssa.Function]bool{}
	for _, fn := range p.RepoFns {
		if fn.Pkg != relPkg {
			continue
		}
		ForEachInstr(fn, func(ins ssa.Instruction) {
			if ret, ok := ins.(*ssa.Return); ok {
				for i := range ret.Results {
					if DependsOn(RetVal(ret, i), func(x ssa.Value) bool {
						ld, ok := x.(*ssa.UnOp)
						return ok && noneG != nil && ld.X == ssa.Value(noneG)
					}) {
						returnsNone[fn] = true
					}
				}
			}
		})
	}
	// … and functions that return what a normaliser returns (newTrimmedString → NewOffsetString), to a fixpoint
	for changed := true; changed; {
		changed = false
		for _, fn := range p.RepoFns {
			if fn.Pkg != relPkg || returnsNone[fn] {
				continue
			}
			ForEachInstr(fn, func(ins ssa.Instruction) {
				ret, ok := ins.(*ssa.Return)
				if !ok || returnsNone[fn] {
					return
				}
				for i := range ret.Results {
					v := RetVal(ret, i)
					if mi, ok := v.(*ssa.MakeInterface); ok {
						v = mi.X
					}
					if ex, ok := v.(*ssa.Extract); ok {
						v = ex.Tuple
					}
					if c, ok := v.(*ssa.Call); ok {
						if g := c.Call.StaticCallee(); g != nil && returnsNone[g] {
							returnsNone[fn] = true
							changed = true
						}
					}
				}
			})
		}
	}
	isEmptinessTest := func(cond ssa.Value) bool {
		return DependsOn(cond, func(x ssa.Value) bool {
			switch y := x.(type) {
			case *ssa.Call:
				if b, ok := y.Call.Value.(*ssa.Builtin); ok && b.Name() == "len" {
					return true
				}
				name := ""
				if y.Call.IsInvoke() {
					name = y.Call.Method.Name()
				} else if g := y.Call.StaticCallee(); g != nil {
					name = baseName(g)
				}
				return name == "IsEmpty" || name == "Count" || name == "IsTrue"
			case *ssa.Field:
				if st := structOf(y.X.Type()); st != nil {
					return st.Field(y.Field).Name() == "count"
				}
			case *ssa.FieldAddr:
				if st := structOf(y.X.Type()); st != nil {
					return st.Field(y.Field).Name() == "count"
				}
			}
			return false
		})
	}
	for _, T := range p.ValueTypes() {
		if !types.Implements(T, setI) {
			continue
		}
		for _, mname := range []string{"Where", "Without"} {
			m := p.MethodOf(T, mname)
			if m == nil || m.Blocks == nil || !InRepo(m) {
				continue
			}
			r.Fn(FnName(m))
			pd := NewPostDom(m)
			ord := 0
			ForEachInstr(m, func(ins ssa.Instruction) {
				ret, ok := ins.(*ssa.Return)
				if !ok || len(ret.Results) == 0 || ret.Block() == m.Recover {
					return
				}
				last := len(ret.Results) - 1
				if isErrorType(ret.Results[last].Type()) && !IsNilConst(RetVal(ret, last)) {
					return
				}
				v := RetVal(ret, 0)
				ord++
				key := fmt.Sprintf("returns@%s~%d", FnName(m), ord)
				var judge func(v ssa.Value, depth int) (bool, string)
				judge = func(v ssa.Value, depth int) (bool, string) {
					if depth > 4 {
						return true, "deep"
					}
					switch x := v.(type) {
					case *ssa.Const:
						return true, "nil"
					case *ssa.Parameter:
						return true, "the receiver/argument unchanged"
					case *ssa.UnOp:
						if noneG != nil && x.X == ssa.Value(noneG) {
							return true, "None"
						}
						if al, ok := x.X.(*ssa.Alloc); ok {
							if _, isP := paramCell(al); isP {
								return true, "the receiver unchanged"
							}
						}
					case *ssa.Phi:
						for _, e := range x.Edges {
							if ok, why := judge(e, depth+1); !ok {
								return false, why
							}
						}
						return true, "all alternatives"
					case *ssa.MakeInterface:
						if _, isP := x.X.(*ssa.Parameter); isP {
							return true, "the receiver unchanged"
						}
						if ld, isLd := x.X.(*ssa.UnOp); isLd {
							if al, isAl := ld.X.(*ssa.Alloc); isAl {
								if _, isP := paramCell(al); isP {
									// the receiver spilled to a cell: unchanged unless a field of the cell was stored to
									written := false
									for _, ref := range *al.Referrers() {
										if fa, ok := ref.(*ssa.FieldAddr); ok && fa.Referrers() != nil {
											for _, r2 := range *fa.Referrers() {
												if st, ok := r2.(*ssa.Store); ok && st.Addr == ssa.Value(fa) {
													written = true
												}
											}
										}
									}
									if !written {
										return true, "the receiver unchanged"
									}
								}
							}
						}
						if c, isCall := x.X.(*ssa.Call); isCall {
							return judge(c, depth+1)
						}
						// a representation struct built here: what went into it
						var built []ssa.Value
						if ld, isLd := x.X.(*ssa.UnOp); isLd {
							if al, isAl := ld.X.(*ssa.Alloc); isAl && al.Referrers() != nil {
								built = append(built, al)
								for _, ref := range *al.Referrers() {
									if fa, ok := ref.(*ssa.FieldAddr); ok && fa.Referrers() != nil {
										for _, r2 := range *fa.Referrers() {
											if st, ok := r2.(*ssa.Store); ok && st.Addr == ssa.Value(fa) {
												built = append(built, st.Val)
											}
										}
									}
								}
							}
						}
						aboutBuilt := func(cond ssa.Value) bool {
							if len(built) == 0 {
								return true
							}
							return DependsOn(cond, func(y ssa.Value) bool {
								for _, b := range built {
									if y == b {
										return true
									}
								}
								return false
							})
						}
						for _, cd := range pd.TransitiveControlDeps(ret.Block()) {
							if cond := IfCond(cd.Br); cond != nil && isEmptinessTest(cond) && aboutBuilt(cond) {
								return true, "built under an emptiness test"
							}
						}
						// a store that is the result of a persistent insert (frozen Map.With / Set.With) has at least
						// the inserted entry
						for _, b := range built {
							if c, ok := b.(*ssa.Call); ok {
								if g := c.Call.StaticCallee(); g != nil && !InRepo(g) && baseName(g) == "With" && strings.Contains(g.String(), "arr-ai/frozen") {
									return true, "built around a persistent insert (never empty)"
								}
							}
						}
						// a struct that is the receiver with fields updated in place (Array.Without's clone) still needs the test
						return false, "a " + TypeName(x.X.Type()) + " built here"
					case *ssa.Extract:
						return judge(x.Tuple, depth+1)
					case *ssa.Call:
						if x.Call.IsInvoke() {
							return true, "another set's method"
						}
						g := x.Call.StaticCallee()
						if g == nil || !InRepo(g) {
							return true, "external"
						}
						if returnsNone[g] || g.Name() == mname || g.Name() == "Where" || g.Name() == "Without" {
							return true, "normalising call " + g.Name()
						}
						// a constructor that never yields None: the caller must have tested
						for _, cd := range pd.TransitiveControlDeps(ret.Block()) {
							if cond := IfCond(cd.Br); cond != nil && isEmptinessTest(cond) {
								return true, "constructed under an emptiness test"
							}
						}
						// a package-local helper all of whose results are built around a persistent insert (never empty),
						// are one of its parameters unchanged, or come from a normaliser
						if helperNeverEmpty(g, returnsNone, 0) {
							return true, "helper " + g.Name() + " returns only non-empty or normalised results"
						}
						return false, "the result of " + g.Name() + ", which never returns None"
					}
					return true, "other"
				}
				ok2, why := judge(v, 0)
				r.Check(ok2, key, why, fmt.Sprintf("%s returns %s without testing whether anything is left: when the last member is removed / nothing matches, the result is an empty %s instead of None — it prints as {} but is not equal to {}, does not collapse with it in sets, and leaves an empty bucket behind in a union", FnName(m), why, shortT(T)), ret.Pos())
			})
		}
	}
}

func init() {
	register("C02", Rule{"R02g", ruleShrunkSetsNormalised})
	register("C01", Rule{"R02g", ruleShrunkSetsNormalised})
}

// R02h: equal values are interchangeable only if Equal looks at everything behaviour looks at.  For every value
// type, each representation field that an observer method (CallAll, Has, Enumerator, Count, Get, Names, IsTrue, Less,
// Export, Eval of the value itself excluded) reads must also be read by Equal — transitively through module callees —
// unless the field is a cache (written inside a sync.Once of the same struct), a synchronisation primitive, or
// declared derived from the other fields.
func ruleEqualCoversBehaviour(p *Program, r *Report) {
	r.Begin("R02h", "Equal covers behaviour: for every value type, each field read by an observer method (CallAll, Has, Enumerator, ArrayEnumerator, Count, Get, Names, IsTrue, Less, Export, Where, Map) is also read by Equal (transitively), except caches filled under a sync.Once of the struct, sync primitives and fields declared derived — otherwise two values compare equal (and collapse in a set) yet answer differently", 12)
	defer r.End()
	derived := map[string]string{
		"Array.count":             "number of non-nil items, recomputed from values by every constructor",
		"String.holes":            "number of negative runes in s, recomputed by every constructor",
		"Relation.attrMap":        "index of attrs under p, recomputed by newRelation (mapIndices)",
		"Relation.p":              "determined by attrs and attrMap (attrMap = mapIndices(attrs, p)), both of which Equal reads",
		"NativeFunction.fn":       "Go function values are not comparable; natives are compared by registered name",
		"positionalRelation.meta": "lazily built lookup indices over set",
	}
	gi := scanGuards(p)
	cache := map[string]bool{}
	for _, g := range inferGuards(gi) {
		if g.kind == "once" {
			cache[g.cell] = true
		}
	}
	observers := []string{"CallAll", "Has", "Enumerator", "ArrayEnumerator", "Count", "Get", "Names", "IsTrue", "Less", "Export", "Where", "Map"}
	for _, t := range p.ValueTypes() {
		n, ok := Deref(t).(*types.Named)
		if !ok {
			continue
		}
		st, isStruct := n.Underlying().(*types.Struct)
		if !isStruct {
			continue
		}
		eqM := p.MethodOf(t, "Equal")
		if eqM == nil {
			continue
		}
		r.Fn(FnName(eqM))
		eq, obs := map[string]bool{}, map[string]bool{}
		fieldsRead(p, eqM, n, map[*ssa.Function]bool{}, eq, 0)
		by := map[string]string{}
		for _, m := range observers {
			if om := p.MethodOf(t, m); om != nil {
				one := map[string]bool{}
				fieldsRead(p, om, n, map[*ssa.Function]bool{}, one, 0)
				for f := range one {
					if !obs[f] {
						by[f] = m
					}
					obs[f] = true
				}
			}
		}
		name := shortT(n)
		// Hash must not look at more than Equal does: a field only Hash reads makes equal values hash differently
		if hm := p.MethodOf(t, "Hash"); hm != nil && !isPanicOnly(hm) {
			hf := map[string]bool{}
			fieldsRead(p, hm, n, map[*ssa.Function]bool{}, hf, 0)
			var extra []string
			for f := range hf {
				if eq[f] || cache[TypeName(n)+"."+f] {
					continue
				}
				if _, isDerived := derived[name+"."+f]; isDerived {
					continue
				}
				extra = append(extra, f)
			}
			sort.Strings(extra)
			if len(extra) == 0 {
				r.OK("hash-within-equal@"+name, fmt.Sprintf("Hash reads {%s} ⊆ Equal reads {%s}", strings.Join(SortedKeys(hf), ","), strings.Join(SortedKeys(eq), ",")), hm.Pos())
			}
			for _, f := range extra {
				r.Viol("hash-within-equal@"+name+"."+f, fmt.Sprintf("%s.Hash reads field %s, which %s.Equal never looks at: two values Equal identifies can hash differently, so hashed containers keep both and lookups miss", name, f, name), hm.Pos())
			}
		}
		var miss []string
		for f := range obs {
			if eq[f] {
				continue
			}
			if _, isDerived := derived[name+"."+f]; isDerived {
				continue
			}
			if cache[TypeName(n)+"."+f] {
				continue
			}
			skip := false
			for i := 0; i < st.NumFields(); i++ {
				if st.Field(i).Name() == f && syncKind(st.Field(i).Type()) != "" {
					skip = true
				}
			}
			if skip {
				continue
			}
			miss = append(miss, f)
		}
		sort.Strings(miss)
		if len(miss) == 0 {
			r.OK("covers@"+name, fmt.Sprintf("observers read {%s}; Equal reads {%s}", strings.Join(SortedKeys(obs), ","), strings.Join(SortedKeys(eq), ",")), eqM.Pos())
			continue
		}
		for _, f := range miss {
			r.Viol("covers@"+name+"."+f, fmt.Sprintf("%s.%s reads field %s, which %s.Equal never looks at: two values that differ only there compare equal, hash equal and collapse in a set, yet answer differently", name, by[f], f, name), eqM.Pos())
		}
	}
}

func init() { register("C02", Rule{"R02h", ruleEqualCoversBehaviour}) }

// R02i: Hash must not see more than Equal.  Number.Equal compares with ==, for which +0 and -0 are one value; a hash
// of the bit pattern tells them apart, so equal numbers land in different trie branches: {0 * -1} = {0} is false and
// a lookup of 0 misses the key -0.  (frozen's hash.Float64 normalises the zeros; math.Float64bits does not.)
func ruleHashNoBitPattern(p *Program, r *Report) {
	r.Begin("R02i", "Hash sees no more than Equal: no Hash method of a value type (nor a module function it calls) takes the bit pattern of a float (math.Float64bits / Float32bits, unsafe reinterpretation): == identifies +0 and -0, the bit pattern does not", 15)
	defer r.End()
	for _, t := range p.ValueTypes() {
		hm := p.MethodOf(t, "Hash")
		if hm == nil {
			continue
		}
		r.Fn(FnName(hm))
		bad := ""
		var pos token.Pos
		seen := map[*ssa.Function]bool{}
		var walk func(f *ssa.Function, depth int)
		walk = func(f *ssa.Function, depth int) {
			if f == nil || seen[f] || f.Blocks == nil || depth > 4 {
				return
			}
			seen[f] = true
			ForEachInstr(f, func(ins ssa.Instruction) {
				switch x := ins.(type) {
				case *ssa.Call:
					nm := CalleeName(&x.Call)
					if nm == "math.Float64bits" || nm == "math.Float32bits" {
						if bad == "" {
							bad, pos = nm, x.Pos()
						}
					}
					if g := x.Call.StaticCallee(); g != nil && InRepo(g) {
						walk(g, depth+1)
					}
				case *ssa.Convert:
					// float → unsafe.Pointer tricks show up as Convert to unsafe.Pointer of an address
					if b, ok := x.Type().Underlying().(*types.Basic); ok && b.Kind() == types.UnsafePointer {
						if bad == "" {
							bad, pos = "unsafe.Pointer conversion", x.Pos()
						}
					}
				}
			})
		}
		walk(hm, 0)
		name := shortT(Deref(t).(*types.Named))
		r.Check(bad == "", "hash@"+name, "hashes values, not bit patterns", fmt.Sprintf("%s.Hash goes through %s: +0 and -0 are equal under == but have different bit patterns, so two equal values hash differently — sets that hold one do not equal sets that hold the other, and lookups miss", name, bad), func() token.Pos {
			if bad != "" {
				return pos
			}
			return hm.Pos()
		}())
	}
}

func init() { register("C02", Rule{"R02i", ruleHashNoBitPattern}) }

// helperNeverEmpty: every non-error return of g is a parameter handed back, a value whose store is the result of a
// persistent insert (frozen Map.With / Set.With: at least the inserted entry), or the result of a normalising function.
func helperNeverEmpty(g *ssa.Function, returnsNone map[*ssa.Function]bool, depth int) bool {
	if g == nil || g.Blocks == nil || depth > 2 {
		return false
	}
	var okVal func(v ssa.Value, d int) bool
	okVal = func(v ssa.Value, d int) bool {
		if d > 4 {
			return false
		}
		switch x := v.(type) {
		case *ssa.Parameter:
			return true
		case *ssa.Phi:
			for _, e := range x.Edges {
				if !okVal(e, d+1) {
					return false
				}
			}
			return true
		case *ssa.Extract:
			return okVal(x.Tuple, d+1)
		case *ssa.Call:
			k := x.Call.StaticCallee()
			if k == nil {
				return x.Call.IsInvoke()
			}
			if !InRepo(k) {
				return baseName(k) == "With" && strings.Contains(k.String(), "arr-ai/frozen")
			}
			return returnsNone[k] || helperNeverEmpty(k, returnsNone, depth+1)
		case *ssa.MakeInterface:
			if _, isP := x.X.(*ssa.Parameter); isP {
				return true
			}
			if c, ok := x.X.(*ssa.Call); ok {
				return okVal(c, d+1)
			}
			if ld, ok := x.X.(*ssa.UnOp); ok {
				if al, ok := ld.X.(*ssa.Alloc); ok && al.Referrers() != nil {
					if _, isP := paramCell(al); isP {
						return true
					}
					for _, ref := range *al.Referrers() {
						if fa, ok := ref.(*ssa.FieldAddr); ok && fa.Referrers() != nil {
							for _, r2 := range *fa.Referrers() {
								if st, ok := r2.(*ssa.Store); ok && st.Addr == ssa.Value(fa) && okVal(st.Val, d+1) {
									return true
								}
							}
						}
					}
				}
			}
		case *ssa.UnOp:
			if al, ok := x.X.(*ssa.Alloc); ok {
				if _, isP := paramCell(al); isP {
					return true
				}
			}
		}
		return false
	}
	n := 0
	for _, b := range g.Blocks {
		ret, ok := b.Instrs[len(b.Instrs)-1].(*ssa.Return)
		if !ok || len(ret.Results) == 0 {
			continue
		}
		last := len(ret.Results) - 1
		if last > 0 && isErrorType(ret.Results[last].Type()) && !IsNilConst(RetVal(ret, last)) {
			continue
		}
		n++
		if !okVal(RetVal(ret, 0), 0) {
			return false
		}
	}
	return n > 0
}
