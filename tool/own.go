package main

// Ownership analysis for slices and maps (DESIGN.md §2.3): may a slice/map value alias storage that an
// already existing arr.ai value can still reach?  Flow-sensitive inside a function for local cells,
// summary-based across functions (fixpoint; dynamic calls resolved with VTA).

import (
	"fmt"
	"go/token"
	"go/types"
	"sort"
	"strings"

	"golang.org/x/tools/go/ssa"
)

type oState uint8

const (
	oOwned  oState = iota // fresh storage nobody else references
	oCapped               // aliases shared storage but cap == len: append reallocates, element stores still write through
	oShared               // may alias storage reachable from an existing value, with possible spare capacity
)

func (s oState) String() string { return [...]string{"owned", "capped", "shared"}[s] }

func omax(a, b oState) oState {
	if a > b {
		return a
	}
	return b
}

type cellKey struct {
	a *ssa.Alloc
	f int // field index; -1 = the cell itself
}

type ownSummary struct {
	param        []oState
	result       []oState
	resultFields []map[int]oState
	mutAppend    []bool
	mutStore     []bool
	free         []oState
}

// OwnSink is one evaluated write-through site.
type OwnSink struct {
	Fn     *ssa.Function
	Ins    ssa.Instruction
	Kind   string // append | store | copy | sort | mapupdate | delete | pass-append | pass-store
	Base   string
	State  oState
	Why    string
	Bad    bool
	Exempt string
}

// Own is the engine.
type Own struct {
	P          *Program
	valueI     *types.Interface
	storage    map[string]bool // struct type names (rel.X) that are value-storage structs
	sums       map[*ssa.Function]*ownSummary
	fieldState map[*types.Var]oState
	Audited    map[string]string // function name -> reason: sinks inside are exempt (one named symbol each)
	changed    bool
	Sinks      map[string]*OwnSink
	onceBodies map[*ssa.Function]bool
	Rounds     int
	fns        []*ssa.Function
}

func isSliceOrMap(t types.Type) bool {
	switch t.Underlying().(type) {
	case *types.Slice, *types.Map:
		return true
	}
	return false
}

// NewOwn prepares the analysis over the functions of the given module packages (all when nil).
func NewOwn(p *Program) *Own {
	o := &Own{P: p, storage: map[string]bool{}, sums: map[*ssa.Function]*ownSummary{}, fieldState: map[*types.Var]oState{},
		Sinks: map[string]*OwnSink{}, onceBodies: map[*ssa.Function]bool{}}
	if n := p.NamedType("rel", "Value"); n != nil {
		o.valueI = n.Underlying().(*types.Interface)
	}
	// value-storage structs: value types and the structs (of package rel) reachable through their fields
	var visit func(t types.Type, depth int)
	visit = func(t types.Type, depth int) {
		t = Deref(t)
		n, ok := t.(*types.Named)
		if !ok || depth > 4 {
			return
		}
		st, ok := n.Underlying().(*types.Struct)
		if !ok || n.Obj().Pkg() == nil || n.Obj().Pkg().Path() != Mod+"/rel" {
			return
		}
		if o.storage[n.String()] {
			return
		}
		o.storage[n.String()] = true
		for i := 0; i < st.NumFields(); i++ {
			visit(st.Field(i).Type(), depth+1)
		}
	}
	for _, t := range p.ValueTypes() {
		visit(t, 0)
	}
	for _, extra := range []string{"projectedValues", "Attr"} {
		if n := p.NamedType("rel", extra); n != nil {
			visit(n, 0)
		}
	}
	// builders are mutable by design: not value storage
	for k := range o.storage {
		if strings.Contains(k, "Builder") || strings.Contains(k, "builder") {
			delete(o.storage, k)
		}
	}
	for _, fn := range p.RepoFns {
		o.fns = append(o.fns, fn)
		// bodies passed to sync.Once.Do
		ForEachInstr(fn, func(ins ssa.Instruction) {
			c, ok := ins.(ssa.CallInstruction)
			if !ok {
				return
			}
			callee := c.Common().StaticCallee()
			if callee == nil || callee.String() != "(*sync.Once).Do" {
				return
			}
			for _, a := range c.Common().Args {
				for _, f := range FuncValueTargets(a) {
					o.onceBodies[f] = true
				}
			}
		})
	}
	return o
}

func (o *Own) isStorageStruct(t types.Type) bool {
	t = Deref(t)
	if _, ok := t.Underlying().(*types.Struct); !ok {
		return false
	}
	return o.storage[t.String()]
}

func (o *Own) sum(fn *ssa.Function) *ownSummary {
	s := o.sums[fn]
	if s == nil {
		nr := fn.Signature.Results().Len()
		s = &ownSummary{
			param:        make([]oState, len(fn.Params)),
			result:       make([]oState, nr),
			resultFields: make([]map[int]oState, nr),
			mutAppend:    make([]bool, len(fn.Params)),
			mutStore:     make([]bool, len(fn.Params)),
			free:         make([]oState, len(fn.FreeVars)),
		}
		o.sums[fn] = s
	}
	return s
}

// Run iterates to a fixpoint and then records the sinks.
func (o *Own) Run() {
	for round := 0; round < 30; round++ {
		o.changed = false
		for _, fn := range o.fns {
			o.analyze(fn, false)
		}
		o.Rounds = round + 1
		if !o.changed {
			break
		}
	}
	for _, fn := range o.fns {
		o.analyze(fn, true)
	}
}

type ownFrame struct {
	o      *Own
	fn     *ssa.Function
	sum    *ownSummary
	vals   map[ssa.Value]oState
	why    map[ssa.Value]string
	fvals  map[ssa.Value]map[int]oState
	report bool
	ord    map[string]int
}

func (fr *ownFrame) setVal(v ssa.Value, s oState, why string) bool {
	old, ok := fr.vals[v]
	n := omax(old, s)
	if !ok || n != old {
		fr.vals[v] = n
		if s >= old && why != "" {
			fr.why[v] = why
		}
		return true
	}
	return false
}

// S returns the state of a slice/map-typed value.
func (fr *ownFrame) S(v ssa.Value) oState {
	switch x := v.(type) {
	case *ssa.Const, *ssa.MakeSlice, *ssa.MakeMap, *ssa.Global, *ssa.Function:
		return oOwned
	case *ssa.Parameter:
		for i, p := range fr.fn.Params {
			if p == x {
				return fr.sum.param[i]
			}
		}
	}
	return fr.vals[v]
}

func (fr *ownFrame) Why(v ssa.Value) string {
	switch x := v.(type) {
	case *ssa.Parameter:
		return "parameter " + x.Name() + " receives shared storage at some call site"
	}
	if w, ok := fr.why[v]; ok {
		return w
	}
	return ""
}

// F returns the state of slice/map field i of struct value v.
func (fr *ownFrame) F(v ssa.Value, i int, fv *types.Var) oState {
	if m, ok := fr.fvals[v]; ok {
		if s, ok := m[i]; ok {
			return s
		}
	}
	if fr.o.isStorageStruct(v.Type()) {
		return oShared
	}
	return fr.o.fieldState[fv]
}

func structOf(t types.Type) *types.Struct {
	st, _ := Deref(t).Underlying().(*types.Struct)
	return st
}

func baseDesc(v ssa.Value) string {
	for i := 0; i < 8; i++ {
		switch x := v.(type) {
		case *ssa.Parameter:
			return "param:" + x.Name()
		case *ssa.FreeVar:
			return "captured:" + x.Name()
		case *ssa.Slice:
			v = x.X
			continue
		case *ssa.ChangeType:
			v = x.X
			continue
		case *ssa.UnOp:
			v = x.X
			continue
		case *ssa.FieldAddr:
			if st := structOf(x.X.Type()); st != nil {
				return "field:" + TypeName(Deref(x.X.Type())) + "." + st.Field(x.Field).Name()
			}
		case *ssa.Field:
			if st := structOf(x.X.Type()); st != nil {
				return "field:" + TypeName(x.X.Type()) + "." + st.Field(x.Field).Name()
			}
		case *ssa.Alloc:
			if x.Comment != "" {
				return "local:" + x.Comment
			}
			return "local"
		case *ssa.Call:
			return "result:" + CalleeName(&x.Call)
		case *ssa.Extract:
			v = x.Tuple
			continue
		case *ssa.Phi:
			if x.Comment != "" {
				return "var:" + x.Comment
			}
			v = x.Edges[0]
			continue
		case *ssa.TypeAssert:
			return "asserted:" + TypeName(x.AssertedType)
		case *ssa.IndexAddr:
			return "element-of:" + baseDesc(x.X)
		case *ssa.MakeInterface:
			v = x.X
			continue
		}
		break
	}
	return "value"
}

func (fr *ownFrame) sink(ins ssa.Instruction, kind string, base ssa.Value) {
	st := fr.S(base)
	bad := false
	switch kind {
	case "append":
		bad = st == oShared
	default:
		bad = st >= oCapped
	}
	// parameter mutation summaries (an append on a cap-limited re-slice does not touch the parameter's storage)
	protected := false
	if sl, ok := base.(*ssa.Slice); ok && kind == "append" && sl.Max != nil && capEqualsLen(sl) {
		protected = true
	}
	if p, ok := rootParam(base); ok && !protected {
		for i, q := range fr.fn.Params {
			if q == p {
				if kind == "append" && !fr.sum.mutAppend[i] {
					fr.sum.mutAppend[i] = true
					fr.o.changed = true
				}
				if kind != "append" && !fr.sum.mutStore[i] {
					fr.sum.mutStore[i] = true
					fr.o.changed = true
				}
			}
		}
	}
	// a closure that can run more than once extends storage it captured without writing the result back to the
	// captured cell: every invocation appends to the same backing array, so the results of two invocations (two
	// partial applications of one curried function, …) overwrite each other when there is spare capacity
	why := fr.Why(base)
	if kind == "append" && !bad && !protected && fr.fn.Parent() != nil && !singleInvocation(fr.fn) {
		if addr, ok := capturedCell(base); ok && st != oCapped {
			back := false
			if v, isV := ins.(ssa.Value); isV && v.Referrers() != nil {
				var follow func(x ssa.Value, d int)
				follow = func(x ssa.Value, d int) {
					if d > 3 || x.Referrers() == nil {
						return
					}
					for _, ref := range *x.Referrers() {
						switch u := ref.(type) {
						case *ssa.Store:
							if u.Val == x && sameAddr(u.Addr, addr, 0) {
								back = true
							}
						case *ssa.Phi:
							follow(u, d+1)
						}
					}
				}
				follow(v, 0)
			}
			if !back {
				bad = true
				st = oShared
				why = "captured by a closure that can be invoked repeatedly, and the extended slice is not written back to the captured variable: all invocations append to one backing array"
			}
		}
	}
	if !fr.report {
		return
	}
	fr.record(ins, kind, baseDesc(base), st, why, bad)
}

// capturedCell: v is a load from a captured variable, or from a field of a captured struct; returns the address loaded.
func capturedCell(v ssa.Value) (ssa.Value, bool) {
	if ph, isPhi := v.(*ssa.Phi); isPhi {
		for _, e := range ph.Edges {
			if _, isPhi2 := e.(*ssa.Phi); isPhi2 {
				continue
			}
			if a, ok := capturedCell(e); ok {
				return a, true
			}
		}
		return nil, false
	}
	ld, ok := v.(*ssa.UnOp)
	if !ok || ld.Op != token.MUL {
		return nil, false
	}
	a := ld.X
	for i := 0; i < 4; i++ {
		switch x := a.(type) {
		case *ssa.FreeVar:
			return ld.X, true
		case *ssa.FieldAddr:
			a = x.X
		case *ssa.UnOp:
			if x.Op != token.MUL {
				return nil, false
			}
			a = x.X
		default:
			return nil, false
		}
	}
	return nil, false
}

// singleInvocation: the function literal is only ever called where it is written (immediately invoked, deferred,
// started with go) or handed to sync.Once.Do.
func singleInvocation(fn *ssa.Function) bool {
	par := fn.Parent()
	if par == nil {
		return true
	}
	single := true
	found := false
	ForEachInstr(par, func(ins ssa.Instruction) {
		mc, ok := ins.(*ssa.MakeClosure)
		if !ok || mc.Fn != ssa.Value(fn) {
			return
		}
		found = true
		if mc.Referrers() == nil {
			return
		}
		for _, ref := range *mc.Referrers() {
			switch u := ref.(type) {
			case *ssa.Call:
				if u.Call.Value == ssa.Value(mc) {
					continue
				}
				if g := u.Call.StaticCallee(); g != nil && g.String() == "(*sync.Once).Do" {
					continue
				}
				single = false
			case *ssa.Defer:
				if u.Call.Value != ssa.Value(mc) {
					single = false
				}
			case *ssa.Go:
				if u.Call.Value != ssa.Value(mc) {
					single = false
				}
			case *ssa.DebugRef:
			default:
				single = false
			}
		}
	})
	return found && single
}

func (fr *ownFrame) record(ins ssa.Instruction, kind, desc string, st oState, why string, bad bool) {
	k := fmt.Sprintf("%s@%s#%s", kind, FnName(fr.fn), desc)
	fr.ord[k]++
	if fr.ord[k] > 1 {
		k = fmt.Sprintf("%s~%d", k, fr.ord[k])
	}
	s := &OwnSink{Fn: fr.fn, Ins: ins, Kind: kind, Base: desc, State: st, Why: why, Bad: bad}
	if bad {
		for f := fr.fn; f != nil; f = f.Parent() {
			if why, ok := fr.o.Audited[FnName(f)]; ok {
				s.Exempt = "audited: " + why
				s.Bad = false
			}
			if fr.o.onceBodies[f] {
				s.Exempt = "first initialisation of a cache inside sync.Once.Do (single writer, proved by the guarded-by rule of C11)"
				s.Bad = false
			}
		}
	}
	fr.o.Sinks[k] = s
}

func rootParam(v ssa.Value) (*ssa.Parameter, bool) {
	for i := 0; i < 10; i++ {
		switch x := v.(type) {
		case *ssa.Parameter:
			return x, true
		case *ssa.Slice:
			v = x.X
		case *ssa.ChangeType:
			v = x.X
		default:
			return nil, false
		}
	}
	return nil, false
}

func (o *Own) analyze(fn *ssa.Function, report bool) {
	fr := &ownFrame{o: o, fn: fn, sum: o.sum(fn), vals: map[ssa.Value]oState{}, why: map[ssa.Value]string{}, fvals: map[ssa.Value]map[int]oState{}, ord: map[string]int{}}
	out := map[*ssa.BasicBlock]map[cellKey]oState{}
	in := map[*ssa.BasicBlock]map[cellKey]oState{}
	for iter := 0; iter < 60; iter++ {
		ch := false
		for _, b := range fn.Blocks {
			st := map[cellKey]oState{}
			seenPred := b.Index == 0
			for _, p := range b.Preds {
				if _, ok := out[p]; ok {
					seenPred = true
				}
				for k, v := range out[p] {
					st[k] = omax(st[k], v)
				}
			}
			if !seenPred {
				continue // not reached yet in this iteration order
			}
			in[b] = st
			cp := make(map[cellKey]oState, len(st))
			for k, v := range st {
				cp[k] = v
			}
			valsBefore := len(fr.vals)
			chv := fr.transfer(b, cp)
			_, had := out[b]
			if chv || !had || len(fr.vals) != valsBefore || !sameCells(cp, out[b]) {
				out[b] = cp
				ch = true
			}
		}
		if !ch {
			break
		}
	}
	// captured variables: join of everything stored into the captured cell
	ForEachInstr(fn, func(ins ssa.Instruction) {
		mc, ok := ins.(*ssa.MakeClosure)
		if !ok {
			return
		}
		cs := o.sum(mc.Fn.(*ssa.Function))
		for i, b := range mc.Bindings {
			var s oState
			if a, ok := b.(*ssa.Alloc); ok {
				for _, ref := range *a.Referrers() {
					if st, ok := ref.(*ssa.Store); ok && st.Addr == a && isSliceOrMap(st.Val.Type()) {
						s = omax(s, fr.S(st.Val))
					}
				}
			} else if isSliceOrMap(b.Type()) {
				s = fr.S(b)
			}
			if i < len(cs.free) && s > cs.free[i] {
				cs.free[i] = s
				o.changed = true
			}
		}
	})
	if report {
		fr.report = true
		for _, b := range fn.Blocks {
			cp := make(map[cellKey]oState, len(in[b]))
			for k, v := range in[b] {
				cp[k] = v
			}
			fr.transfer(b, cp)
		}
	}
}

func sameCells(a, b map[cellKey]oState) bool {
	if len(a) != len(b) {
		return false
	}
	for k, v := range a {
		if w, ok := b[k]; !ok || w != v {
			return false
		}
	}
	return true
}

func (fr *ownFrame) setF(v ssa.Value, i int, s oState) bool {
	m := fr.fvals[v]
	if m == nil {
		m = map[int]oState{}
		fr.fvals[v] = m
	}
	old, ok := m[i]
	n := omax(old, s)
	if !ok || n != old {
		m[i] = n
		return true
	}
	return false
}

func (fr *ownFrame) transfer(b *ssa.BasicBlock, st map[cellKey]oState) bool {
	o := fr.o
	ch := false
	for _, ins := range b.Instrs {
		switch x := ins.(type) {
		case *ssa.Alloc:
			// zero value: every slice/map field (or the cell itself) starts out owned (nil)
			et := Deref(x.Type())
			if isSliceOrMap(et) {
				st[cellKey{x, -1}] = oOwned
			} else if stt, ok := et.Underlying().(*types.Struct); ok {
				for i := 0; i < stt.NumFields(); i++ {
					if isSliceOrMap(stt.Field(i).Type()) {
						st[cellKey{x, i}] = oOwned
					}
				}
			}
		case *ssa.Store:
			switch a := x.Addr.(type) {
			case *ssa.Alloc:
				if isSliceOrMap(x.Val.Type()) {
					st[cellKey{a, -1}] = fr.S(x.Val)
				} else if stt, ok := x.Val.Type().Underlying().(*types.Struct); ok {
					for i := 0; i < stt.NumFields(); i++ {
						if isSliceOrMap(stt.Field(i).Type()) {
							st[cellKey{a, i}] = fr.F(x.Val, i, stt.Field(i))
						}
					}
				}
			case *ssa.FieldAddr:
				if !isSliceOrMap(x.Val.Type()) {
					break
				}
				s := fr.S(x.Val)
				if al, ok := a.X.(*ssa.Alloc); ok {
					st[cellKey{al, a.Field}] = s
				}
				if stt := structOf(a.X.Type()); stt != nil {
					fv := stt.Field(a.Field)
					if s > o.fieldState[fv] {
						o.fieldState[fv] = s
						o.changed = true
					}
				}
			case *ssa.IndexAddr:
				if _, isSlice := a.X.Type().Underlying().(*types.Slice); isSlice {
					fr.sink(ins, "store", a.X)
				}
			case *ssa.UnOp, *ssa.FreeVar:
				// store through a captured variable: join into the closure's free-variable state
				if fvv, ok := x.Addr.(*ssa.FreeVar); ok && isSliceOrMap(x.Val.Type()) {
					for i, f := range fr.fn.FreeVars {
						if f == fvv {
							if s := fr.S(x.Val); s > fr.sum.free[i] {
								fr.sum.free[i] = s
								o.changed = true
							}
						}
					}
				}
			}
		case *ssa.MapUpdate:
			fr.sink(ins, "mapupdate", x.Map)
		case *ssa.UnOp:
			if x.Op != token.MUL {
				break
			}
			isSM := isSliceOrMap(x.Type())
			stt, isStruct := x.Type().Underlying().(*types.Struct)
			if !isSM && !isStruct {
				break
			}
			switch a := x.X.(type) {
			case *ssa.Alloc:
				if isSM {
					if fr.setVal(x, st[cellKey{a, -1}], "local variable holding shared storage") {
						ch = true
					}
				} else {
					for i := 0; i < stt.NumFields(); i++ {
						if isSliceOrMap(stt.Field(i).Type()) {
							if s, ok := st[cellKey{a, i}]; ok {
								if fr.setF(x, i, s) {
									ch = true
								}
							} else if _, isParamCell := paramCell(a); !isParamCell && !o.isStorageStruct(x.Type()) {
								if fr.setF(x, i, oOwned) {
									ch = true
								}
							}
						}
					}
				}
			case *ssa.FieldAddr:
				if !isSM {
					break
				}
				if al, ok := a.X.(*ssa.Alloc); ok {
					if s, ok := st[cellKey{al, a.Field}]; ok {
						if fr.setVal(x, s, "field of a local struct copied from an existing value") {
							ch = true
						}
						break
					}
				}
				if sst := structOf(a.X.Type()); sst != nil {
					if o.isStorageStruct(a.X.Type()) {
						if fr.setVal(x, oShared, "field "+TypeName(Deref(a.X.Type()))+"."+sst.Field(a.Field).Name()+" of an existing value") {
							ch = true
						}
					} else if fr.setVal(x, o.fieldState[sst.Field(a.Field)], "field "+sst.Field(a.Field).Name()+" that somewhere receives shared storage") {
						ch = true
					}
				}
			case *ssa.IndexAddr:
				if isSM {
					s := fr.S(a.X)
					if s >= oCapped {
						s = oShared
					}
					if fr.setVal(x, s, "element of a shared slice of slices") {
						ch = true
					}
				}
			case *ssa.FreeVar:
				if isSM {
					for i, f := range fr.fn.FreeVars {
						if f == a {
							if fr.setVal(x, fr.sum.free[i], "captured variable holding shared storage") {
								ch = true
							}
						}
					}
				}
			}
		case *ssa.Field:
			if isSliceOrMap(x.Type()) {
				if stt := structOf(x.X.Type()); stt != nil {
					s := fr.F(x.X, x.Field, stt.Field(x.Field))
					if fr.setVal(x, s, "field "+TypeName(x.X.Type())+"."+stt.Field(x.Field).Name()+" of an existing value") {
						ch = true
					}
				}
			} else if stt, ok := x.Type().Underlying().(*types.Struct); ok {
				// nested struct: propagate default
				_ = stt
			}
		case *ssa.Slice:
			if !isSliceOrMap(x.Type()) {
				break
			}
			if _, isPtr := x.X.Type().Underlying().(*types.Pointer); isPtr {
				break // slicing an array
			}
			if bt, ok := x.X.Type().Underlying().(*types.Basic); ok && bt.Info()&types.IsString != 0 {
				break
			}
			s := fr.S(x.X)
			if s == oShared && x.Max != nil && capEqualsLen(x) {
				s = oCapped
			}
			if fr.setVal(x, s, fr.Why(x.X)) {
				ch = true
			}
		case *ssa.Phi:
			if isSliceOrMap(x.Type()) {
				for _, e := range x.Edges {
					if fr.setVal(x, fr.S(e), fr.Why(e)) {
						ch = true
					}
				}
			} else if stt, ok := x.Type().Underlying().(*types.Struct); ok {
				for i := 0; i < stt.NumFields(); i++ {
					if isSliceOrMap(stt.Field(i).Type()) {
						for _, e := range x.Edges {
							if fr.setF(x, i, fr.F(e, i, stt.Field(i))) {
								ch = true
							}
						}
					}
				}
			}
		case *ssa.ChangeType:
			if isSliceOrMap(x.Type()) {
				if fr.setVal(x, fr.S(x.X), fr.Why(x.X)) {
					ch = true
				}
			}
		case *ssa.Convert:
			if isSliceOrMap(x.Type()) && isSliceOrMap(x.X.Type()) {
				if fr.setVal(x, fr.S(x.X), fr.Why(x.X)) {
					ch = true
				}
			}
		case *ssa.TypeAssert:
			t := x.AssertedType
			if isSliceOrMap(t) && !x.CommaOk {
				if n, ok := t.(*types.Named); ok && n.Obj().Pkg() != nil && strings.HasPrefix(n.Obj().Pkg().Path(), Mod) {
					if fr.setVal(x, oShared, "row/element pulled out of a container ("+TypeName(t)+")") {
						ch = true
					}
				}
			}
		case *ssa.Extract:
			if fr.extract(x) {
				ch = true
			}
		case *ssa.Lookup:
			if isSliceOrMap(x.Type()) && !x.CommaOk {
				if s := fr.S(x.X); s >= oCapped {
					if fr.setVal(x, oShared, "element of a shared map") {
						ch = true
					}
				}
			}
		case *ssa.Call:
			if fr.call(x, x) {
				ch = true
			}
		case *ssa.Defer:
			fr.call(x, nil)
		case *ssa.Go:
			fr.call(x, nil)
		case *ssa.Return:
			for j, rv := range x.Results {
				if j >= len(fr.sum.result) {
					break
				}
				if isSliceOrMap(rv.Type()) {
					if s := fr.S(rv); s > fr.sum.result[j] {
						fr.sum.result[j] = s
						o.changed = true
					}
				} else if stt, ok := rv.Type().Underlying().(*types.Struct); ok {
					m := fr.sum.resultFields[j]
					if m == nil {
						m = map[int]oState{}
						fr.sum.resultFields[j] = m
					}
					for i := 0; i < stt.NumFields(); i++ {
						if isSliceOrMap(stt.Field(i).Type()) {
							s := fr.F(rv, i, stt.Field(i))
							if old, ok := m[i]; !ok || s > old {
								m[i] = s
								o.changed = true
							}
						}
					}
				}
			}
		}
	}
	return ch
}

func paramCell(a *ssa.Alloc) (*ssa.Parameter, bool) {
	for _, ref := range *a.Referrers() {
		if st, ok := ref.(*ssa.Store); ok && st.Addr == a {
			if p, ok := st.Val.(*ssa.Parameter); ok {
				return p, true
			}
		}
	}
	return nil, false
}

// capEqualsLen recognises s[l:h:h] (max and high are the same SSA value or equal constants).
func capEqualsLen(x *ssa.Slice) bool {
	if x.Max == nil || x.High == nil {
		return false
	}
	return sameValue(x.Max, x.High, 0)
}

// sameValue: structural equality of two SSA values (go/ssa performs no CSE, so `len(s.s)` written twice is
// two calls on two loads).  Loads are equal when they read the same address in the same block with no
// store to that address in between.
func sameValue(a, b ssa.Value, depth int) bool {
	if a == b {
		return true
	}
	if depth > 5 {
		return false
	}
	switch x := a.(type) {
	case *ssa.Const:
		y, ok := b.(*ssa.Const)
		return ok && x.Value != nil && y.Value != nil && x.Value.ExactString() == y.Value.ExactString()
	case *ssa.Call:
		y, ok := b.(*ssa.Call)
		if !ok {
			return false
		}
		b1, ok1 := x.Call.Value.(*ssa.Builtin)
		b2, ok2 := y.Call.Value.(*ssa.Builtin)
		if ok1 && ok2 && b1.Name() == "len" && b2.Name() == "len" {
			return sameValue(x.Call.Args[0], y.Call.Args[0], depth+1)
		}
	case *ssa.UnOp:
		y, ok := b.(*ssa.UnOp)
		if !ok || x.Op != token.MUL || y.Op != token.MUL || x.Block() != y.Block() {
			return false
		}
		if !sameAddr(x.X, y.X, depth+1) {
			return false
		}
		i, j := InstrIndex(x), InstrIndex(y)
		if i > j {
			i, j = j, i
		}
		for _, ins := range x.Block().Instrs[i:j] {
			if st, ok := ins.(*ssa.Store); ok && sameAddr(st.Addr, x.X, depth+1) {
				return false
			}
		}
		return true
	case *ssa.Field:
		y, ok := b.(*ssa.Field)
		return ok && x.Field == y.Field && sameValue(x.X, y.X, depth+1)
	case *ssa.MakeInterface:
		y, ok := b.(*ssa.MakeInterface)
		return ok && types.Identical(x.Type(), y.Type()) && sameValue(x.X, y.X, depth+1)
	case *ssa.ChangeInterface:
		y, ok := b.(*ssa.ChangeInterface)
		return ok && sameValue(x.X, y.X, depth+1)
	case *ssa.Extract:
		y, ok := b.(*ssa.Extract)
		return ok && x.Index == y.Index && x.Tuple == y.Tuple
	}
	return false
}

func sameAddr(a, b ssa.Value, depth int) bool {
	if a == b {
		return true
	}
	x, ok1 := a.(*ssa.FieldAddr)
	y, ok2 := b.(*ssa.FieldAddr)
	if ok1 && ok2 && x.Field == y.Field {
		return sameAddr(x.X, y.X, depth+1) || sameValue(x.X, y.X, depth+1)
	}
	return false
}

func (fr *ownFrame) extract(x *ssa.Extract) bool {
	ch := false
	switch t := x.Tuple.(type) {
	case *ssa.Call:
		callees := fr.o.P.Callees(t)
		if isSliceOrMap(x.Type()) {
			for _, c := range callees {
				if !InRepo(c) || c.Blocks == nil {
					continue
				}
				cs := fr.o.sum(c)
				if x.Index < len(cs.result) {
					if fr.setVal(x, cs.result[x.Index], "result #"+fmt.Sprint(x.Index)+" of "+FnName(c)) {
						ch = true
					}
				}
			}
		} else if stt, ok := x.Type().Underlying().(*types.Struct); ok {
			ch = fr.structResult(x, callees, x.Index, stt) || ch
		}
	case *ssa.Next:
		if isSliceOrMap(x.Type()) && x.Index == 2 {
			if rg, ok := t.Iter.(*ssa.Range); ok {
				if s := fr.S(rg.X); s >= oCapped {
					if fr.setVal(x, oShared, "value of a shared map") {
						ch = true
					}
				}
			}
		}
	case *ssa.TypeAssert:
		if x.Index == 0 && isSliceOrMap(x.Type()) {
			if n, ok := x.Type().(*types.Named); ok && n.Obj().Pkg() != nil && strings.HasPrefix(n.Obj().Pkg().Path(), Mod) {
				if fr.setVal(x, oShared, "row/element pulled out of a container ("+TypeName(x.Type())+")") {
					ch = true
				}
			}
		}
	}
	return ch
}

func (fr *ownFrame) structResult(v ssa.Value, callees []*ssa.Function, idx int, stt *types.Struct) bool {
	ch := false
	all := len(callees) > 0
	for _, c := range callees {
		if !InRepo(c) || c.Blocks == nil || idx >= len(fr.o.sum(c).resultFields) || fr.o.sum(c).resultFields[idx] == nil {
			all = false
		}
	}
	if !all {
		return false
	}
	for i := 0; i < stt.NumFields(); i++ {
		if !isSliceOrMap(stt.Field(i).Type()) {
			continue
		}
		for _, c := range callees {
			if s, ok := fr.o.sum(c).resultFields[idx][i]; ok {
				if fr.setF(v, i, s) {
					ch = true
				}
			}
		}
	}
	return ch
}

var extMutators = map[string]bool{
	"sort.Sort": true, "sort.Stable": true, "sort.Slice": true, "sort.SliceStable": true, "sort.Strings": true, "sort.Ints": true, "sort.Float64s": true,
	"slices.Sort": true, "slices.SortFunc": true, "slices.SortStableFunc": true, "slices.Reverse": true, "math/rand.Shuffle": true,
}

// call handles a call instruction; v is the result value (nil for go/defer).
func (fr *ownFrame) call(ci ssa.CallInstruction, v *ssa.Call) bool {
	o := fr.o
	ch := false
	cc := ci.Common()
	if b, ok := cc.Value.(*ssa.Builtin); ok {
		switch b.Name() {
		case "append":
			fr.sink(ci, "append", cc.Args[0])
			if v != nil {
				s := fr.S(cc.Args[0])
				if s == oCapped {
					s = oOwned
				}
				if fr.setVal(v, s, fr.Why(cc.Args[0])) {
					ch = true
				}
			}
		case "copy":
			fr.sink(ci, "copy", cc.Args[0])
		case "delete":
			fr.sink(ci, "delete", cc.Args[0])
		}
		return ch
	}
	callees := o.P.Callees(ci)
	for _, c := range callees {
		full := c.String()
		if i := strings.Index(full, "["); i > 0 {
			full = full[:i]
		}
		if extMutators[full] {
			for _, a := range cc.Args {
				av := a
				if mi, ok := av.(*ssa.MakeInterface); ok {
					av = mi.X
				}
				if isSliceOrMap(av.Type()) {
					fr.sink(ci, "sort", av)
				}
			}
			continue
		}
		if !InRepo(c) || c.Blocks == nil {
			continue
		}
		cs := o.sum(c)
		off := 0
		if cc.IsInvoke() {
			off = 1
		}
		for i, a := range cc.Args {
			pi := i + off
			if pi >= len(cs.param) || !isSliceOrMap(a.Type()) {
				continue
			}
			s := fr.S(a)
			if s > cs.param[pi] {
				cs.param[pi] = s
				o.changed = true
			}
			if fr.report {
				if cs.mutAppend[pi] && s == oShared {
					fr.record(ci, "pass-append", baseDesc(a)+"→"+FnName(c), s, fr.Why(a)+"; callee appends to this parameter", true)
				} else if cs.mutStore[pi] && s >= oCapped {
					fr.record(ci, "pass-store", baseDesc(a)+"→"+FnName(c), s, fr.Why(a)+"; callee writes elements of this parameter", true)
				} else if cs.mutAppend[pi] || cs.mutStore[pi] {
					fr.record(ci, "pass-mutator", baseDesc(a)+"→"+FnName(c), s, "", false)
				}
			}
		}
	}
	if v == nil {
		return ch
	}
	if isSliceOrMap(v.Type()) {
		for _, c := range callees {
			if !InRepo(c) || c.Blocks == nil {
				continue
			}
			cs := o.sum(c)
			if len(cs.result) >= 1 {
				if fr.setVal(v, cs.result[0], "result of "+FnName(c)) {
					ch = true
				}
			}
		}
	} else if stt, ok := v.Type().Underlying().(*types.Struct); ok {
		ch = fr.structResult(v, callees, 0, stt) || ch
	}
	return ch
}

// SortedSinks returns the sink keys in order.
func (o *Own) SortedSinks() []string {
	var ks []string
	for k := range o.Sinks {
		ks = append(ks, k)
	}
	sort.Strings(ks)
	return ks
}

// Describe lists the summaries of interest.
func (o *Own) Describe() (retShared, mutators []string) {
	for f, s := range o.sums {
		for j, r := range s.result {
			if r >= oCapped {
				retShared = append(retShared, fmt.Sprintf("%s#%d:%s", FnName(f), j, r))
			}
		}
		for j := range s.param {
			if s.mutAppend[j] || s.mutStore[j] {
				k := "store"
				if s.mutAppend[j] {
					k = "append"
				}
				mutators = append(mutators, fmt.Sprintf("%s#param%d:%s", FnName(f), j, k))
			}
		}
	}
	sort.Strings(retShared)
	sort.Strings(mutators)
	return
}
