package main

import (
	"fmt"
	"go/types"
	"sort"
	"strings"

	"golang.org/x/tools/go/ssa"
)

// Concurrent-callback closure for R11a.  A module function is a *concurrent wrapper* in parameter i when the
// function value it receives there is invoked from a callback it hands to a concurrent frozen API (or to another
// concurrent wrapper): (*positionalRelation).Where(p), GenericSet.Where(p), Relation.Where(p) ….  Every function
// value that reaches such a position — and every closure defined outside the callback that the callback calls
// through a captured variable — runs on several goroutines at once.

type paramRef struct {
	fn  *ssa.Function
	idx int
}

type concClosure struct {
	p          *Program
	concParams map[*ssa.Function]map[int]bool
	concFuncs  map[*ssa.Function]string // function -> site that makes it concurrent
}

func bindingOf(fv *ssa.FreeVar) ssa.Value {
	cl := fv.Parent()
	par := cl.Parent()
	if par == nil {
		return nil
	}
	idx := -1
	for i, f := range cl.FreeVars {
		if f == fv {
			idx = i
		}
	}
	if idx < 0 {
		return nil
	}
	var out ssa.Value
	var visit func(f *ssa.Function)
	visit = func(f *ssa.Function) {
		ForEachInstr(f, func(ins ssa.Instruction) {
			if mc, ok := ins.(*ssa.MakeClosure); ok && mc.Fn == ssa.Value(cl) && idx < len(mc.Bindings) {
				out = mc.Bindings[idx]
			}
		})
	}
	visit(par)
	return out
}

// resolveFuncValue: the function literals / functions / parameters a function-typed value may denote.
func (cc *concClosure) resolveFuncValue(v ssa.Value, depth int, seen map[ssa.Value]bool) (fns []*ssa.Function, params []paramRef) {
	if v == nil || depth > 8 || seen[v] {
		return
	}
	seen[v] = true
	add := func(f []*ssa.Function, q []paramRef) {
		fns = append(fns, f...)
		params = append(params, q...)
	}
	cell := func(addr ssa.Value) {
		// values stored into a local cell (captured variables are heap cells)
		if refs := addr.Referrers(); refs != nil {
			for _, ref := range *refs {
				if st, ok := ref.(*ssa.Store); ok && st.Addr == addr {
					add(cc.resolveFuncValue(st.Val, depth+1, seen))
				}
			}
		}
	}
	switch x := v.(type) {
	case *ssa.MakeClosure:
		fns = append(fns, x.Fn.(*ssa.Function))
	case *ssa.Function:
		fns = append(fns, x)
	case *ssa.Parameter:
		for i, q := range x.Parent().Params {
			if q == x {
				params = append(params, paramRef{x.Parent(), i})
			}
		}
	case *ssa.FreeVar:
		if b := bindingOf(x); b != nil {
			if _, isPtr := b.Type().Underlying().(*types.Pointer); isPtr {
				if _, isSig := x.Type().Underlying().(*types.Signature); !isSig {
					cell(b)
					break
				}
			}
			add(cc.resolveFuncValue(b, depth+1, seen))
		}
	case *ssa.UnOp:
		switch a := x.X.(type) {
		case *ssa.FreeVar:
			if b := bindingOf(a); b != nil {
				cell(b)
			}
		case *ssa.Alloc:
			cell(a)
		}
	case *ssa.Phi:
		for _, e := range x.Edges {
			add(cc.resolveFuncValue(e, depth+1, seen))
		}
	case *ssa.Call:
		// a function value made by a module function: whatever that function returns
		if g := x.Call.StaticCallee(); g != nil && InRepo(g) && g.Blocks != nil {
			if _, isSig := x.Type().Underlying().(*types.Signature); isSig {
				for _, b := range g.Blocks {
					if ret, ok := b.Instrs[len(b.Instrs)-1].(*ssa.Return); ok && len(ret.Results) == 1 {
						add(cc.resolveFuncValue(RetVal(ret, 0), depth+1, seen))
					}
				}
			}
		}
	case *ssa.ChangeType:
		add(cc.resolveFuncValue(x.X, depth+1, seen))
	case *ssa.MakeInterface:
		add(cc.resolveFuncValue(x.X, depth+1, seen))
	}
	return
}

// concurrentPositions: argument indices (into c.Common().Args) of a call whose function values are invoked concurrently.
func (cc *concClosure) concurrentPositions(c ssa.CallInstruction) (pos []int, api string) {
	com := c.Common()
	if callee := com.StaticCallee(); callee != nil {
		if !InRepo(callee) {
			if strings.Contains(callee.String(), "github.com/arr-ai/frozen") && frozenConcurrent[baseName(callee)] {
				for i, a := range com.Args {
					if _, isSig := a.Type().Underlying().(*types.Signature); isSig {
						pos = append(pos, i)
					}
				}
				return pos, "frozen." + baseName(callee)
			}
			return nil, ""
		}
		for i := range com.Args {
			if cc.concParams[callee][i] {
				pos = append(pos, i)
			}
		}
		return pos, FnName(callee)
	}
	// dynamic: interface method or function value, resolved through VTA
	off := 0
	if com.IsInvoke() {
		off = 1
	}
	seen := map[int]bool{}
	for _, callee := range cc.p.Callees(c) {
		for i := range com.Args {
			if cc.concParams[callee][i+off] && !seen[i] {
				seen[i] = true
				pos = append(pos, i)
				api = FnName(callee)
			}
		}
	}
	sort.Ints(pos)
	return pos, api
}

func allFuncs(fn *ssa.Function, out *[]*ssa.Function) {
	*out = append(*out, fn)
	for _, a := range fn.AnonFuncs {
		allFuncs(a, out)
	}
}

func nestedIn(f, outer *ssa.Function) bool {
	for g := f; g != nil; g = g.Parent() {
		if g == outer {
			return true
		}
	}
	return false
}

func computeConcClosure(p *Program) *concClosure {
	cc := &concClosure{p: p, concParams: map[*ssa.Function]map[int]bool{}, concFuncs: map[*ssa.Function]string{}}
	var fns []*ssa.Function
	for _, fn := range p.RepoFns {
		if fn.Parent() == nil {
			allFuncs(fn, &fns)
		}
	}
	markParam := func(q paramRef) bool {
		if cc.concParams[q.fn] == nil {
			cc.concParams[q.fn] = map[int]bool{}
		}
		if cc.concParams[q.fn][q.idx] {
			return false
		}
		cc.concParams[q.fn][q.idx] = true
		return true
	}
	markFunc := func(f *ssa.Function, why string) bool {
		if _, ok := cc.concFuncs[f]; ok || f.Blocks == nil || !InRepo(f) {
			return false
		}
		cc.concFuncs[f] = why
		return true
	}
	for round := 0; round < 12; round++ {
		changed := false
		for _, fn := range fns {
			ForEachInstr(fn, func(ins ssa.Instruction) {
				c, ok := ins.(ssa.CallInstruction)
				if !ok {
					return
				}
				pos, api := cc.concurrentPositions(c)
				for _, i := range pos {
					fs, qs := cc.resolveFuncValue(c.Common().Args[i], 0, map[ssa.Value]bool{})
					for _, f := range fs {
						if markFunc(f, fmt.Sprintf("%s→%s", FnName(fn), api)) {
							changed = true
						}
					}
					for _, q := range qs {
						if markParam(q) {
							changed = true
						}
					}
				}
			})
		}
		// calls made from concurrent functions through function values defined outside them
		var cfs []*ssa.Function
		for f := range cc.concFuncs {
			cfs = append(cfs, f)
		}
		sort.Slice(cfs, func(i, j int) bool { return FnName(cfs[i]) < FnName(cfs[j]) })
		for _, f := range cfs {
			var body []*ssa.Function
			allFuncs(f, &body)
			for _, g := range body {
				ForEachInstr(g, func(ins ssa.Instruction) {
					c, ok := ins.(ssa.CallInstruction)
					if !ok || c.Common().StaticCallee() != nil || c.Common().IsInvoke() {
						return
					}
					fs, qs := cc.resolveFuncValue(c.Common().Value, 0, map[ssa.Value]bool{})
					for _, h := range fs {
						if !nestedIn(h, f) && markFunc(h, cc.concFuncs[f]+" (called from the callback "+FnName(f)+")") {
							changed = true
						}
					}
					for _, q := range qs {
						if !nestedIn(q.fn, f) || q.fn != f {
							if q.fn != g && markParam(q) {
								changed = true
							}
						}
					}
				})
			}
		}
		if !changed {
			break
		}
	}
	return cc
}
