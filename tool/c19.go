package main

import (
	"fmt"
	"go/constant"
	"go/token"
	"go/types"
	"sort"
	"strings"

	"golang.org/x/tools/go/ssa"
)

func init() {
	register("C19",
		Rule{"R19a", ruleDryRunPurity},
		Rule{"R19b", ruleValidateThenAct},
		Rule{"R19c", ruleKindSwitchRejects},
		Rule{"R19d", ruleOutContainment},
		Rule{"R19e", ruleOutErrorDiscipline},
		Rule{"R19f", ruleDryRunValidates},
	)
}

const outPkg = "pkg/arrai"

var mutatingFsMethods = map[string]bool{
	"Create": true, "Mkdir": true, "MkdirAll": true, "OpenFile": true, "Remove": true, "RemoveAll": true, "Rename": true,
	"Chmod": true, "Chown": true, "Chtimes": true,
	"Write": true, "WriteString": true, "WriteAt": true, "Truncate": true, "Sync": true,
}

var mutatingFsFuncs = map[string]bool{
	"os.Create": true, "os.Mkdir": true, "os.MkdirAll": true, "os.OpenFile": true, "os.Remove": true, "os.RemoveAll": true, "os.Rename": true,
	"os.WriteFile": true, "os.Chmod": true, "io/ioutil.WriteFile": true,
	"github.com/spf13/afero.WriteFile": true, "github.com/spf13/afero.WriteReader": true,
}

// fsCall classifies a call as a filesystem operation: (is fs op, mutating, name).
func fsCall(cc *ssa.CallCommon) (bool, bool, string) {
	if cc.IsInvoke() {
		tn := cc.Value.Type().String()
		if strings.Contains(tn, "afero.Fs") || strings.Contains(tn, "afero.File") || strings.Contains(tn, "io.Writer") || strings.Contains(tn, "io.WriteCloser") {
			name := cc.Method.Name()
			isFs := strings.Contains(tn, "afero")
			return isFs || name == "Write", mutatingFsMethods[name], tn[strings.LastIndex(tn, "/")+1:] + "." + name
		}
		return false, false, ""
	}
	if c := cc.StaticCallee(); c != nil {
		full := c.String()
		if mutatingFsFuncs[full] {
			return true, true, full
		}
		if strings.HasPrefix(full, "os.") && (strings.HasPrefix(c.Name(), "Stat") || strings.HasPrefix(c.Name(), "Open") || strings.HasPrefix(c.Name(), "Read")) {
			return true, false, full
		}
		if strings.HasPrefix(full, "(*os.File).") || strings.HasPrefix(full, "(*github.com/spf13/afero/mem.File).") {
			return true, mutatingFsMethods[c.Name()], full
		}
	}
	return false, false, ""
}

// dryParams discovers the dry-run flag: bool parameters of pkg/arrai functions that receive the constant true at
// one call site and the constant false at another call site of the same caller (the two-pass idiom), closed
// under parameter passing.
func dryParams(p *Program) map[*ssa.Function]int {
	D := map[*ssa.Function]int{}
	var fns []*ssa.Function
	for _, fn := range p.RepoFns {
		if PkgPathOf(fn) == Mod+"/"+outPkg {
			fns = append(fns, fn)
		}
	}
	type site struct {
		callee *ssa.Function
		idx    int
	}
	for _, fn := range fns {
		seen := map[site]map[bool]bool{}
		ForEachInstr(fn, func(ins ssa.Instruction) {
			c, ok := ins.(ssa.CallInstruction)
			if !ok {
				return
			}
			for _, callee := range p.Callees(c) {
				if !InRepo(callee) {
					continue
				}
				for i, a := range c.Common().Args {
					if b, ok := BoolConst(a); ok {
						s := site{callee, i}
						if seen[s] == nil {
							seen[s] = map[bool]bool{}
						}
						seen[s][b] = true
					}
				}
			}
		})
		for s, m := range seen {
			if m[true] && m[false] {
				D[s.callee] = s.idx
			}
		}
	}
	for changed := true; changed; {
		changed = false
		for _, fn := range fns {
			pi, ok := D[fn]
			if !ok || pi >= len(fn.Params) {
				continue
			}
			param := fn.Params[pi]
			ForEachInstr(fn, func(ins ssa.Instruction) {
				c, ok := ins.(ssa.CallInstruction)
				if !ok {
					return
				}
				for i, a := range c.Common().Args {
					if a != param {
						continue
					}
					for _, callee := range p.Callees(c) {
						if !InRepo(callee) {
							continue
						}
						idx := i
						if c.Common().IsInvoke() {
							idx = i + 1
						}
						if _, has := D[callee]; !has {
							D[callee] = idx
							changed = true
						}
					}
				}
			})
		}
	}
	return D
}

// edgeTakenWhen reports, for the If terminating block br, which successor is certainly taken when the boolean
// value `flag` equals val: (succ index, true) or (_, false) when the condition is not a test of the flag.
func edgeTakenWhen(br *ssa.BasicBlock, flag ssa.Value, val bool) (int, bool) {
	cond := IfCond(br)
	if cond == nil {
		return 0, false
	}
	// value of cond as a function of flag
	var condIs func(c ssa.Value, depth int) (bool, bool)
	condIs = func(c ssa.Value, depth int) (bool, bool) {
		if depth > 4 {
			return false, false
		}
		if c == flag {
			return val, true
		}
		if u, ok := c.(*ssa.UnOp); ok && u.Op == token.NOT {
			v, ok := condIs(u.X, depth+1)
			return !v, ok
		}
		if bo, ok := c.(*ssa.BinOp); ok && (bo.Op == token.EQL || bo.Op == token.NEQ) {
			for _, pair := range [][2]ssa.Value{{bo.X, bo.Y}, {bo.Y, bo.X}} {
				if v, ok := condIs(pair[0], depth+1); ok {
					if cv, isC := BoolConst(pair[1]); isC {
						if bo.Op == token.EQL {
							return v == cv, true
						}
						return v != cv, true
					}
				}
			}
		}
		return false, false
	}
	if v, ok := condIs(cond, 0); ok {
		if v {
			return 0, true
		}
		return 1, true
	}
	return 0, false
}

// reachableWhen computes the blocks reachable from entry when the boolean value flag is fixed to val
// (branches that test the flag follow only the edge they must take).
func reachableWhen(fn *ssa.Function, flag ssa.Value, val bool) map[*ssa.BasicBlock]bool {
	seen := map[*ssa.BasicBlock]bool{}
	work := []*ssa.BasicBlock{fn.Blocks[0]}
	for len(work) > 0 {
		b := work[len(work)-1]
		work = work[:len(work)-1]
		if seen[b] {
			continue
		}
		seen[b] = true
		if s, ok := edgeTakenWhen(b, flag, val); ok {
			work = append(work, b.Succs[s])
			continue
		}
		work = append(work, b.Succs...)
	}
	return seen
}

// notDry answers "does this block execute only when the dry-run flag is false?" (it is unreachable when the
// flag is fixed to true).
type notDry struct{ reach map[*ssa.BasicBlock]bool }

func newNotDry(fn *ssa.Function, dry ssa.Value) *notDry {
	return &notDry{reach: reachableWhen(fn, dry, true)}
}

func underNotDry(nd *notDry, b *ssa.BasicBlock, _ ssa.Value) bool { return !nd.reach[b] }

func ruleDryRunPurity(p *Program, r *Report) {
	r.Begin("R19a", "dry-run purity: in every function carrying the dry-run flag (discovered from the two-pass call pair), each mutating filesystem call (Create, Mkdir*, Remove*, Rename, OpenFile, Chmod, Write, Sync …) and each call to a flag-less helper that mutates executes only on paths control-dependent on the flag being false", 4)
	defer r.End()
	D := dryParams(p)
	if len(D) < 3 {
		r.Undecided("dry-params", fmt.Sprintf("found %d functions with a dry-run flag (5 confirmed by hand)", len(D)), 0)
		return
	}
	// flag-less helpers that mutate
	mutHelper := map[*ssa.Function]bool{}
	for changed := true; changed; {
		changed = false
		for _, fn := range p.RepoFns {
			if PkgPathOf(fn) != Mod+"/"+outPkg || mutHelper[fn] {
				continue
			}
			if _, has := D[fn]; has {
				continue
			}
			ForEachInstr(fn, func(ins ssa.Instruction) {
				c, ok := ins.(ssa.CallInstruction)
				if !ok {
					return
				}
				if _, mut, _ := fsCall(c.Common()); mut {
					mutHelper[fn] = true
					changed = true
				}
				for _, callee := range p.Callees(c) {
					if mutHelper[callee] {
						mutHelper[fn] = true
						changed = true
					}
				}
			})
		}
	}
	var names []string
	for fn, idx := range D {
		names = append(names, fmt.Sprintf("%s#%d", FnName(fn), idx))
	}
	sort.Strings(names)
	r.Notes = append(r.Notes, "dry-run flag carriers: "+strings.Join(names, " "))
	for _, fn := range p.RepoFns {
		idx, ok := D[fn]
		if !ok || idx >= len(fn.Params) {
			continue
		}
		r.Fn(FnName(fn))
		dry := fn.Params[idx]
		pd := newNotDry(fn, dry)
		ord := map[string]int{}
		ForEachInstr(fn, func(ins ssa.Instruction) {
			c, ok := ins.(ssa.CallInstruction)
			if !ok {
				return
			}
			_, mut, name := fsCall(c.Common())
			if !mut {
				for _, callee := range p.Callees(c) {
					if mutHelper[callee] {
						mut, name = true, FnName(callee)
					}
				}
			}
			if !mut {
				return
			}
			if _, isDefer := ins.(*ssa.Defer); isDefer {
				return
			}
			key := fmt.Sprintf("mutation@%s#%s", FnName(fn), name)
			ord[key]++
			if ord[key] > 1 {
				key = fmt.Sprintf("%s~%d", key, ord[key])
			}
			r.Check(underNotDry(pd, ins.Block(), dry), key, "executes only when the dry-run flag is false",
				fmt.Sprintf("%s calls %s on a path that is also taken in the dry-run pass: a description rejected later leaves this change behind", FnName(fn), name), ins.Pos())
		})
	}
}

func ruleValidateThenAct(p *Program, r *Report) {
	r.Begin("R19b", "validate-then-act: the real pass (flag=false) is dominated by the dry pass (flag=true) of the same callee on the same arguments, and the real pass is reached only when the dry pass returned a nil error", 1)
	defer r.End()
	found := 0
	for _, fn := range p.RepoFns {
		if PkgPathOf(fn) != Mod+"/"+outPkg {
			continue
		}
		type callT struct {
			ins    *ssa.Call
			callee *ssa.Function
			flag   bool
			idx    int
		}
		var calls []callT
		ForEachInstr(fn, func(ins ssa.Instruction) {
			c, ok := ins.(*ssa.Call)
			if !ok {
				return
			}
			callee := c.Call.StaticCallee()
			if callee == nil || !InRepo(callee) {
				return
			}
			for i, a := range c.Call.Args {
				if b, ok := BoolConst(a); ok {
					calls = append(calls, callT{c, callee, b, i})
				}
			}
		})
		for _, real := range calls {
			if real.flag {
				continue
			}
			// is there a dry twin?
			var twin *callT
			for i := range calls {
				d := &calls[i]
				if d.flag && d.callee == real.callee && d.idx == real.idx {
					twin = d
				}
			}
			if twin == nil {
				continue
			}
			found++
			key := fmt.Sprintf("two-pass@%s→%s", FnName(fn), FnName(real.callee))
			r.Fn(FnName(fn))
			sameArgs := true
			for i := range real.ins.Call.Args {
				if i != real.idx && !sameValue(real.ins.Call.Args[i], twin.ins.Call.Args[i], 0) {
					sameArgs = false
				}
			}
			if !InstrDominates(twin.ins, real.ins) {
				r.Viol(key, "the real pass is not dominated by the dry pass", real.ins.Pos())
				continue
			}
			if !sameArgs {
				r.Viol(key, "the dry pass validates different arguments than the real pass writes", real.ins.Pos())
				continue
			}
			// the real call's block must be control dependent on err == nil of the twin
			pd := NewPostDom(fn)
			ok := false
			for _, d := range pd.TransitiveControlDeps(real.ins.Block()) {
				cond := IfCond(d.Br)
				if cond == nil {
					continue
				}
				if ev, nonNil, is := ErrNonNilBranch(cond); is && ev == ssa.Value(twin.ins) && d.Succ != nonNil {
					ok = true
				}
			}
			r.Check(ok, key, "real pass runs only after the dry pass returned nil", "the real pass can run although the dry pass reported an error (its result is not tested)", real.ins.Pos())
		}
	}
	if found == 0 {
		r.Undecided("two-pass", "no dry/real call pair found in "+outPkg, 0)
	}
}

// typeSwitchChains finds chains of comma-ok type assertions on one value (a type switch): returns for each
// chain the asserted operand, the assertions, and the block reached when none matches.
type tsChain struct {
	X       ssa.Value
	Asserts []*ssa.TypeAssert
	Default *ssa.BasicBlock
}

func typeSwitchChains(fn *ssa.Function) []tsChain {
	byX := map[ssa.Value][]*ssa.TypeAssert{}
	var order []ssa.Value
	ForEachInstr(fn, func(ins ssa.Instruction) {
		ta, ok := ins.(*ssa.TypeAssert)
		if !ok || !ta.CommaOk {
			return
		}
		if _, seen := byX[ta.X]; !seen {
			order = append(order, ta.X)
		}
		byX[ta.X] = append(byX[ta.X], ta)
	})
	var out []tsChain
	for _, x := range order {
		as := byX[x]
		if len(as) < 3 {
			continue
		}
		last := as[len(as)-1]
		// the If testing last's ok
		var def *ssa.BasicBlock
		for _, ref := range *last.Referrers() {
			ex, ok := ref.(*ssa.Extract)
			if !ok || ex.Index != 1 {
				continue
			}
			for _, r2 := range *ex.Referrers() {
				if iff, ok := r2.(*ssa.If); ok {
					def = iff.Block().Succs[1]
				}
			}
		}
		out = append(out, tsChain{X: x, Asserts: as, Default: def})
	}
	return out
}

// endsInErrorReturn follows unconditional jumps from b: true when it reaches a Return whose last operand is not the nil constant.
func endsInErrorReturn(b *ssa.BasicBlock) (bool, string) {
	seen := map[*ssa.BasicBlock]bool{}
	for b != nil && !seen[b] {
		seen[b] = true
		last := b.Instrs[len(b.Instrs)-1]
		switch t := last.(type) {
		case *ssa.Return:
			if len(t.Results) == 0 {
				return false, "returns nothing"
			}
			ev := RetVal(t, len(t.Results)-1)
			if IsNilConst(ev) {
				return false, "returns a nil error"
			}
			return true, ""
		case *ssa.Panic:
			return true, ""
		case *ssa.Jump:
			b = b.Succs[0]
		default:
			return false, "continues with the next entry"
		}
	}
	return false, "loops back to the next entry"
}

func ruleKindSwitchRejects(p *Program, r *Report) {
	r.Begin("R19c", "error-or-exhaustive kind switch: in the flag-carrying functions, a type switch over the content of an entry (≥3 comma-ok assertions on one value) must end, when no case matches, in a return of a non-nil error — never fall through to the next entry (silent skip, exit status 0)", 1)
	defer r.End()
	D := dryParams(p)
	n := 0
	for _, fn := range p.RepoFns {
		if _, ok := D[fn]; !ok {
			continue
		}
		for _, ch := range typeSwitchChains(fn) {
			if ch.Default == nil {
				continue
			}
			// only switches inside a loop over entries or at function level that decide what to write
			n++
			var ts []string
			for _, a := range ch.Asserts {
				ts = append(ts, TypeName(a.AssertedType))
			}
			key := fmt.Sprintf("kind-switch@%s[%s]", FnName(fn), strings.Join(ts, ","))
			ok, why := endsInErrorReturn(ch.Default)
			r.Fn(FnName(fn))
			r.Check(ok, key, "unmatched kinds are rejected with an error", fmt.Sprintf("when the entry is none of %s the function %s: an entry of another kind (e.g. a number) is skipped silently and the command reports success", strings.Join(ts, ", "), why), ch.Asserts[0].Pos())
		}
	}
	if n == 0 {
		r.Undecided("switch", "no kind switch found in the flag-carrying functions", 0)
	}
}

func isPathJoin(c *ssa.Call) bool {
	callee := c.Call.StaticCallee()
	if callee == nil {
		return false
	}
	s := callee.String()
	return s == "path.Join" || s == "path/filepath.Join"
}

func ruleOutContainment(p *Program, r *Report) {
	r.Begin("R19d", "containment: a path built by path.Join from a dictionary key, before it reaches a filesystem call or a flag-carrying callee, passes a branch whose condition depends on the joined path and whose other successor returns an error (any rejecting test satisfies the rule; which strings it rejects is not decided)", 1)
	defer r.End()
	D := dryParams(p)
	n := 0
	for _, fn := range p.RepoFns {
		if _, ok := D[fn]; !ok {
			continue
		}
		ForEachInstr(fn, func(ins ssa.Instruction) {
			j, ok := ins.(*ssa.Call)
			if !ok || !isPathJoin(j) {
				return
			}
			n++
			r.Fn(FnName(fn))
			key := fmt.Sprintf("join@%s", FnName(fn))
			// uses: calls that receive the joined path and are filesystem operations or module functions
			var uses []ssa.Instruction
			for _, ref := range *j.Referrers() {
				if ci, ok := ref.(ssa.CallInstruction); ok {
					if is, _, _ := fsCall(ci.Common()); is {
						uses = append(uses, ref)
						continue
					}
					for _, callee := range p.Callees(ci) {
						if InRepo(callee) {
							uses = append(uses, ref)
							break
						}
					}
				}
			}
			// rejecting branch: an If whose cond depends on j, one successor of which ends in an error return, and
			// which dominates every use
			guard := false
			for _, b := range fn.Blocks {
				cond := IfCond(b)
				if cond == nil || !DependsOn(cond, func(v ssa.Value) bool { return v == ssa.Value(j) }) {
					continue
				}
				rejects := false
				for _, s := range b.Succs {
					if ok, _ := endsInErrorReturn(s); ok {
						rejects = true
					}
				}
				if !rejects {
					continue
				}
				domAll := false
				for _, u := range uses {
					if uv, ok := u.(ssa.Value); ok && DependsOn(cond, func(v ssa.Value) bool { return v == uv }) {
						continue // the test itself
					}
					domAll = true
					if !InstrDominates(b.Instrs[len(b.Instrs)-1], u) {
						domAll = false
						break
					}
				}
				if domAll {
					guard = true
				}
			}
			r.Check(guard, key, "a rejecting test on the joined path exists", fmt.Sprintf("%s joins an entry name onto the output directory and uses the result without any test that can reject it: a key such as \"../x\" writes outside the --out directory", FnName(fn)), j.Pos())
		})
	}
	if n == 0 {
		r.Undecided("join", "no path.Join found in the flag-carrying functions", 0)
	}
}

func ruleOutErrorDiscipline(p *Program, r *Report) {
	r.Begin("R19e", "error discipline of the writer: in package pkg/arrai (non-test) every call that returns an error — filesystem methods, file Write/Sync, fmt.Fprint* to the output writer, and in-package helpers — has its error result consumed (tested, returned or stored); accepted idiom: deferred Close", 10)
	defer r.End()
	ord := map[string]int{}
	for _, fn := range p.RepoFns {
		if PkgPathOf(fn) != Mod+"/"+outPkg {
			continue
		}
		if !strings.HasSuffix(p.File(fn.Pos()), "out.go") {
			continue
		}
		r.Fn(FnName(fn))
		ForEachInstr(fn, func(ins ssa.Instruction) {
			c, ok := ins.(*ssa.Call)
			if !ok {
				return
			}
			sig := c.Call.Signature()
			res := sig.Results()
			if res.Len() == 0 || !isErrorType(res.At(res.Len()-1).Type()) {
				return
			}
			name := CalleeName(&c.Call)
			if name == "" {
				name = "dynamic call"
			}
			key := fmt.Sprintf("err@%s#%s", FnName(fn), name)
			ord[key]++
			if ord[key] > 1 {
				key = fmt.Sprintf("%s~%d", key, ord[key])
			}
			used := false
			if res.Len() == 1 {
				used = len(*c.Referrers()) > 0
			} else {
				for _, ref := range *c.Referrers() {
					if ex, ok := ref.(*ssa.Extract); ok && ex.Index == res.Len()-1 && len(*ex.Referrers()) > 0 {
						used = true
					}
				}
			}
			r.Check(used, key, "error result consumed", fmt.Sprintf("the error returned by %s is dropped: a failed write is reported as success", name), c.Pos())
		})
	}
}

// validationSource: does value v (an error) originate from a constructor of a description error rather than from I/O?
func isValidationErr(v ssa.Value) bool {
	return DependsOn(v, func(x ssa.Value) bool {
		switch y := x.(type) {
		case *ssa.Call:
			if c := y.Call.StaticCallee(); c != nil {
				s := c.String()
				if strings.HasSuffix(s, "errors.Errorf") || strings.HasSuffix(s, "errors.New") || s == "fmt.Errorf" {
					return true
				}
			}
		case *ssa.UnOp:
			if g, ok := y.X.(*ssa.Global); ok {
				t := Deref(g.Type())
				errI := types.Universe.Lookup("error").Type().Underlying().(*types.Interface)
				if isErrorType(t) || types.Implements(t, errI) {
					return true
				}
			}
		}
		return false
	})
}

func ruleDryRunValidates(p *Program, r *Report) {
	r.Begin("R19f", "the dry pass validates what the real pass would reject: in a flag-carrying function, no return of a description error (errors.Errorf / fmt.Errorf / a package error variable) and no call to another flag-carrying function (whose validation would then be skipped) sits on a path control-dependent on the flag being false", 5)
	defer r.End()
	D := dryParams(p)
	for _, fn := range p.RepoFns {
		idx, ok := D[fn]
		if !ok || idx >= len(fn.Params) {
			continue
		}
		r.Fn(FnName(fn))
		dry := fn.Params[idx]
		pd := newNotDry(fn, dry)
		ord := map[string]int{}
		ForEachInstr(fn, func(ins ssa.Instruction) {
			switch x := ins.(type) {
			case *ssa.Call:
				for _, callee := range p.Callees(x) {
					if _, carries := D[callee]; !carries {
						continue
					}
					key := fmt.Sprintf("validates@%s→%s", FnName(fn), FnName(callee))
					ord[key]++
					if ord[key] > 1 {
						key = fmt.Sprintf("%s~%d", key, ord[key])
					}
					skipped := underNotDry(pd, ins.Block(), dry)
					if skipped && dryTwin(p, fn, dry, x, callee) {
						skipped = false
					}
					r.Check(!skipped, key, "callee also runs (validating) in the dry pass",
						fmt.Sprintf("%s calls %s only when the flag is false: in the dry pass the entries below this point are never validated, so an invalid one is discovered by the real pass after earlier entries were already written or removed", FnName(fn), FnName(callee)), ins.Pos())
				}
			case *ssa.Return:
				if len(x.Results) == 0 || ins.Block() == fn.Recover {
					return
				}
				ev := RetVal(x, len(x.Results)-1)
				if IsNilConst(ev) || !isErrorType(ev.Type()) || !isValidationErr(ev) {
					return
				}
				key := fmt.Sprintf("rejects@%s", FnName(fn))
				ord[key]++
				if ord[key] > 1 {
					key = fmt.Sprintf("%s~%d", key, ord[key])
				}
				r.Check(!underNotDry(pd, ins.Block(), dry), key, "description error is also reported by the dry pass",
					fmt.Sprintf("%s returns a description error only when the flag is false: the dry pass accepts what the real pass rejects midway", FnName(fn)), ins.Pos())
			}
		})
	}
}

// dryTwin: the call `site` (to callee) runs only when the flag is false; it is harmless if every flag test that
// gates it has, on its dry side, a call to the same callee with the same first argument (the dry pass validates
// the same entries through its own call).
func dryTwin(p *Program, fn *ssa.Function, dry ssa.Value, site *ssa.Call, callee *ssa.Function) bool {
	gates := 0
	for _, g := range fn.Blocks {
		sDry, ok := edgeTakenWhen(g, dry, true)
		if !ok || !g.Dominates(site.Block()) {
			continue
		}
		// is the site on the not-dry side of this gate?
		notDrySucc := g.Succs[1-sDry]
		if !(notDrySucc == site.Block() || Reaches(notDrySucc, site.Block(), false)) {
			continue
		}
		gates++
		found := false
		seen := map[*ssa.BasicBlock]bool{}
		work := []*ssa.BasicBlock{g.Succs[sDry]}
		for len(work) > 0 && !found {
			b := work[len(work)-1]
			work = work[:len(work)-1]
			if seen[b] {
				continue
			}
			seen[b] = true
			for _, ins := range b.Instrs {
				c, ok := ins.(*ssa.Call)
				if !ok || c == site {
					continue
				}
				for _, cal := range p.Callees(c) {
					if cal == callee && len(c.Call.Args) > 0 && len(site.Call.Args) > 0 && sameValue(c.Call.Args[0], site.Call.Args[0], 0) {
						found = true
					}
				}
			}
			if s, ok := edgeTakenWhen(b, dry, true); ok {
				work = append(work, b.Succs[s])
			} else {
				work = append(work, b.Succs...)
			}
		}
		if !found {
			return false
		}
	}
	return gates > 0
}

// R19g: the dry pass's model of the tree agrees with what the real pass does.  Where the dry side of a flag test
// validates a callee against a *fresh empty filesystem* (afero.NewMemMapFs()) instead of the real one, it assumes
// the real pass clears the target first; the real-side call of the same callee must therefore be dominated by
// fs.RemoveAll of the same path, with its error propagated.
func ruleDryModelAgrees(p *Program, r *Report) {
	r.Begin("R19g", "dry model = real effect: when the dry pass validates a callee against an empty scratch filesystem (afero.NewMemMapFs()) in place of the real one, every real-pass call of that callee on the same entry is dominated by fs.RemoveAll of the same path whose error is propagated — otherwise the dry pass accepts a description the real pass then fails on or merges into leftovers", 1)
	defer r.End()
	D := dryParams(p)
	isScratch := func(v ssa.Value) bool {
		return DependsOn(v, func(x ssa.Value) bool {
			c, ok := x.(*ssa.Call)
			if !ok {
				return false
			}
			g := c.Call.StaticCallee()
			return g != nil && g.Name() == "NewMemMapFs" && g.Pkg != nil && strings.HasSuffix(g.Pkg.Pkg.Path(), "afero")
		})
	}
	for _, fn := range p.RepoFns {
		idx, ok := D[fn]
		if !ok || idx >= len(fn.Params) {
			continue
		}
		dry := fn.Params[idx]
		nd := newNotDry(fn, dry)
		var calls []*ssa.Call
		ForEachInstr(fn, func(ins ssa.Instruction) {
			if c, ok := ins.(*ssa.Call); ok {
				for _, cal := range p.Callees(c) {
					if _, carries := D[cal]; carries {
						calls = append(calls, c)
						break
					}
				}
			}
		})
		for _, m := range calls {
			scratch := false
			for _, a := range m.Call.Args {
				if strings.HasSuffix(a.Type().String(), "afero.Fs") && isScratch(a) {
					scratch = true
				}
			}
			if !scratch {
				continue
			}
			r.Fn(FnName(fn))
			callee := p.Callees(m)[0]
			n := 0
			for _, c2 := range calls {
				if c2 == m || p.Callees(c2)[0] != callee || !underNotDry(nd, c2.Block(), dry) {
					continue
				}
				if len(c2.Call.Args) == 0 || !sameValue(c2.Call.Args[0], m.Call.Args[0], 0) {
					continue
				}
				n++
				key := fmt.Sprintf("cleared@%s→%s~%d", FnName(fn), FnName(callee), n)
				// a dominating RemoveAll of the same path on the real filesystem
				ok := false
				why := "no fs.RemoveAll of the entry's path dominates the call"
				ForEachInstr(fn, func(ins ssa.Instruction) {
					rc, isCall := ins.(*ssa.Call)
					if !isCall || !rc.Call.IsInvoke() || rc.Call.Method.Name() != "RemoveAll" || isScratch(rc.Call.Value) {
						return
					}
					dom := rc.Block() != c2.Block() && rc.Block().Dominates(c2.Block())
					if rc.Block() == c2.Block() && InstrIndex(rc) < InstrIndex(c2) {
						dom = true
					}
					if !dom {
						return
					}
					samePath := false
					for _, a := range c2.Call.Args {
						if len(rc.Call.Args) > 0 && sameValue(a, rc.Call.Args[0], 0) {
							samePath = true
						}
					}
					if !samePath {
						why = "the dominating RemoveAll clears a different path"
						return
					}
					if prop, w := errPropagated(rc); !prop {
						why = "the RemoveAll's error is not propagated: " + w
						return
					}
					ok = true
				})
				r.Check(ok, key, "the real pass clears the path (RemoveAll, error propagated) on every path to the call", fmt.Sprintf("in %s the dry pass validates %s against an empty scratch filesystem, but on the real side %s: the dry pass accepts descriptions (e.g. a file where a directory exists) that the real pass then fails on midway or writes over leftovers", FnName(fn), FnName(callee), why), c2.Pos())
			}
			if n == 0 {
				r.Undecided("real-twin@"+FnName(fn), "the scratch-filesystem validation call has no real-pass twin on the same entry", m.Pos())
			}
		}
	}
}

func init() { register("C19", Rule{"R19g", ruleDryModelAgrees}) }

// R19h: a deferred assignment does not erase an error.  A deferred closure that stores into the function's named
// error result runs on every return, including those that already carry an error (a failed Write or Sync).  Unless
// the store is conditional on the result still being nil (or it is a recover handler, which must overwrite), the
// earlier error is replaced — typically by Close's nil — and the command reports success for a truncated file.
func ruleDeferKeepsError(p *Program, r *Report) {
	r.Begin("R19h", "deferred stores keep the first error: in the module's functions with a named error result, a deferred closure that assigns that result does so only under a test that the result is still nil (first error wins) or inside a recover() handler; an unconditional `defer func() { err = f.Close() }()` turns a failed Write/Sync into success", 0)
	defer r.End()
	errT := types.Universe.Lookup("error").Type()
	n := 0
	for _, fn := range p.RepoFns {
		res := fn.Signature.Results()
		if res.Len() == 0 || !types.Identical(res.At(res.Len()-1).Type(), errT) {
			continue
		}
		ForEachInstr(fn, func(ins ssa.Instruction) {
			d, ok := ins.(*ssa.Defer)
			if !ok {
				return
			}
			mc, ok := d.Call.Value.(*ssa.MakeClosure)
			if !ok {
				return
			}
			h := mc.Fn.(*ssa.Function)
			// captured cells that are named error results of fn (read by a Return after RunDefers or in the recover block)
			resultCell := map[ssa.Value]bool{}
			ForEachInstr(fn, func(i2 ssa.Instruction) {
				if ret, ok := i2.(*ssa.Return); ok {
					if ld, ok := ret.Results[len(ret.Results)-1].(*ssa.UnOp); ok {
						if al, ok := ld.X.(*ssa.Alloc); ok {
							resultCell[al] = true
						}
					}
				}
			})
			isRecover := false
			ForEachInstr(h, func(i2 ssa.Instruction) {
				if c, ok := i2.(*ssa.Call); ok {
					if b, ok := c.Call.Value.(*ssa.Builtin); ok && b.Name() == "recover" {
						isRecover = true
					}
				}
			})
			pd := NewPostDom(h)
			ord := 0
			ForEachInstr(h, func(i2 ssa.Instruction) {
				st, ok := i2.(*ssa.Store)
				if !ok {
					return
				}
				fv, ok := st.Addr.(*ssa.FreeVar)
				if !ok {
					return
				}
				idx := -1
				for i, f := range h.FreeVars {
					if f == fv {
						idx = i
					}
				}
				if idx < 0 || idx >= len(mc.Bindings) || !resultCell[mc.Bindings[idx]] {
					return
				}
				n++
				ord++
				r.Fn(FnName(fn))
				key := fmt.Sprintf("deferred-store@%s~%d", FnName(fn), ord)
				if isRecover {
					r.OK(key, "recover handler (overwrites by design; R17h)", st.Pos())
					return
				}
				// conditional on the result cell being nil?
				guarded := false
				for _, cd := range pd.TransitiveControlDeps(st.Block()) {
					cond := IfCond(cd.Br)
					if cond != nil && DependsOn(cond, func(x ssa.Value) bool {
						ld, ok := x.(*ssa.UnOp)
						return ok && ld.X == ssa.Value(fv)
					}) {
						guarded = true
					}
				}
				r.Check(guarded, key, "assigned only while the result is still nil", fmt.Sprintf("%s assigns its named error result in a deferred closure without first testing that it is still nil: an error already being returned (a failed Write or Sync) is overwritten, usually by nil, and the caller is told the operation succeeded", FnName(fn)), st.Pos())
			})
		})
	}
	if n == 0 {
		r.Info("sites", "no deferred closure assigns a named error result outside recover handlers", 0)
	}
}

func init() {
	register("C19", Rule{"R19h", ruleDeferKeepsError})
	register("C10", Rule{"R19h", ruleDeferKeepsError})
}

// R19i: whether a description is accepted does not depend on what is on disk.  applyIfExistsConfig handles each
// ifExists mode on several paths (target absent / present / dry / real).  If the mode's description is validated on
// one of them (a call that can return a description error: checkNotDirAndNotFileField, checkDirXorFileField,
// applyFilesFields …), it must be validated on every path of that mode that ends in success — otherwise the same
// invalid entry is rejected or silently accepted depending on whether its target happens to exist, and the rest of
// the tree is written.
func ruleModeValidatedOnAllPaths(p *Program, r *Report) {
	r.Begin("R19i", "validation independent of the filesystem: in applyIfExistsConfig, for every ifExists mode (the string constants the mode switch compares against), if some path of that mode passes through a validating call (a function of the package that can return a description error), then every path of that mode that returns nil passes through one — branch conditions that compare the mode string with a constant are evaluated, filesystem tests are left open", 3)
	defer r.End()
	fn := p.Func(outPkg, "applyIfExistsConfig")
	if fn == nil {
		r.Undecided("anchor", "pkg/arrai.applyIfExistsConfig not found", 0)
		return
	}
	r.Fn(FnName(fn))
	// validators: functions of the package that can return a description error, to a fixpoint over their callers
	V := map[*ssa.Function]bool{}
	for changed := true; changed; {
		changed = false
		for _, g := range p.RepoFns {
			if PkgPathOf(g) != Mod+"/"+outPkg || V[g] || g.Parent() != nil {
				continue
			}
			ForEachInstr(g, func(ins ssa.Instruction) {
				ret, ok := ins.(*ssa.Return)
				if !ok || len(ret.Results) == 0 || V[g] {
					return
				}
				ev := RetVal(ret, len(ret.Results)-1)
				if !isErrorType(ev.Type()) || IsNilConst(ev) {
					return
				}
				if isValidationErr(ev) || DependsOn(ev, func(x ssa.Value) bool {
					c, ok := x.(*ssa.Call)
					return ok && c.Call.StaticCallee() != nil && V[c.Call.StaticCallee()]
				}) {
					V[g] = true
					changed = true
				}
			})
		}
	}
	delete(V, fn)
	{
		var vs []string
		for g := range V {
			vs = append(vs, FnName(g))
		}
		sort.Strings(vs)
		r.Notes = append(r.Notes, "R19i validators: "+strings.Join(vs, " "))
	}
	// the mode constants: string constants compared with a String() call result
	modeOf := func(cond ssa.Value) (string, bool, bool) { // const, isEq, ok
		bo, ok := cond.(*ssa.BinOp)
		if !ok || (bo.Op != token.EQL && bo.Op != token.NEQ) {
			return "", false, false
		}
		k, isK := bo.Y.(*ssa.Const)
		x := bo.X
		if !isK {
			k, isK = bo.X.(*ssa.Const)
			x = bo.Y
		}
		if !isK || k.Value == nil || k.Value.Kind() != constant.String {
			return "", false, false
		}
		c, isCall := x.(*ssa.Call)
		if !isCall || !c.Call.IsInvoke() || c.Call.Method.Name() != "String" {
			return "", false, false
		}
		return constant.StringVal(k.Value), bo.Op == token.EQL, true
	}
	modes := map[string]bool{}
	for _, b := range fn.Blocks {
		if cond := IfCond(b); cond != nil {
			if m, _, ok := modeOf(cond); ok {
				modes[m] = true
			}
		}
	}
	var ms []string
	for m := range modes {
		ms = append(ms, m)
	}
	sort.Strings(ms)
	for _, m := range ms {
		// explore (block, validated) states with the mode fixed
		type state struct {
			b *ssa.BasicBlock
			v bool // a validating call was passed
			k bool // a comparison of the mode was passed (before that the entry may carry no ifExists at all)
		}
		seen := map[state]bool{}
		anyValidated := false
		var bad token.Pos
		work := []state{{fn.Blocks[0], false, false}}
		for len(work) > 0 {
			s := work[len(work)-1]
			work = work[:len(work)-1]
			if seen[s] {
				continue
			}
			seen[s] = true
			v, known := s.v, s.k
			for _, ins := range s.b.Instrs {
				switch x := ins.(type) {
				case *ssa.Call:
					if g := x.Call.StaticCallee(); g != nil && V[g] {
						v = true
						anyValidated = true
					}
				case *ssa.Return:
					if s.b == fn.Recover {
						continue
					}
					if ev := RetVal(x, len(x.Results)-1); IsNilConst(ev) && !v && known {
						bad = x.Pos()
					}
				}
			}
			succs := s.b.Succs
			if cond := IfCond(s.b); cond != nil {
				if k, isEq, ok := modeOf(cond); ok {
					taken := 1
					if (k == m) == isEq {
						taken = 0
					}
					succs = []*ssa.BasicBlock{s.b.Succs[taken]}
					known = true
				}
			}
			for _, nb := range succs {
				work = append(work, state{nb, v, known})
			}
		}
		key := "mode@" + m
		switch {
		case !anyValidated:
			r.OK(key, "this mode validates nothing on any path (nothing to agree with)", fn.Pos())
		default:
			r.Check(bad == token.NoPos, key, "every successful path of this mode validates the description", fmt.Sprintf("for ifExists: '%s' the description is validated on some paths of applyIfExistsConfig but a success return is reachable without it (depending only on what exists on disk): an invalid entry is accepted when its target happens to be absent or present, and the rest of the tree is written", m), bad)
		}
	}
	if len(ms) < 3 {
		r.Undecided("modes", fmt.Sprintf("only %d mode constants found in applyIfExistsConfig", len(ms)), fn.Pos())
	}
}

func init() { register("C19", Rule{"R19i", ruleModeValidatedOnAllPaths}) }
