package main

import (
	"go/token"
	"go/types"

	"golang.org/x/tools/go/ssa"
)

// PostDom holds the post-dominator relation of one function (virtual exit joins all Return/Panic blocks).
type PostDom struct {
	fn    *ssa.Function
	n     int
	pdom  [][]bool // pdom[a][b] : b post-dominates a  (index n = virtual exit)
	exits []int
}

// NewPostDom computes post-dominators with the classic iterative set algorithm (functions here are small).
func NewPostDom(fn *ssa.Function) *PostDom {
	n := len(fn.Blocks)
	pd := &PostDom{fn: fn, n: n}
	succs := make([][]int, n+1)
	for _, b := range fn.Blocks {
		if len(b.Succs) == 0 {
			succs[b.Index] = []int{n}
			pd.exits = append(pd.exits, b.Index)
		}
		for _, s := range b.Succs {
			succs[b.Index] = append(succs[b.Index], s.Index)
		}
	}
	full := func() []bool {
		s := make([]bool, n+1)
		for i := range s {
			s[i] = true
		}
		return s
	}
	pd.pdom = make([][]bool, n+1)
	for i := 0; i <= n; i++ {
		pd.pdom[i] = full()
	}
	pd.pdom[n] = make([]bool, n+1)
	pd.pdom[n][n] = true
	changed := true
	for changed {
		changed = false
		for i := n - 1; i >= 0; i-- {
			nw := full()
			if len(succs[i]) == 0 {
				nw = make([]bool, n+1)
			}
			for _, s := range succs[i] {
				for k := 0; k <= n; k++ {
					nw[k] = nw[k] && pd.pdom[s][k]
				}
			}
			nw[i] = true
			for k := 0; k <= n; k++ {
				if nw[k] != pd.pdom[i][k] {
					changed = true
					pd.pdom[i] = nw
					break
				}
			}
		}
	}
	return pd
}

// PostDominates reports whether block b post-dominates block a.
func (pd *PostDom) PostDominates(b, a *ssa.BasicBlock) bool { return pd.pdom[a.Index][b.Index] }

// CtrlDep is a control dependence: block depends on branch block Br taking successor index Succ.
type CtrlDep struct {
	Br   *ssa.BasicBlock
	Succ int
}

// ControlDeps returns the direct control dependences of block b (Ferrante et al.): b is control dependent
// on edge (a -> s) iff b post-dominates s and b does not strictly post-dominate a.
func (pd *PostDom) ControlDeps(b *ssa.BasicBlock) []CtrlDep {
	var out []CtrlDep
	for _, a := range pd.fn.Blocks {
		if len(a.Succs) < 2 {
			continue
		}
		for i, s := range a.Succs {
			if pd.pdom[s.Index][b.Index] && !(a != b && pd.pdom[a.Index][b.Index]) {
				out = append(out, CtrlDep{a, i})
			}
		}
	}
	return out
}

// TransitiveControlDeps returns all (transitive) control dependences of block b.
func (pd *PostDom) TransitiveControlDeps(b *ssa.BasicBlock) []CtrlDep {
	seen := map[CtrlDep]bool{}
	seenB := map[*ssa.BasicBlock]bool{}
	var out []CtrlDep
	var walk func(x *ssa.BasicBlock)
	walk = func(x *ssa.BasicBlock) {
		if seenB[x] {
			return
		}
		seenB[x] = true
		for _, d := range pd.ControlDeps(x) {
			if !seen[d] {
				seen[d] = true
				out = append(out, d)
			}
			walk(d.Br)
		}
	}
	walk(b)
	return out
}

// IfCond returns the condition of the If terminating block b (nil if b does not end in an If).
func IfCond(b *ssa.BasicBlock) ssa.Value {
	if len(b.Instrs) == 0 {
		return nil
	}
	if i, ok := b.Instrs[len(b.Instrs)-1].(*ssa.If); ok {
		return i.Cond
	}
	return nil
}

// Reaches reports whether there is a CFG path from block a to block b (a == b counts only via a cycle
// unless self is true).
func Reaches(a, b *ssa.BasicBlock, self bool) bool {
	if self && a == b {
		return true
	}
	seen := map[*ssa.BasicBlock]bool{}
	work := append([]*ssa.BasicBlock{}, a.Succs...)
	for len(work) > 0 {
		x := work[len(work)-1]
		work = work[:len(work)-1]
		if seen[x] {
			continue
		}
		seen[x] = true
		if x == b {
			return true
		}
		work = append(work, x.Succs...)
	}
	return false
}

// InstrIndex returns the index of ins in its block.
func InstrIndex(ins ssa.Instruction) int {
	for i, x := range ins.Block().Instrs {
		if x == ins {
			return i
		}
	}
	return -1
}

// InstrDominates reports whether instruction a dominates instruction b (same function).
func InstrDominates(a, b ssa.Instruction) bool {
	if a.Block() == b.Block() {
		return InstrIndex(a) < InstrIndex(b)
	}
	return a.Block().Dominates(b.Block())
}

// DependsOn reports whether value v is data-dependent (through SSA operands, within the function,
// through local Alloc cells via stores) on any value satisfying pred.
func DependsOn(v ssa.Value, pred func(ssa.Value) bool) bool {
	seen := map[ssa.Value]bool{}
	var walk func(x ssa.Value) bool
	walk = func(x ssa.Value) bool {
		if x == nil || seen[x] {
			return false
		}
		seen[x] = true
		if pred(x) {
			return true
		}
		switch y := x.(type) {
		case *ssa.Alloc:
			for _, ref := range *y.Referrers() {
				switch st := ref.(type) {
				case *ssa.Store:
					if st.Addr == y && walk(st.Val) {
						return true
					}
				case *ssa.IndexAddr:
					// stores into elements of a local array (e.g. the argument array of a variadic call)
					for _, r2 := range *st.Referrers() {
						if s2, ok := r2.(*ssa.Store); ok && s2.Addr == ssa.Value(st) && walk(s2.Val) {
							return true
						}
					}
				case *ssa.FieldAddr:
					// the object itself is the value of interest (e.g. &wrapErr{err: e}): all its fields count
					for _, r2 := range *st.Referrers() {
						if s2, ok := r2.(*ssa.Store); ok && s2.Addr == ssa.Value(st) && walk(s2.Val) {
							return true
						}
					}
				}
			}
			return false
		case *ssa.FieldAddr:
			// a field of a local struct: only what is stored into that same field
			if al, ok := y.X.(*ssa.Alloc); ok {
				for _, ref := range *al.Referrers() {
					if st, ok := ref.(*ssa.Store); ok && st.Addr == ssa.Value(al) && walk(st.Val) {
						return true // the whole struct was stored
					}
					if fa, ok := ref.(*ssa.FieldAddr); ok && fa.Field == y.Field {
						for _, r2 := range *fa.Referrers() {
							if s2, ok := r2.(*ssa.Store); ok && s2.Addr == ssa.Value(fa) && walk(s2.Val) {
								return true
							}
						}
					}
				}
				return false
			}
		case *ssa.Phi:
			// the branch conditions that select among the incoming edges (short-circuit && / ||)
			for _, pred := range y.Block().Preds {
				if c := IfCond(pred); c != nil && walk(c) {
					return true
				}
			}
		}
		if ins, ok := x.(ssa.Instruction); ok {
			var ops []*ssa.Value
			for _, o := range ins.Operands(ops) {
				if *o != nil && walk(*o) {
					return true
				}
			}
		}
		return false
	}
	return walk(v)
}

// IsCallTo reports whether v is a call (or an Extract of a call) whose static callee satisfies pred.
func CallOf(v ssa.Value) *ssa.Call {
	switch x := v.(type) {
	case *ssa.Call:
		return x
	case *ssa.Extract:
		if c, ok := x.Tuple.(*ssa.Call); ok {
			return c
		}
	}
	return nil
}

// IsNilConst reports whether v is the nil constant.
func IsNilConst(v ssa.Value) bool {
	c, ok := v.(*ssa.Const)
	return ok && c.Value == nil
}

// BoolConst returns (value, true) when v is a boolean constant.
func BoolConst(v ssa.Value) (bool, bool) {
	c, ok := v.(*ssa.Const)
	if !ok || c.Value == nil {
		return false, false
	}
	if b, ok := c.Type().Underlying().(*types.Basic); ok && b.Info()&types.IsBoolean != 0 {
		return c.Value.String() == "true", true
	}
	return false, false
}

// ErrNonNilBranch: if cond is `err != nil` (or `err == nil`) for an error-typed value, returns the error
// value and the successor index taken when the error is non-nil.
func ErrNonNilBranch(cond ssa.Value) (ssa.Value, int, bool) {
	b, ok := cond.(*ssa.BinOp)
	if !ok || (b.Op != token.NEQ && b.Op != token.EQL) {
		return nil, 0, false
	}
	var v ssa.Value
	switch {
	case IsNilConst(b.Y):
		v = b.X
	case IsNilConst(b.X):
		v = b.Y
	default:
		return nil, 0, false
	}
	if !isErrorType(v.Type()) {
		return nil, 0, false
	}
	if b.Op == token.NEQ {
		return v, 0, true
	}
	return v, 1, true
}

func isErrorType(t types.Type) bool {
	n, ok := t.(*types.Named)
	return ok && n.Obj().Pkg() == nil && n.Obj().Name() == "error"
}

// CalleeName gives "pkgpath.Func" or "(recv).Method" for static callees and "invoke Iface.Method" for
// interface calls; "" for dynamic function values.
func CalleeName(c *ssa.CallCommon) string {
	if c.IsInvoke() {
		return "invoke " + TypeName(c.Value.Type()) + "." + c.Method.Name()
	}
	if f := c.StaticCallee(); f != nil {
		return FnName(f)
	}
	if b, ok := c.Value.(*ssa.Builtin); ok {
		return "builtin " + b.Name()
	}
	return ""
}

// RetVal resolves result i of a Return: functions with defers spill results into a local cell and return a
// load of it; the value actually returned is the last store to that cell in the returning block.
func RetVal(ret *ssa.Return, i int) ssa.Value {
	return resolveCellLoad(ret.Results[i], 0)
}

// resolveCellLoad: a load of a local cell (named result, spilled variable) is replaced by the value stored into the
// cell that reaches it — the last store before it in its block, else the nearest store in a dominating block when no
// other store can intervene.  Anything else is returned unchanged.
func resolveCellLoad(v ssa.Value, depth int) ssa.Value {
	ld, ok := v.(*ssa.UnOp)
	if !ok || ld.Op != token.MUL || depth > 4 {
		return v
	}
	al, ok := ld.X.(*ssa.Alloc)
	if !ok || al.Referrers() == nil {
		return v
	}
	var last ssa.Value
	for _, ins := range ld.Block().Instrs {
		if ins == ssa.Instruction(ld) {
			break
		}
		if st, ok := ins.(*ssa.Store); ok && st.Addr == ssa.Value(al) {
			last = st.Val
		}
	}
	if last != nil {
		return resolveCellLoad(last, depth+1)
	}
	var stores []*ssa.Store
	for _, ref := range *al.Referrers() {
		if st, ok := ref.(*ssa.Store); ok && st.Addr == ssa.Value(al) {
			stores = append(stores, st)
		}
	}
	for d := ld.Block().Idom(); d != nil; d = d.Idom() {
		var cand *ssa.Store
		for _, ins := range d.Instrs {
			if st, ok := ins.(*ssa.Store); ok && st.Addr == ssa.Value(al) {
				cand = st
			}
		}
		if cand == nil {
			continue
		}
		for _, st := range stores {
			if st == cand || st.Block() == d {
				continue
			}
			if st.Block() == ld.Block() {
				// stores before the load in its own block were handled above; later ones do not reach it, unless the
				// block is in a loop
				if !Reaches(ld.Block(), ld.Block(), false) {
					continue
				}
			}
			if Reaches(d, st.Block(), false) && (st.Block() == ld.Block() || Reaches(st.Block(), ld.Block(), false)) {
				return v // another definition may intervene
			}
		}
		return resolveCellLoad(cand.Val, depth+1)
	}
	return v
}
