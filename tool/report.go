package main

import (
	"bufio"
	"encoding/json"
	"fmt"
	"go/token"
	"hash/fnv"
	"os"
	"path/filepath"
	"regexp"
	"sort"
	"strings"
)

// Status of an obligation.
const (
	StOK    = "ok"
	StViol  = "violation"
	StKnown = "known-finding"
	StInfo  = "info"
)

// Ob is one obligation: a rule applied to one construct of the program.
type Ob struct {
	Rule   string   `json:"rule"`
	Key    string   `json:"key"`
	Status string   `json:"status"`
	Detail string   `json:"detail,omitempty"`
	Pos    string   `json:"pos,omitempty"`
	Path   []string `json:"path,omitempty"`
}

// RuleInfo documents a rule in the evidence.
type RuleInfo struct {
	Name      string `json:"name"`
	Decides   string `json:"decides"`
	Instances int    `json:"instances"`
	Floor     int    `json:"floor"`
	Violation int    `json:"violations"`
	Known     int    `json:"known_findings"`
}

// Report collects obligations of one property run.
type Report struct {
	Prop    string
	P       *Program
	Obs     []Ob
	rules   map[string]*RuleInfo
	order   []string
	seen    map[string]bool
	cur     string
	Notes   []string
	Funcs   map[string]bool
	Sites   int
	Assumes []string
}

func NewReport(prop string, p *Program) *Report {
	return &Report{Prop: prop, P: p, rules: map[string]*RuleInfo{}, seen: map[string]bool{}, Funcs: map[string]bool{}}
}

// Begin starts a rule; decides is the one-line statement of what the rule decides.
func (r *Report) Begin(rule, decides string, floor int) {
	r.cur = rule
	if _, ok := r.rules[rule]; !ok {
		r.rules[rule] = &RuleInfo{Name: rule, Decides: decides, Floor: floor}
		r.order = append(r.order, rule)
	}
}

func (r *Report) pos(p token.Pos) string {
	if r.P == nil {
		return "-"
	}
	return r.P.Pos(p)
}

func (r *Report) add(status, key, detail string, pos token.Pos, path []string) {
	rule := r.cur
	key = strings.ReplaceAll(key, " ", "_")
	full := r.Prop + "/" + rule + "/" + key
	if r.seen[full+"|"+status] {
		return
	}
	r.seen[full+"|"+status] = true
	r.Obs = append(r.Obs, Ob{Rule: rule, Key: full, Status: status, Detail: detail, Pos: r.pos(pos), Path: path})
	if status != StInfo {
		r.rules[rule].Instances++
	}
}

// OK records a discharged obligation.
func (r *Report) OK(key, detail string, pos token.Pos) { r.add(StOK, key, detail, pos, nil) }

// Viol records a violated obligation.
func (r *Report) Viol(key, detail string, pos token.Pos) { r.add(StViol, key, detail, pos, nil) }

// ViolPath records a violated obligation with a call/def-use path.
func (r *Report) ViolPath(key, detail string, pos token.Pos, path []string) {
	r.add(StViol, key, detail, pos, path)
}

// Info records information that is not an obligation.
func (r *Report) Info(key, detail string, pos token.Pos) { r.add(StInfo, key, detail, pos, nil) }

// Undecided records that the rule could not decide something: this fails the check.
func (r *Report) Undecided(what, detail string, pos token.Pos) {
	r.add(StViol, "undecided:"+what, "reason=undecided "+detail, pos, nil)
}

// Check is OK when cond holds, a violation otherwise.
func (r *Report) Check(cond bool, key, okDetail, badDetail string, pos token.Pos) bool {
	if cond {
		r.OK(key, okDetail, pos)
	} else {
		r.Viol(key, badDetail, pos)
	}
	return cond
}

// Fn notes that a function was analysed.
func (r *Report) Fn(name string) { r.Funcs[name] = true }

// End closes the current rule and asserts its instance floor.
func (r *Report) End() {
	ri := r.rules[r.cur]
	if ri != nil && ri.Instances < ri.Floor {
		r.add(StViol, "undecided:floor", fmt.Sprintf("reason=undecided rule matched %d instances, fewer than the %d confirmed by hand: anchors moved or the rule no longer sees the mechanism", ri.Instances, ri.Floor), token.NoPos, nil)
	}
	r.cur = ""
}

// Finding is one line of known_findings.txt.
type Finding struct {
	Kind    string // finding | fixed
	Prop    string
	Key     string
	Trigger string
	Raw     string
}

var kvRe = regexp.MustCompile(`(\w+)=("([^"]*)"|\S+)`)

// ReadFindings parses known_findings.txt.
func ReadFindings(path string) ([]Finding, error) {
	f, err := os.Open(path)
	if err != nil {
		if os.IsNotExist(err) {
			return nil, nil
		}
		return nil, err
	}
	defer f.Close()
	var out []Finding
	sc := bufio.NewScanner(f)
	sc.Buffer(make([]byte, 1<<20), 1<<20)
	for sc.Scan() {
		line := strings.TrimSpace(sc.Text())
		if line == "" || strings.HasPrefix(line, "#") {
			continue
		}
		var fd Finding
		switch {
		case strings.HasPrefix(line, "finding:"):
			fd.Kind = "finding"
		case strings.HasPrefix(line, "fixed:"):
			fd.Kind = "fixed"
		default:
			return nil, fmt.Errorf("known findings: unrecognised line %q", line)
		}
		fd.Raw = line
		for _, m := range kvRe.FindAllStringSubmatch(line, -1) {
			v := m[2]
			if strings.HasPrefix(v, `"`) {
				v = m[3]
			}
			switch m[1] {
			case "property":
				fd.Prop = v
			case "key":
				fd.Key = v
			case "trigger":
				fd.Trigger = v
			}
		}
		out = append(out, fd)
	}
	return out, sc.Err()
}

// Finish matches violations against known findings, prints the verdict lines, writes replay files and
// the evidence file, and returns the process exit code.
func (r *Report) Finish(tier string, seed int64, wall float64, knownPath, evidencePath, replayDir string, extra map[string]interface{}) int {
	known, err := ReadFindings(knownPath)
	if err != nil {
		r.cur = "framework"
		r.rules["framework"] = &RuleInfo{Name: "framework"}
		r.add(StViol, "undecided:known-findings", "reason=undecided "+err.Error(), token.NoPos, nil)
	}
	kn := map[string]Finding{}
	for _, k := range known {
		if k.Kind == "finding" && k.Prop == r.Prop {
			kn[k.Key] = k
		}
	}
	matched := map[string]bool{}
	nviol := 0
	sort.SliceStable(r.Obs, func(i, j int) bool { return r.Obs[i].Key < r.Obs[j].Key })
	for i := range r.Obs {
		o := &r.Obs[i]
		if o.Status != StViol {
			continue
		}
		if k, ok := kn[o.Key]; ok {
			o.Status = StKnown
			matched[o.Key] = true
			if ri := r.rules[o.Rule]; ri != nil {
				ri.Known++
			}
			fmt.Printf("KNOWN-FINDING: property=%s key=%s %s [%s] trigger=%q\n", r.Prop, o.Key, o.Detail, o.Pos, k.Trigger)
			continue
		}
		nviol++
		if ri := r.rules[o.Rule]; ri != nil {
			ri.Violation++
		}
		rp := filepath.Join(replayDir, r.Prop, sanitize(o.Key)+".json")
		_ = os.MkdirAll(filepath.Dir(rp), 0o755)
		b, _ := json.MarshalIndent(map[string]interface{}{"property": r.Prop, "obligation": o}, "", " ")
		_ = os.WriteFile(rp, b, 0o644)
		fmt.Printf("VIOLATION property=%s replay=%s\n", r.Prop, rp)
		fmt.Printf("  rule=%s key=%s at %s: %s\n", o.Rule, o.Key, o.Pos, o.Detail)
		for _, s := range o.Path {
			fmt.Printf("    via %s\n", s)
		}
	}
	// stale known findings are information only: a listed finding that no longer fires (e.g. repaired).
	var stale []string
	for k := range kn {
		if !matched[k] {
			stale = append(stale, k)
		}
	}
	sort.Strings(stale)

	// evidence
	nOb, nDis, nKnown, nInfo := 0, 0, 0, 0
	distinct := map[string]bool{}
	var samples []Ob
	perRuleSample := map[string]int{}
	for _, o := range r.Obs {
		switch o.Status {
		case StInfo:
			nInfo++
			continue
		case StOK:
			nDis++
		case StKnown:
			nKnown++
		}
		nOb++
		distinct[o.Key] = true
		if o.Status != StOK || perRuleSample[o.Rule] < 3 {
			if len(samples) < 60 {
				samples = append(samples, o)
				perRuleSample[o.Rule]++
			}
		}
	}
	var rules []RuleInfo
	expl := []string{}
	for _, n := range r.order {
		ri := r.rules[n]
		rules = append(rules, *ri)
		expl = append(expl, n+": "+ri.Decides)
	}
	var fns []string
	for f := range r.Funcs {
		fns = append(fns, f)
	}
	sort.Strings(fns)
	cov := map[string]interface{}{
		"explanation":         "Static analysis of /repo's current source (type-checked program, go/ssa, call graph); nothing is executed. Rules and what each decides: " + strings.Join(expl, " | "),
		"obligations":         nOb,
		"discharged":          nDis,
		"known_findings":      nKnown,
		"violations":          nviol,
		"undecided":           countUndecided(r.Obs),
		"info_items":          nInfo,
		"evaluations":         nOb,
		"distinct_nontrivial": len(distinct),
		"rule":                "one evaluation = one rule applied to one program construct (function, call site, table entry, type pair); distinct = distinct obligation keys; non-trivial = the rule matched a real construct of the current source",
		"rules":               rules,
		"functions_analysed":  len(fns),
		"functions":           truncate(fns, 80),
		"samples":             samples,
		"stale_known":         stale,
		"notes":               r.Notes,
		"exhaustive":          false,
		"checker_cmd":         strings.Join(os.Args, " "),
	}
	for k, v := range extra {
		cov[k] = v
	}
	ev := map[string]interface{}{
		"property_id": r.Prop,
		"tier":        tier,
		"seed":        seed,
		"level":       "other",
		"coverage":    cov,
		"assumptions": append([]string{"go/types, go/ssa and the VTA call graph of golang.org/x/tools v0.29.0 represent the program faithfully", "dependencies (frozen, afero, wbnf, grpc) behave as documented; only module github.com/arr-ai/arrai is analysed", "default build configuration (linux/amd64, no extra tags), non-test files"}, r.Assumes...),
		"wall_s":      wall,
		"violations":  nviol,
	}
	if evidencePath != "" {
		_ = os.MkdirAll(filepath.Dir(evidencePath), 0o755)
		b, _ := json.MarshalIndent(ev, "", " ")
		if err := os.WriteFile(evidencePath, b, 0o644); err != nil {
			fmt.Printf("VIOLATION property=%s replay=%s\n  cannot write evidence: %v\n", r.Prop, evidencePath, err)
			return 1
		}
	}
	fmt.Printf("%s %s: %d obligations, %d discharged, %d known findings, %d violations (%d rules, %d info) in %.1fs\n",
		r.Prop, tier, nOb, nDis, nKnown, nviol, len(rules), nInfo, wall)
	if nviol > 0 {
		return 1
	}
	return 0
}

func countUndecided(obs []Ob) int {
	n := 0
	for _, o := range obs {
		if o.Status == StViol && strings.Contains(o.Key, "undecided:") {
			n++
		}
	}
	return n
}

func truncate(s []string, n int) []string {
	if len(s) > n {
		return s[:n]
	}
	return s
}

var sanRe = regexp.MustCompile(`[^A-Za-z0-9_.-]+`)

func sanitize(s string) string {
	h := fnv.New32a()
	h.Write([]byte(s))
	s = sanRe.ReplaceAllString(s, "_")
	if len(s) > 120 {
		s = s[:120]
	}
	return fmt.Sprintf("%s-%08x", s, h.Sum32())
}
