#!/usr/bin/env python3
"""Regenerates MANIFEST.json from the table below (kept in one place so the manifest is always valid)."""
import json, subprocess

BASE_OFF = "cd /repo && GOFLAGS=-mod=mod GOPROXY=off go test -json -vet=off -count=1 -timeout 25m ./..."

# id -> (technique, level text, level note, design ref)   — only properties with registered rules
CLAIMED = {}
NA = {}

def claim(pid, technique, text, note, ref):
    CLAIMED[pid] = dict(technique=technique, text=text, note=note, ref=ref)

def na(pid, reason):
    NA[pid] = reason

exec(open('/verif/manifest_table.py').read())

checks = []
for pid in sorted(CLAIMED):
    c = CLAIMED[pid]
    checks.append({
        "property_id": pid,
        "quick_cmd": f"./check {pid} quick",
        "thorough_cmd": f"./check {pid} thorough",
        "evidence_file": f"evidence/{pid}.json",
        "replay_cmd_template": "./check --replay {path}",
        "engine": "arraivet",
        "level_claimed": {"category": "other", "text": c["text"], "design_ref": c["ref"]},
        "level_note": c["note"],
        "technique": c["technique"],
    })

props = [json.loads(l)["id"] for l in open('/verif/properties.jsonl')]
for pid in props:
    assert (pid in CLAIMED) != (pid in NA), pid

m = {
    "version": 1,
    "setup_cmd": "cd tool && GOFLAGS=-mod=mod GOPROXY=off go build -o ../bin/arraivet .",
    "hooks": {
        "guard": "verif",
        "enable": "no hooks: the analyses read /repo's source (go/packages + go/ssa); nothing is built with a tag",
        "baseline_off_cmd": BASE_OFF,
        "source_commits": [],
        "add_only": True,
    },
    "engines": [{
        "name": "arraivet",
        "path": "tool/",
        "serves_properties": sorted(CLAIMED),
        "kind_free_text": "repository-specific static analyser (Go; golang.org/x/tools v0.29.0: go/packages, go/ssa, VTA call graph): type-specialised SCCP, ownership/taint summaries, guarded-by, control dependence, table extraction",
    }],
    "checks": checks,
    "notes": "Family: static analysis. Every claim is level 'other': each check decides structural necessary conditions of its property (stated per rule in the evidence and in DESIGN.md §3), never the behaviour itself. Genuine defects found are either repaired by 'fix:' commits in /repo or listed in known_findings.txt.",
    "not_applicable": [{"property_id": k, "reason": NA[k]} for k in sorted(NA)],
}
json.dump(m, open('/verif/MANIFEST.json', 'w'), indent=1)
print("claimed", len(checks), "n/a", len(NA))
