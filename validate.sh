#!/bin/bash
# validates MANIFEST.json and every evidence file against the schemas (python3-vt has jsonschema)
python3-vt - <<'PY'
import json,jsonschema,glob,sys
jsonschema.validate(json.load(open('/verif/MANIFEST.json')), json.load(open('/root/.vp/MANIFEST.schema.json')))
print('manifest ok')
es=json.load(open('/root/.vp/EVIDENCE.schema.json'))
for f in sorted(glob.glob('/verif/evidence/*.json')):
    jsonschema.validate(json.load(open(f)), es); print('evidence ok', f)
PY
