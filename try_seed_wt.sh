#!/bin/bash
# usage: try_seed_wt.sh <seed dir> <prop> [tier] — like try_seed.sh but on a scratch worktree of /repo's HEAD (leaves /repo untouched)
D=$(readlink -f $1); P=$2; T=${3:-quick}
WT=/tmp/wt/tryw-$$
git -C /repo worktree add --detach $WT ${BASE:-HEAD} >/dev/null 2>&1 || exit 2
git -C $WT apply $D/patch.diff || echo "PATCH DOES NOT APPLY"
cd /verif
VERIF_REPO=$WT ./check $P $T | grep -v "^    via\|^KNOWN" | cut -c1-400 | tail -${LINES_OUT:-12}
git -C /repo worktree remove --force $WT
