#!/bin/bash
# usage: confirm_seed.sh <seed-dir-name e.g. C19-1>
# Confirms a seeded change independently in a fresh scratch worktree: patch applies, builds, existing suite passes
# (apart from the baseline's network tests), demo fails with the change and passes without it.
set -u
S=$1
SRC=/tmp/seeds/$S
WT=/tmp/wt/confirm-$S
export GOFLAGS=-mod=mod GOPROXY=off
BASE=${SEED_BASE:-HEAD}
LOG=/tmp/seeds/$S/confirm.log
exec >"$LOG" 2>&1
git -C /repo worktree remove --force "$WT" 2>/dev/null
git -C /repo worktree add --detach "$WT" "$BASE" || exit 2
cd "$WT" || exit 2
DEMODIR=$(python3 -c "import json;print(json.load(open('$SRC/meta.json')).get('demo_dir','') or '')")
DEMOCMD=$(python3 -c "import json;print(json.load(open('$SRC/meta.json')).get('demo',''))")
echo "== demo without the change"
if ! echo "$DEMOCMD" | grep -q "/tmp/seeds"; then
  for f in $SRC/*_test.go; do [ -f "$f" ] && cp "$f" "$WT/$DEMODIR/"; done
  [ -f $SRC/demo.sh ] && cp $SRC/demo.sh "$WT/"
fi
( eval "$DEMOCMD" ) ; W0=$?
echo "demo exit without change: $W0"
echo "== apply"
git apply "$SRC/patch.diff" || { echo "PATCH DOES NOT APPLY"; exit 3; }
echo "== demo with the change"
( eval "$DEMOCMD" ) ; W1=$?
echo "demo exit with change: $W1"
git clean -fdq   # drop the demonstration files (untracked) before running the existing suite
echo "== build + suite with the change"
go build ./... ; B=$?
go test -vet=off -count=1 -timeout 25m -json ./... 2>/dev/null | python3 -c "
import sys,json
fails=set()
for l in sys.stdin:
    try: e=json.loads(l)
    except: continue
    if e.get('Action')=='fail' and e.get('Test'): fails.add(e['Package'].split('arrai/')[-1]+'::'+e['Test'])
allowed=('TestBundleFiles','TestPackageExternalImportModule','TestCompileFile')
bad=[f for f in sorted(fails) if not any(a in f for a in allowed)]
print('FAILING (non-network):',bad)
print('SUITE_OK' if not bad else 'SUITE_BROKEN')
"
echo "RESULT build=$B demo_without=$W0 demo_with=$W1"
cd /; git -C /repo worktree remove --force "$WT"
