#!/bin/bash
# usage: try_refactor_wt.sh <n> [props...] — like try_refactor.sh but on a scratch worktree (leaves /repo untouched)
N=$1; shift
WT=/tmp/wt/tryr-$$
git -C /repo worktree add --detach $WT ${BASE:-HEAD} >/dev/null 2>&1 || exit 2
git -C $WT apply ${REFDIR:-/verif/refactors}/$N/patch.diff || { echo "patch does not apply"; git -C /repo worktree remove --force $WT; exit 2; }
cd /verif
export VERIF_REPO=$WT
if [ $# -eq 0 ]; then ./run_all.sh quick; else for p in "$@"; do ./check $p quick | grep "^  rule=\|^$p" | cut -c1-330; done; fi
git -C /repo worktree remove --force $WT
